/-
C18 — Unit and quantity text: print-parse round-trip, SI meaning, rejection.

Theorems about the executable model of `parse_units`, `parse_unitvalue`, `Units.__str__`,
`UnitValue.__str__`, `Units.__eq__` (Model/Units.lean), which is parameterised by the tables and
text-pipeline constants regenerated from units.py on every run (Gen/Units.lean, Gen/UnitsText.lean).
`float(text)` and `str(float)` are trusted primitives (parameters `pyFloat`, `pyRepr`).
-/
import Strengths.Proofs.UnitsText
import Strengths.Proofs.UnitsGrammar
import Strengths.Props.C06

namespace Strengths.C18
open Strengths Strengths.Gen

/-! ## The constants of the text pipeline (regenerated from the source) -/

/-- the order and shape of the pre/post-processing steps of `parse_units`, `parse_unitvalue`,
`Units.__str__`, `UnitValue.__str__`, `Units.__eq__` are the ones the model implements -/
theorem text_pipeline_anchors :
    puRejectsInnerBlank = true ∧ puFirstBlockSep = '.' ∧ puDefaultExp = "1" ∧ puStrictExponent = true ∧ puExpReader = "int" ∧
    puNegSep = '/' ∧ puAddUnitTest = "sys[field]==Noneorsys[field]==su" ∧ puAddUnitElseRaises = true ∧
    puUnknownUnitRaises = true ∧
    uvStrips = true ∧ uvSplitter = "s.split()" ∧ uvValueReader = "float(tok[0])" ∧ uvUnitTokJoin = " " ∧
    uvUnitsArg = "us" ∧ uvEmptyValue = 0 ∧ uvEmptyUnits = "" ∧
    strSkipExp = 0 ∧ strBareExp = 1 ∧ strSep = "." ∧ strKeys = ["space", "time", "quantity"] ∧ uvStrSep = " " ∧
    unitsEqKeys = ["space", "time", "quantity"] ∧
    unitsEqTests = ["self.dim[k]!=v.dim[k]", "(self.dim[k]!=0)and(self.sys[k]!=v.sys[k])"] ∧
    sepChars = ['.', '/'] ∧ expChars = ['-', '0', '1', '2', '3', '4', '5', '6', '7', '8', '9'] ∧
    uSubst = [("um", "µm"), ("us", "µs"), ("umol", "µmol"), ("uL", "µL"), ("uM", "µM")] := by
  decide +kernel

/-! ## Round trip of unit text -/

/-- `int(str(n)) = n` for every integer (own digit printer and reader) -/
theorem int_text_roundtrip (n : Int) : pyInt (showIntChars n) = some n := pyInt_showInt n

/-- **print → parse round trip for units**: for every valid unit system (all 1100) and every integer
exponent vector, parsing the printed text succeeds and gives the same exponents and, for every
non-zero exponent, the same base unit (`Units.__eq__`). -/
theorem show_parse_units (u : Units) (hv : u.sys.valid = true) :
    ∃ u', parseUnitsChars (showUnitsChars u) = .ok u' ∧ u'.dim = u.dim ∧ Units.eqv u' u = true ∧
      u'.sys.valid = true := by
  have hv' := (Sys.valid_iff _).1 hv
  have hmem : ∀ b ∈ printedBlocks u, ∃ sym e, b = pblock sym e ∧
      sym ∈ spaceSyms ++ timeSyms ++ qtySyms ++ densitySyms ++ volumeSyms := by
    intro b hb
    simp only [printedBlocks, pblocks, List.mem_append] at hb
    rcases hb with (hb | hb) | hb <;> split at hb <;> simp only [List.mem_singleton, List.not_mem_nil] at hb
    · exact ⟨_, _, hb, by simp [hv'.1]⟩
    · exact ⟨_, _, hb, by simp [hv'.2.1]⟩
    · exact ⟨_, _, hb, by simp [hv'.2.2]⟩
  have hclean : uClean (renderBlocks (printedBlocks u)) := by
    apply uClean_renderBlocks
    intro b hb
    obtain ⟨sym, e, rfl, hs⟩ := hmem b hb
    exact ⟨(pblock_clean sym e hs).1, (pblock_clean sym e hs).2.1⟩
  have hnb : ∀ c ∈ renderBlocks (printedBlocks u), isBlank c = false := by
    intro c hc
    obtain ⟨b, hb, hcb⟩ := mem_renderBlocks hc
    obtain ⟨sym, e, rfl, hs⟩ := hmem b hb
    exact (pblock_clean sym e hs).2.2 c hcb
  rw [showUnitsChars_eq, parseUnitsChars, prepUnits_id _ hclean.1 hnb]
  cases hpb : printedBlocks u with
  | nil =>
    -- all exponents are zero: the empty text denotes the default system with zero exponents
    have hd : u.dim.space = 0 ∧ u.dim.time = 0 ∧ u.dim.qty = 0 := by
      simp only [printedBlocks, pblocks, List.append_eq_nil_iff] at hpb
      refine ⟨?_, ?_, ?_⟩
      · by_contra h; simp [h] at hpb
      · by_contra h; simp [h] at hpb
      · by_contra h; simp [h] at hpb
    refine ⟨⟨Sys.default, Dim.zero⟩, by simp [renderBlocks, parseUnitsCore], ?_, ?_, C06.default_system_valid⟩
    · cases u with | mk s d => cases d; simp_all [Dim.zero]
    · cases u with | mk s d => cases d; simp_all [Units.eqv, Dim.zero]
  | cons b bs =>
    have hall : ∀ x ∈ b :: bs, x.wf := by
      intro x hx
      obtain ⟨sym, e, rfl, hs⟩ := hmem x (by rw [hpb]; exact hx)
      exact pblock_wf sym e hs
    obtain ⟨sym, e, hbeq, hs⟩ := hmem b (by rw [hpb]; simp)
    have hne : renderBlocks (b :: bs) ≠ [] := by
      have := syms_nonempty sym hs
      subst hbeq
      simp only [renderBlocks, pblock, Block.body]
      intro h
      simp only [List.append_eq_nil_iff] at h
      exact this h.1.1
    rw [parseUnitsCore_render b bs (hall b (by simp)) (fun x hx => hall x (by simp [hx]))
      (by subst hbeq; rfl) hne (by rw [← hpb]; exact hnb)]
    have hchk : (b :: bs).any (fun b => !b.exp.isEmpty && badExpText b.exp) = false := by
      rw [List.any_eq_false]
      intro x hx
      obtain ⟨sym', e', rfl, _⟩ := hmem x (by rw [hpb]; exact hx)
      have h := pyInt_expText_ok e'
      show ¬(!(expText e').isEmpty && badExpText (expText e')) = true
      rw [h]; simp
    have hadd := addBlocks_printed u hv
    rw [hpb] at hadd
    simp only [finishBlocks, hchk, Bool.false_eq_true, if_false, hadd]
    have hsv : (⟨(optSym u.dim.space u.sys.space).getD defaultSpace, (optSym u.dim.time u.sys.time).getD defaultTime,
        (optSym u.dim.qty u.sys.qty).getD defaultQty⟩ : Sys).valid = true := by
      have hdv := (Sys.valid_iff _).1 C06.default_system_valid
      rw [Sys.valid_iff]
      simp only [optSym]
      refine ⟨?_, ?_, ?_⟩
      · split <;> simp [hv'.1]; exact hdv.1
      · split <;> simp [hv'.2.1]; exact hdv.2.1
      · split <;> simp [hv'.2.2]; exact hdv.2.2
    refine ⟨⟨⟨(optSym u.dim.space u.sys.space).getD defaultSpace, (optSym u.dim.time u.sys.time).getD defaultTime,
        (optSym u.dim.qty u.sys.qty).getD defaultQty⟩, u.dim⟩, by rw [if_pos hsv], rfl, ?_, hsv⟩
    simp only [Units.eqv, optSym, beq_self_eq_true, Bool.true_and, Bool.and_eq_true, Bool.or_eq_true, beq_iff_eq]
    refine ⟨⟨?_, ?_⟩, ?_⟩
    · by_cases h : u.dim.space = 0 <;> simp [h]
    · by_cases h : u.dim.time = 0 <;> simp [h]
    · by_cases h : u.dim.qty = 0 <;> simp [h]

/-! ## Round trip of quantity text

`pyFloat` = Python's `float(text)`, `pyRepr` = Python's `str(float)`: trusted primitives with the
contract `float(str(x)) = x`, `str(x)` non-empty and free of blanks (checked bitwise by the harness
on every generated double). -/

structure FloatContract (pyFloat : List Char → Option Rat) (pyRepr : Rat → List Char) : Prop where
  roundtrip : ∀ x, pyFloat (pyRepr x) = some x
  nonempty : ∀ x, pyRepr x ≠ []
  noBlank : ∀ x, ∀ c ∈ pyRepr x, isBlank c = false

/-- **print → parse round trip for quantities**: the value comes back identically (under the float
contract) and the units as in `show_parse_units`, for every value and every valid units. -/
theorem show_parse_value (pyFloat : List Char → Option Rat) (pyRepr : Rat → List Char)
    (hc : FloatContract pyFloat pyRepr) (x : UVal) (hv : x.u.sys.valid = true) :
    ∃ y, parseUnitValueChars pyFloat (showUValChars pyRepr x) = .ok y ∧ y.v = x.v ∧ y.u.dim = x.u.dim ∧
      Units.eqv y.u x.u = true := by
  obtain ⟨u', hp, hd, he, _⟩ := show_parse_units x.u hv
  have hsep : uvStrSep.toList = [' '] := by decide
  have hjoin : uvUnitTokJoin.toList = [' '] := by decide
  have hb : isBlank ' ' = true := by decide
  have htn := hc.nonempty x.v
  have htb := hc.noBlank x.v
  refine ⟨⟨x.v, u'⟩, ?_, rfl, hd, he⟩
  unfold parseUnitValueChars showUValChars
  rw [hsep]
  by_cases hu : showUnitsChars x.u = []
  · -- dimensionless: "value␣" is stripped to "value"
    rw [hu] at hp ⊢
    rw [List.append_nil, stripBlank, stripBy_tok_blank isBlank _ htn htb ' ' hb, splitBlank_tok _ htn htb]
    simp only [hc.roundtrip, joinSep, hp]
  · have hub := showUnitsChars_noBlank x.u hv
    obtain ⟨a, as, hta⟩ := List.exists_cons_of_ne_nil htn
    obtain ⟨z, zs, hzs⟩ : ∃ z zs, showUnitsChars x.u = zs ++ [z] := by
      rcases List.eq_nil_or_concat (showUnitsChars x.u) with h | ⟨zs, z, h⟩
      · exact absurd h hu
      · exact ⟨z, zs, by simpa using h⟩
    have hstrip : stripBlank (pyRepr x.v ++ [' '] ++ showUnitsChars x.u) = pyRepr x.v ++ [' '] ++ showUnitsChars x.u := by
      rw [hta, hzs]
      have := stripBy_ends isBlank a (as ++ [' '] ++ zs) z (htb a (by rw [hta]; simp)) (hub z (by rw [hzs]; simp))
      simpa [stripBlank, List.append_assoc] using this
    rw [hstrip, List.append_assoc, List.singleton_append, splitBlank_two _ _ htn htb hu hub ' ' hb]
    simp only [hc.roundtrip, joinSep, hp]

/-! ## Grammar semantics

Spec (independent of the code's tables): the dimension vector of one unit of every documented symbol,
by column of the documentation's table. -/

def specDim (s : String) : Option Dim :=
  if s ∈ ["km", "m", "dm", "cm", "mm", "dmm", "cmm", "µm", "nm", "pm", "fm"] then some ⟨1, 0, 0⟩
  else if s ∈ ["h", "min", "s", "ds", "cs", "ms", "µs", "ns", "ps", "fs"] then some ⟨0, 1, 0⟩
  else if s ∈ ["kmol", "mol", "dmol", "cmol", "mmol", "µmol", "nmol", "pmol", "fmol", "molecule"] then some ⟨0, 0, 1⟩
  else if s ∈ ["kL", "L", "mL", "µL", "nL", "pL", "fL"] then some ⟨3, 0, 0⟩          -- litres: length³
  else if s ∈ ["kM", "M", "dM", "cM", "mM", "µM", "nM", "pM", "fM"] then some ⟨-3, 0, 1⟩  -- molar: amount / length³
  else none

/-- every supported symbol enters with the dimension the documentation gives it -/
theorem symbol_dimension : ∀ s ∈ allSyms, symDimOf s = specDim s ∧ (specDim s).isSome = true := by decide +kernel

/-- the base units a symbol names have the symbol's SI meaning (litre and molar families through
`C06.litre_family` / `C06.molar_family`; base symbols name themselves) -/
def volNamesOk (s : String) : Bool :=
  match volBase.lookup s with
  | some b => blockNames ⟨'.', s.toList, []⟩ == [("space", b)]
  | none => false
def molarNamesOk (s : String) : Bool :=
  match concBase.lookup s with
  | some (q, sp) => blockNames ⟨'.', s.toList, []⟩ == [("space", sp), ("quantity", q)]
  | none => false

theorem symbol_base_units :
    (∀ s ∈ spaceSyms, blockNames ⟨'.', s.toList, []⟩ = [("space", s)]) ∧
    (∀ s ∈ timeSyms, blockNames ⟨'.', s.toList, []⟩ = [("time", s)]) ∧
    (∀ s ∈ qtySyms, blockNames ⟨'.', s.toList, []⟩ = [("quantity", s)]) ∧
    (∀ s ∈ volumeSyms, volNamesOk s = true) ∧ (∀ s ∈ densitySyms, molarNamesOk s = true) := by
  decide +kernel

/-- the dimension a factor list denotes: Σ signed exponent × symbol dimension -/
def denoteDim (fs : List Factor) : Dim :=
  fs.foldr (fun f d => (Dim.smul f.signedExp ((specDim f.sym).getD Dim.zero)).add d) Dim.zero

theorem factorsDim_eq_denote (fs : List Factor) (hs : ∀ g ∈ fs, g.sym ∈ allSyms) :
    factorsDim (fs.map fun g => (g.sym, g.signedExp)) = denoteDim fs := by
  induction fs with
  | nil => rfl
  | cons f fs ih =>
    simp only [List.map_cons, factorsDim, denoteDim, List.foldr_cons]
    rw [(symbol_dimension f.sym (hs f (by simp))).1]
    have := ih (fun g hg => hs g (by simp [hg]))
    simp only [denoteDim] at this
    rw [this]

/-- **grammar semantics (dimension)**: a unit expression of the documented grammar — supported symbols
(base, litre and molar families), `.` and `/` separators, optional integer exponents — when accepted is
read with the dimension its symbols define.  The full statement also demands the SI scale
`Π scale(symbol)^exponent`; see `grammar_semantics_partial` below for what is proved about it. -/
theorem grammar_dimension (f : Factor) (fs : List Factor) (hdiv : f.div = false)
    (hs : ∀ g ∈ f :: fs, g.sym ∈ allSyms) (u : Units)
    (h : parseUnitsChars (renderFactors (f :: fs)) = .ok u) : u.dim = denoteDim (f :: fs) := by
  rw [parse_renderFactors f fs hdiv hs] at h
  rw [finishFactors_dim h, factorsDim_eq_denote _ hs]

/-- **a/b ↔ a.b-1, and everything else about the spelling**: the result of reading a factor list depends
only on the list of (symbol, signed exponent); `x/sym^e` and `x.sym^-e` have the same signed exponent. -/
theorem grammar_reading (f : Factor) (fs : List Factor) (hdiv : f.div = false)
    (hs : ∀ g ∈ f :: fs, g.sym ∈ allSyms) :
    parseUnitsChars (renderFactors (f :: fs)) = finishFactors ((f :: fs).map fun g => (g.sym, g.signedExp)) :=
  parse_renderFactors f fs hdiv hs

theorem slash_is_negative_exponent (sym : String) (e : Int) :
    (⟨true, sym, some e⟩ : Factor).signedExp = (⟨false, sym, some (-e)⟩ : Factor).signedExp ∧
    (⟨true, sym, none⟩ : Factor).signedExp = (⟨false, sym, some (-1)⟩ : Factor).signedExp := by
  simp [Factor.signedExp]

theorem slash_vs_negative_exponent (f : Factor) (l1 l2 : List Factor) (sym : String) (e : Int) (hdiv : f.div = false)
    (hs : ∀ g ∈ f :: (l1 ++ ⟨true, sym, some e⟩ :: l2), g.sym ∈ allSyms) :
    parseUnitsChars (renderFactors (f :: (l1 ++ ⟨true, sym, some e⟩ :: l2))) =
      parseUnitsChars (renderFactors (f :: (l1 ++ ⟨false, sym, some (-e)⟩ :: l2))) := by
  rw [parse_renderFactors _ _ hdiv hs, parse_renderFactors _ _ hdiv (by
    intro g hg
    simp only [List.mem_cons, List.mem_append] at hg hs
    rcases hg with hg | hg | hg | hg
    · exact hs g (Or.inl hg)
    · exact hs g (Or.inr (Or.inl hg))
    · subst hg; exact hs ⟨true, sym, some e⟩ (Or.inr (Or.inr (Or.inl rfl)))
    · exact hs g (Or.inr (Or.inr (Or.inr hg))))]
  simp [Factor.signedExp]

/-- **order of the factors**: the dimension read is invariant under any permutation of the factors.
(That acceptance itself and the base units chosen are order-independent — every named field ends with the
unit every factor names, `addBlocks_ok_get` — is proved for the accepted case; the equivalence of
acceptance under permutation is covered by the exhaustive correspondence, see `grammar_semantics_partial`.) -/
theorem permutation_dimension (f f' : Factor) (fs fs' : List Factor) (hd : f.div = false) (hd' : f'.div = false)
    (hs : ∀ g ∈ f :: fs, g.sym ∈ allSyms) (hp : (f :: fs).Perm (f' :: fs')) (u u' : Units)
    (h : parseUnitsChars (renderFactors (f :: fs)) = .ok u)
    (h' : parseUnitsChars (renderFactors (f' :: fs')) = .ok u') : u.dim = u'.dim := by
  have hs' : ∀ g ∈ f' :: fs', g.sym ∈ allSyms := fun g hg => hs g (hp.mem_iff.2 hg)
  rw [parse_renderFactors f fs hd hs] at h
  rw [parse_renderFactors f' fs' hd' hs'] at h'
  rw [finishFactors_dim h, finishFactors_dim h']
  exact factorsDim_perm (hp.map _)

/-! ### Full grammar semantics: acceptance, dimension, SI scale, order -/

/-- Spec: SI value of one unit of every documented symbol — metres, seconds, molecules, cubic metres,
molecules per cubic metre — from the SI prefix meanings of `C06` (not from the code's tables) -/
def specSI (s : String) : Option Rat :=
  if s ∈ ["km", "m", "dm", "cm", "mm", "dmm", "cmm", "µm", "nm", "pm", "fm"] then C06.siSpace s.toList
  else if s ∈ ["h", "min", "s", "ds", "cs", "ms", "µs", "ns", "ps", "fs"] then C06.siTime s.toList
  else if s ∈ ["kmol", "mol", "dmol", "cmol", "mmol", "µmol", "nmol", "pmol", "fmol", "molecule"] then C06.siQty s.toList
  else if s ∈ ["kL", "L", "mL", "µL", "nL", "pL", "fL"] then C06.siVolume s.toList
  else if s ∈ ["kM", "M", "dM", "cM", "mM", "µM", "nM", "pM", "fM"] then
    (C06.siMolarQty s.toList).map (· * 1000)       -- prefix·mol per litre = ·1000 per m³
  else none

/-- the SI value the `addunit` calls give every supported symbol (through the scale tables, the litre
and the molar decomposition) is its SI meaning -/
theorem symbol_si : ∀ s ∈ allSyms, specSI s = some (symSI s) := by decide +kernel

/-- the SI scale a factor list denotes: Π (SI value of the symbol)^(signed exponent) -/
def denoteSI (fs : List Factor) : Rat :=
  fs.foldr (fun f r => ((specSI f.sym).getD 1) ^ f.signedExp * r) 1

/-- no two factors name different base units of one base kind (litres name their cube-root length,
molars name `…mol` and `dm`) -/
def consistentF (fs : List Factor) : Prop :=
  ∀ g1 ∈ fs, ∀ g2 ∈ fs, ∀ c1 ∈ symC g1.sym, ∀ c2 ∈ symC g2.sym, c1.1 = c2.1 → c1.2.1 = c2.2.1

theorem consistentF_iff (fs : List Factor) :
    consistentF fs ↔ consistentC (flatC (fs.map fun g => (g.sym, g.signedExp))) := by
  constructor
  · intro h c1 h1 c2 h2 hf
    obtain ⟨p1, hp1, d1, hd1, rfl⟩ := mem_flatC h1
    obtain ⟨p2, hp2, d2, hd2, rfl⟩ := mem_flatC h2
    simp only [List.mem_map] at hp1 hp2
    obtain ⟨g1, hg1, rfl⟩ := hp1
    obtain ⟨g2, hg2, rfl⟩ := hp2
    exact h g1 hg1 g2 hg2 d1 hd1 d2 hd2 hf
  · intro h g1 hg1 g2 hg2 c1 hc1 c2 hc2 hf
    have m1 : (c1.1, c1.2.1, g1.signedExp * c1.2.2) ∈ flatC (fs.map fun g => (g.sym, g.signedExp)) := by
      simp only [flatC, List.mem_flatMap, List.mem_map]
      exact ⟨(g1.sym, g1.signedExp), ⟨g1, hg1, rfl⟩, c1, hc1, rfl⟩
    have m2 : (c2.1, c2.2.1, g2.signedExp * c2.2.2) ∈ flatC (fs.map fun g => (g.sym, g.signedExp)) := by
      simp only [flatC, List.mem_flatMap, List.mem_map]
      exact ⟨(g2.sym, g2.signedExp), ⟨g2, hg2, rfl⟩, c2, hc2, rfl⟩
    exact h (c1.1, c1.2.1, g1.signedExp * c1.2.2) m1 (c2.1, c2.2.1, g2.signedExp * c2.2.2) m2 hf

theorem factorsSI_eq_denote (fs : List Factor) (hs : ∀ g ∈ fs, g.sym ∈ allSyms) :
    factorsSI (fs.map fun g => (g.sym, g.signedExp)) = denoteSI fs := by
  induction fs with
  | nil => rfl
  | cons f fs ih =>
    simp only [List.map_cons, factorsSI, denoteSI, List.foldr_cons]
    rw [symbol_si f.sym (hs f (by simp))]
    have := ih (fun g hg => hs g (by simp [hg]))
    simp only [denoteSI] at this
    rw [this]
    rfl

/-- **grammar semantics** (full statement).  For every factor list of the documented grammar —
supported symbols incl. the litre and molar families, `.` and `/` separators, optional integer exponents:
* it is accepted **iff** no two factors name different base units of one kind; otherwise it raises;
* when accepted it is read with dimension Σ exponent × symbol dimension **and** SI scale
  Π (SI value of the symbol)^(signed exponent), in a valid unit system. -/
theorem grammar_semantics (f : Factor) (fs : List Factor) (hdiv : f.div = false)
    (hs : ∀ g ∈ f :: fs, g.sym ∈ allSyms) :
    ((∃ u, parseUnitsChars (renderFactors (f :: fs)) = .ok u) ↔ consistentF (f :: fs)) ∧
    (¬ consistentF (f :: fs) → parseUnitsChars (renderFactors (f :: fs)) = .error .badUnit) ∧
    (∀ u, parseUnitsChars (renderFactors (f :: fs)) = .ok u →
      u.dim = denoteDim (f :: fs) ∧ siFactor u.sys u.dim = denoteSI (f :: fs) ∧ u.sys.valid = true) := by
  have hs' : ∀ p ∈ (f :: fs).map (fun g => (g.sym, g.signedExp)), p.1 ∈ allSyms := by
    intro p hp
    simp only [List.mem_map] at hp
    obtain ⟨g, hg, rfl⟩ := hp
    exact hs g hg
  rw [parse_renderFactors f fs hdiv hs, consistentF_iff]
  refine ⟨finishFactors_ok_iff _ hs', finishFactors_error _ hs', ?_⟩
  intro u h
  refine ⟨?_, ?_, (finishFactors_ok_spec _ hs' u h).2.1⟩
  · rw [finishFactors_dim h, factorsDim_eq_denote _ hs]
  · rw [finishFactors_si _ hs' u h, factorsSI_eq_denote _ hs]

/-- **order of the factors** (whole result): any permutation of the factors (written with the first
factor un-slashed) is read identically — same acceptance, same unit system, same exponents. -/
theorem grammar_permutation (f f' : Factor) (fs fs' : List Factor) (hd : f.div = false) (hd' : f'.div = false)
    (hs : ∀ g ∈ f :: fs, g.sym ∈ allSyms) (hp : (f :: fs).Perm (f' :: fs')) :
    parseUnitsChars (renderFactors (f :: fs)) = parseUnitsChars (renderFactors (f' :: fs')) := by
  have hs2 : ∀ g ∈ f' :: fs', g.sym ∈ allSyms := fun g hg => hs g (hp.mem_iff.2 hg)
  rw [parse_renderFactors f fs hd hs, parse_renderFactors f' fs' hd' hs2]
  apply finishFactors_perm
  · intro p hp'
    simp only [List.mem_map] at hp'
    obtain ⟨g, hg, rfl⟩ := hp'
    exact hs g hg
  · exact hp.map _

/-- non-vacuity: an accepted 3-factor text and its SI scale; a rejected one -/
example : consistentF [⟨false, "mM", none⟩, ⟨true, "min", some 2⟩, ⟨false, "L", some (-1)⟩] ∧
    ¬ consistentF [⟨false, "mM", none⟩, ⟨true, "mL", none⟩] := by
  constructor
  · rw [consistentF_iff]; decide +kernel
  · rw [consistentF_iff]; decide +kernel

example : parseUnitsChars (renderFactors [⟨false, "µM", none⟩, ⟨true, "s", none⟩]) =
    .ok ⟨⟨"dm", "s", "µmol"⟩, ⟨-3, -1, 1⟩⟩ ∧ renderFactors [⟨false, "µM", none⟩, ⟨true, "s", none⟩] = "µM/s".toList := by
  decide +kernel

/-! ## The `u` spelling -/

/-- `um us umol uL uM` are read as `µm µs µmol µL µM`, alone and with an exponent -/
theorem u_spelling :
    ∀ p ∈ [("um", "µm"), ("us", "µs"), ("umol", "µmol"), ("uL", "µL"), ("uM", "µM")],
      ∀ suffix ∈ ["", "2", "-1", "-3"],
        parseUnitsChars (p.1 ++ suffix).toList = parseUnitsChars (p.2 ++ suffix).toList ∧
        (parseUnitsChars (p.1 ++ suffix).toList).isError = false := by
  decide +kernel

example : parseUnitsChars "umol/uL.us".toList = .ok ⟨⟨"mm", "µs", "µmol"⟩, ⟨-3, 1, 1⟩⟩ ∧
    parseUnitsChars "um2/us".toList = parseUnitsChars "µm2.µs-1".toList := by decide +kernel

/-! ## Rejection (text outside the grammar raises)

`s` below is the text after the preprocessing of `parse_units` (`prepUnits`: the `u`→`µ` replace chain,
which only rewrites the letter `u`, and `strip()`); `reject_embedded_blank` and
`reject_blank_inside_quantity_units` are stated on the raw text. -/

def startBlock : Block := ⟨puFirstBlockSep, [], []⟩

/-- blanks inside the (stripped) unit text -/
theorem reject_embedded_blank_core (s : List Char) (hne : s ≠ []) (hb : s.any isBlank = true) :
    parseUnitsCore s = .error .badSyntax := by
  have h1 : s.isEmpty = false := by simpa using hne
  have hg : puRejectsInnerBlank = true := rfl
  simp [parseUnitsCore, h1, hb, hg]

/-- **embedded blank, on the raw text**: if a blank (any `str.isspace` character) remains after Python's
`strip()` — i.e. the blank stands between non-blank characters — `parse_units` raises.
(The replace chain only rewrites the letter `u`, so it neither removes nor creates blanks.) -/
theorem reject_embedded_blank (s0 : List Char) (h : (stripBlank s0).any isBlank = true) :
    parseUnitsChars s0 = .error .badSyntax := parseUnitsChars_inner_blank s0 h

example : (parseUnitsChars "m2 .s".toList).isError = true ∧ (parseUnitsChars "mol/µm. s".toList).isError = true ∧
    (parseUnitsChars " m2.s ".toList).isError = false := by decide +kernel

/-- unknown symbol: a factor whose symbol is none of the 47 supported symbols -/
theorem reject_unknown_symbol (s : List Char) (hne : s ≠ [])
    (h : ∃ b ∈ scanBlocks s [] startBlock false, String.ofList b.sym ∉ allSyms) :
    (parseUnitsCore s).isError = true := by
  rcases parseUnitsCore_cases s hne with he | ⟨_, he⟩
  · rw [he]; rfl
  · obtain ⟨b, hb, hs⟩ := h
    rw [he]
    exact finishBlocks_error_of_mem b (addBlock_error_of_unknown b (unitType_none_of_not_mem _ hs)) _ hb

theorem emptySym_rejected (s : List Char) (hne : s ≠ [])
    (h : ∃ b ∈ scanBlocks s [] startBlock false, b.sym = []) : (parseUnitsCore s).isError = true := by
  obtain ⟨b, hb, hs⟩ := h
  refine reject_unknown_symbol s hne ⟨b, hb, ?_⟩
  rw [hs]
  decide +kernel

/-- doubled separator: two adjacent separators anywhere -/
theorem reject_doubled_separator (a r : List Char) (c1 c2 : Char) (h1 : c1 ∈ sepChars) (h2 : c2 ∈ sepChars) :
    (parseUnitsCore (a ++ c1 :: c2 :: r)).isError = true :=
  emptySym_rejected _ (by simp) (scan_emptySym_adjacent a c1 c2 r (by simpa using h1) (by simpa using h2) _ _ _)

/-- dangling separator: at the start or at the end -/
theorem reject_dangling_separator (a : List Char) (c : Char) (hc : c ∈ sepChars) :
    (parseUnitsCore (c :: a)).isError = true ∧ (parseUnitsCore (a ++ [c])).isError = true :=
  ⟨emptySym_rejected _ (by simp) (scan_emptySym_leading_sep c a (by simpa using hc) _),
   emptySym_rejected _ (by simp) (scan_emptySym_trailing a c (by simpa using hc) _ _ _)⟩

/-- misplaced exponent / fractional exponent: an exponent character (digit or `-`) at the start of a
factor — `"2m"`, `"-1m"`, and the `5` of `"m1.5"`, whose `.` is a separator -/
theorem reject_exponent_first (a r : List Char) (c d : Char) (hc : c ∈ sepChars) (hd : d ∈ expChars) :
    (parseUnitsCore (d :: r)).isError = true ∧ (parseUnitsCore (a ++ c :: d :: r)).isError = true := by
  have hds : sepChars.contains d = false := (expChars_props d hd).2.1
  exact ⟨emptySym_rejected _ (by simp) (scan_emptySym_exp_first d r (by simpa using hd) hds _ _),
    emptySym_rejected _ (by simp) (scan_emptySym_sep_exp a c d r (by simpa using hc) (by simpa using hd) hds _ _ _)⟩

theorem reject_fractional_exponent (a r : List Char) (d : Char) (hd : d ∈ expChars) :
    (parseUnitsCore (a ++ '.' :: d :: r)).isError = true :=
  (reject_exponent_first a r '.' d (by decide) hd).2

/-- **exotic exponent text** (block level): an exponent text that is not `-?[0-9]+` — non-ASCII digits,
`_`, an inner or trailing `-`, a lone `-`, letters … — is rejected by the first loop -/
theorem reject_exotic_exponent (s : List Char) (hne : s ≠ []) (b : Block)
    (hb : b ∈ scanBlocks s [] startBlock false) (hbe : b.exp ≠ []) (hstrict : strictExp b.exp = false) :
    (parseUnitsCore s).isError = true := by
  rcases parseUnitsCore_cases s hne with he | ⟨_, he⟩
  · rw [he]; rfl
  · rw [he]
    show (finishBlocks (scanBlocks s [] startBlock false)).isError = true
    rw [finishBlocks_error_of_badExpText _ b hb hbe (badExpText_of_not_strict _ hstrict)]
    rfl

/-- the strict reader accepts exactly `-?[0-9]+`; the printed form of every integer passes it and is read
back (`int_text_roundtrip`) -/
theorem exponent_text_strict (n : Int) : strictExp (showIntChars n) = true ∧ badExpText (showIntChars n) = false :=
  ⟨strictExp_showInt n, badExpText_showInt n⟩

/-- misplaced exponent / exotic exponent: anything but an ASCII digit after an exponent character inside
a factor — `"m2s"`, `"m2-"`, `"m2-3"`, `"m--2"`, `"m1,5"`, `"m2^3"`, `"m1e2"`, `"m2_0"`, `"L-٢"`, `"m2²"` -/
theorem reject_text_after_exponent (a r : List Char) (d y : Char) (hd : d ∈ expChars)
    (hy : y ∉ sepChars) (hy1 : y.isDigit = false) :
    (parseUnitsCore (a ++ d :: y :: r)).isError = true := by
  obtain ⟨b, hb, h, t, hbe, hyt⟩ := scan_after_exp a d y r (by simpa using hd) (expChars_props d hd).2.1
    (by simpa using hy) [] startBlock false
  exact reject_exotic_exponent _ (by simp) b hb (by rw [hbe]; simp)
    (by rw [hbe]; exact strictExp_false_of_tail h t y hyt hy1)

/-- a sign without digits after it at the end of a factor: `"m-"`, `"m-.s"`, and the same before a slash -/
theorem reject_dangling_sign (a rest : List Char)
    (hrest : rest = [] ∨ ∃ c r, rest = c :: r ∧ c ∈ sepChars) :
    (parseUnitsCore (a ++ '-' :: rest)).isError = true := by
  obtain ⟨b, hb, e', hbe⟩ := scan_trailing_sign a rest
    (by rcases hrest with h | ⟨c, r, h, hc⟩
        · exact Or.inl h
        · exact Or.inr ⟨c, r, h, by simpa using hc⟩) [] startBlock false
  exact reject_exotic_exponent _ (by simp) b hb (by rw [hbe]; simp)
    (by rw [hbe]; exact strictExp_false_of_trailing_sign e')

example : (parseUnitsChars "L-٢".toList).isError = true ∧ (parseUnitsChars "m2_0".toList).isError = true ∧
    (parseUnitsChars "m--2".toList).isError = true ∧ (parseUnitsChars "m2-".toList).isError = true ∧
    (parseUnitsChars "m-".toList).isError = true ∧ (parseUnitsChars "m２".toList).isError = true ∧
    (parseUnitsChars "m02.s-0".toList).isError = false := by decide +kernel

/-- two different units of one base kind: two factors (any positions, any order, base or derived
symbols — litres name their cube-root length, molars name `…mol` and `dm`) that name different base
units for the same kind -/
theorem reject_two_units (s : List Char) (hne : s ≠ []) (b1 b2 : Block)
    (h1 : b1 ∈ scanBlocks s [] startBlock false) (h2 : b2 ∈ scanBlocks s [] startBlock false)
    (f u1 u2 : String) (n1 : (f, u1) ∈ blockNames b1) (n2 : (f, u2) ∈ blockNames b2) (hu : u1 ≠ u2) :
    (parseUnitsCore s).isError = true := by
  rcases parseUnitsCore_cases s hne with he | ⟨_, he⟩
  · rw [he]; rfl
  · rw [he]
    exact finishBlocks_error_of_conflict _ b1 b2 h1 h2 f u1 u2 n1 n2 hu

example : (parseUnitsChars "m.cm".toList).isError = true ∧ (parseUnitsChars "s2/min".toList).isError = true ∧
    (parseUnitsChars "L.m".toList).isError = true ∧ (parseUnitsChars "mM/mol".toList).isError = true ∧
    (parseUnitsChars "M.mol/L".toList).isError = false := by decide +kernel

/-- no supported symbol contains `+` (nor any of the other characters listed) -/
theorem symbols_alphabet : ∀ s ∈ allSyms, ∀ c ∈ s.toList,
    c ≠ '+' ∧ c ≠ '^' ∧ c ≠ '*' ∧ c ≠ ',' ∧ c ≠ '(' ∧ c ≠ ')' ∧ c ≠ ' ' ∧ c.isDigit = false := by
  decide +kernel

/-- signed positive exponent (`"m+2"`), and more generally any character that occurs in no symbol and
is neither a separator, a digit, `-` nor `_`: wherever it stands, the text is rejected -/
theorem reject_foreign_char (s : List Char) (x : Char) (hx : x ∈ s) (hsep : x ∉ sepChars) (hexp : x ∉ expChars)
    (hd : x.isDigit = false) (hu : x ≠ '_') (hsym : ∀ w ∈ allSyms, x ∉ w.toList) :
    (parseUnitsCore s).isError = true := by
  have hne : s ≠ [] := by intro h; rw [h] at hx; simp at hx
  rcases parseUnitsCore_cases s hne with he | ⟨hnb, he⟩
  · rw [he]; rfl
  · obtain ⟨b, hb, hl⟩ := scan_char_lands s [] startBlock false x hx (by simpa using hsep) (by simpa using hexp)
      ⟨fun _ => rfl, fun h => by simp at h⟩
    rcases hl with hl | ⟨h, t, hbe, hxt⟩
    · refine reject_unknown_symbol s hne ⟨b, hb, fun hmem => ?_⟩
      exact hsym _ hmem (by simpa using hl)
    · have hbl : ∀ c ∈ h :: t, isBlank c = false := by
        intro c hc
        have := scan_chars_from_text (fun c => isBlank c = false) _ [] startBlock false (by simp) (by simp [startBlock]) hnb b hb c
        exact this (by rw [hbe]; simp only [List.mem_append]; exact Or.inr hc)
      rw [he]
      show (finishBlocks (scanBlocks s [] startBlock false)).isError = true
      rw [finishBlocks_error_of_badExp _ b hb (by rw [hbe]; simp) (by rw [hbe]; exact pyInt_none_of_bad_tail h t hbl x hxt hd hu)]
      rfl

theorem reject_signed_positive (s : List Char) (hx : '+' ∈ s) : (parseUnitsCore s).isError = true :=
  reject_foreign_char s '+' hx (by decide) (by decide) (by decide) (by decide)
    (fun w hw hc => (symbols_alphabet w hw '+' hc).1 rfl)

/-! ### The same rejection classes on the RAW text

`stripBlank s0` is the raw text after Python's `strip()`.  The replace chain only turns some `u` into `µ`
(`prepUnits_uq`), so every shape below carries over to the preprocessed text. -/

theorem sep_exp_not_u : ∀ c ∈ sepChars ++ expChars, c ≠ 'u' ∧ c ≠ 'µ' := by decide

theorem uq_split2 {s t a r : List Char} {x y : Char} (h : s.map uq = t.map uq) (ht : t = a ++ x :: y :: r) :
    ∃ a' x' y' r', s = a' ++ x' :: y' :: r' ∧ uq x' = uq x ∧ uq y' = uq y := by
  obtain ⟨a', x', r1, hs, _, hx, hr⟩ := uq_split h ht
  rw [List.map_cons] at hr
  obtain ⟨y', r', hl, hy, _⟩ := List.map_eq_cons_iff.1 hr
  exact ⟨a', x', y', r', by rw [hs, hl], hx, hy⟩

theorem raw_reject_doubled_separator (s0 a r : List Char) (c1 c2 : Char) (h : stripBlank s0 = a ++ c1 :: c2 :: r)
    (h1 : c1 ∈ sepChars) (h2 : c2 ∈ sepChars) : (parseUnitsChars s0).isError = true := by
  obtain ⟨a', x', y', r', hs, hx, hy⟩ := uq_split2 (prepUnits_uq s0) h
  have e1 := uq_eq hx (sep_exp_not_u c1 (by simp [h1]))
  have e2 := uq_eq hy (sep_exp_not_u c2 (by simp [h2]))
  subst e1 e2
  rw [parseUnitsChars, hs]
  exact reject_doubled_separator a' r' x' y' h1 h2

theorem raw_reject_dangling_separator (s0 a : List Char) (c : Char) (hc : c ∈ sepChars)
    (h : stripBlank s0 = c :: a ∨ stripBlank s0 = a ++ [c]) : (parseUnitsChars s0).isError = true := by
  rcases h with h | h
  · obtain ⟨a', x', r', hs, ha, hx, _⟩ := uq_split (a := []) (prepUnits_uq s0) (by simpa using h)
    have e1 := uq_eq hx (sep_exp_not_u c (by simp [hc]))
    subst e1
    have : a' = [] := by simpa using ha
    subst this
    rw [parseUnitsChars, hs]
    exact (reject_dangling_separator r' x' hc).1
  · obtain ⟨a', x', r', hs, _, hx, hr⟩ := uq_split (prepUnits_uq s0) h
    have e1 := uq_eq hx (sep_exp_not_u c (by simp [hc]))
    subst e1
    have : r' = [] := by simpa using hr
    subst this
    rw [parseUnitsChars, hs]
    exact (reject_dangling_separator a' x' hc).2

theorem raw_reject_exponent_first (s0 a r : List Char) (c d : Char) (hc : c ∈ sepChars) (hd : d ∈ expChars)
    (h : stripBlank s0 = d :: r ∨ stripBlank s0 = a ++ c :: d :: r) : (parseUnitsChars s0).isError = true := by
  rcases h with h | h
  · obtain ⟨a', x', r', hs, ha, hx, _⟩ := uq_split (a := []) (prepUnits_uq s0) (by simpa using h)
    have e1 := uq_eq hx (sep_exp_not_u d (by simp [hd]))
    subst e1
    have : a' = [] := by simpa using ha
    subst this
    rw [parseUnitsChars, hs]
    exact (reject_exponent_first [] r' c x' hc hd).1
  · obtain ⟨a', x', y', r', hs, hx, hy⟩ := uq_split2 (prepUnits_uq s0) h
    have e1 := uq_eq hx (sep_exp_not_u c (by simp [hc]))
    have e2 := uq_eq hy (sep_exp_not_u d (by simp [hd]))
    subst e1 e2
    rw [parseUnitsChars, hs]
    exact (reject_exponent_first a' r' x' y' hc hd).2

theorem raw_reject_fractional_exponent (s0 a r : List Char) (d : Char) (hd : d ∈ expChars)
    (h : stripBlank s0 = a ++ '.' :: d :: r) : (parseUnitsChars s0).isError = true :=
  raw_reject_exponent_first s0 a r '.' d (by decide) hd (Or.inr h)

theorem raw_reject_text_after_exponent (s0 a r : List Char) (d y : Char) (hd : d ∈ expChars)
    (hy : y ∉ sepChars) (hy1 : y.isDigit = false) (h : stripBlank s0 = a ++ d :: y :: r) :
    (parseUnitsChars s0).isError = true := by
  obtain ⟨a', x', y', r', hs, hx, hyy⟩ := uq_split2 (prepUnits_uq s0) h
  have e1 := uq_eq hx (sep_exp_not_u d (by simp [hd]))
  subst e1
  rw [parseUnitsChars, hs]
  rcases uq_cases hyy with e | ⟨hy', _⟩
  · subst e; exact reject_text_after_exponent a' r' x' y' hd hy hy1
  · rcases hy' with e | e <;> subst e <;>
      exact reject_text_after_exponent a' r' x' _ hd (by decide) (by decide)

theorem raw_reject_dangling_sign (s0 a rest : List Char) (h : stripBlank s0 = a ++ '-' :: rest)
    (hrest : rest = [] ∨ ∃ c r, rest = c :: r ∧ c ∈ sepChars) : (parseUnitsChars s0).isError = true := by
  obtain ⟨a', x', r', hs, _, hx, hr⟩ := uq_split (prepUnits_uq s0) h
  have e1 := uq_eq hx (sep_exp_not_u '-' (by decide))
  subst e1
  rw [parseUnitsChars, hs]
  apply reject_dangling_sign
  rcases hrest with h0 | ⟨c, r, h0, hc⟩
  · subst h0; left; simpa using hr
  · subst h0
    rw [List.map_cons] at hr
    obtain ⟨c', r'', hl, hc', _⟩ := List.map_eq_cons_iff.1 hr
    have := uq_eq hc' (sep_exp_not_u c (by simp [hc]))
    subst this
    exact Or.inr ⟨c', r'', hl, hc⟩

theorem raw_reject_foreign_char (s0 : List Char) (x : Char) (hx : x ∈ stripBlank s0) (hsep : x ∉ sepChars)
    (hexp : x ∉ expChars) (hd : x.isDigit = false) (hu : x ≠ '_') (hsym : ∀ w ∈ allSyms, x ∉ w.toList) :
    (parseUnitsChars s0).isError = true := by
  obtain ⟨a, r, ht⟩ := List.append_of_mem hx
  obtain ⟨a', x', r', hs, _, hxx, _⟩ := uq_split (prepUnits_uq s0) ht
  have hnu : x ≠ 'u' ∧ x ≠ 'µ' :=
    ⟨fun h => hsym "molecule" (by decide) (by rw [h]; decide), fun h => hsym "µm" (by decide) (by rw [h]; decide)⟩
  have e := uq_eq hxx hnu
  subst e
  rw [parseUnitsChars]
  exact reject_foreign_char _ x' (by rw [hs]; simp) hsep hexp hd hu hsym

theorem raw_reject_signed_positive (s0 : List Char) (hx : '+' ∈ stripBlank s0) :
    (parseUnitsChars s0).isError = true :=
  raw_reject_foreign_char s0 '+' hx (by decide) (by decide) (by decide) (by decide)
    (fun w hw hc => (symbols_alphabet w hw '+' hc).1 rfl)

example : (parseUnitsChars " mol//um.s ".toList).isError = true ∧ (parseUnitsChars "mol.um+1.s-2".toList).isError = true ∧
    (parseUnitsChars "mol.um-1.5.s-2".toList).isError = true := by decide +kernel

/-! ### quantity text -/

/-- non-numeric value, and value not separated from its unit (`"2m"`: the first blank-delimited token
is `2m`, which `float()` does not read): whenever `float()` rejects the first token, the text is rejected -/
theorem reject_nonnumeric_value (pyFloat : List Char → Option Rat) (s t : List Char) (rest : List (List Char))
    (hs : splitBlank (stripBlank s) = t :: rest) (hf : pyFloat t = none) :
    parseUnitValueChars pyFloat s = .error .badSyntax := by
  simp only [parseUnitValueChars, hs, hf]

/-- a value directly followed by unit text forms ONE token (so `float()` sees `value++unit`) -/
theorem value_not_separated_is_one_token (v u : List Char) (hv : ∀ c ∈ v ++ u, isBlank c = false) (hne : v ++ u ≠ []) :
    splitBlank (stripBlank (v ++ u)) = [v ++ u] := by
  rw [stripBlank_of_noBlank _ hv, splitBlank_tok _ hne hv]

/-- blanks inside the unit expression of a quantity reach `parse_units` (the tokens after the value
are joined with the blank `uvUnitTokJoin`, not concatenated) -/
theorem quantity_units_tokens_joined (pyFloat : List Char → Option Rat) (s t t1 t2 : List Char) (rest : List (List Char))
    (v : Rat) (hs : splitBlank (stripBlank s) = t :: t1 :: t2 :: rest) (hf : pyFloat t = some v) :
    parseUnitValueChars pyFloat s =
      (match parseUnitsChars (t1 ++ ' ' :: joinSep [' '] (t2 :: rest)) with
        | .error e => .error e
        | .ok u => .ok ⟨v, u⟩) := by
  have hj : uvUnitTokJoin.toList = [' '] := by decide
  simp only [parseUnitValueChars, hs, hf, hj, joinSep, List.append_assoc, List.singleton_append]
  rfl

/-- **blank inside the unit expression of a quantity** (`"1 m s"`, `"1 mol/µm. s"`): two or more tokens
after the value are joined by a blank and therefore rejected -/
theorem reject_blank_inside_quantity_units (pyFloat : List Char → Option Rat) (s t t1 t2 : List Char)
    (rest : List (List Char)) (hs : splitBlank (stripBlank s) = t :: t1 :: t2 :: rest)
    (h1 : t1 ≠ [] ∧ ∀ c ∈ t1, isBlank c = false) (h2 : t2 ≠ [] ∧ ∀ c ∈ t2, isBlank c = false) :
    (parseUnitValueChars pyFloat s).isError = true := by
  cases hf : pyFloat t with
  | none => rw [reject_nonnumeric_value pyFloat s t _ hs hf]; rfl
  | some v =>
    rw [quantity_units_tokens_joined pyFloat s t t1 t2 rest v hs hf]
    have hb : (stripBlank (t1 ++ ' ' :: joinSep [' '] (t2 :: rest))).any isBlank = true := by
      obtain ⟨a, as, ha⟩ := List.exists_cons_of_ne_nil h1.1
      obtain ⟨b, bs, hb⟩ := List.exists_cons_of_ne_nil h2.1
      have hja : ∃ w, joinSep [' '] (t2 :: rest) = b :: w := by
        cases rest with
        | nil => exact ⟨bs, by simp [joinSep, hb]⟩
        | cons r rs => exact ⟨bs ++ [' '] ++ joinSep [' '] (r :: rs), by simp [joinSep, hb]⟩
      obtain ⟨w, hw⟩ := hja
      have hanb : isBlank a = false := h1.2 a (by rw [ha]; simp)
      have hbnb : isBlank b = false := h2.2 b (by rw [hb]; simp)
      -- the text is a :: … ' ' :: b :: …; stripping from the left stops at `a`; the blank before `b`
      -- survives stripping from the right because `b` (or something right of it) is not blank
      rw [hw, ha]
      unfold stripBlank stripBy
      simp only [List.cons_append, List.dropWhile, hanb]
      rw [List.any_reverse]
      have hrev : (a :: (as ++ ' ' :: b :: w)).reverse = w.reverse ++ (b :: ' ' :: (a :: as).reverse) := by simp
      rw [hrev, List.dropWhile_append]
      split
      · exact List.any_eq_true.2 ⟨' ', by simp [List.dropWhile, hbnb], by decide⟩
      · exact List.any_eq_true.2 ⟨' ', by simp, by decide⟩
    rw [reject_embedded_blank _ hb]
    rfl

example : parseUnitsChars (showUnitsChars ⟨⟨"km", "h", "mol"⟩, ⟨-12, 1, 105⟩⟩) =
    .ok ⟨⟨"km", "h", "mol"⟩, ⟨-12, 1, 105⟩⟩ := by decide +kernel
example : showUnitsChars ⟨⟨"km", "h", "mol"⟩, ⟨-12, 1, 105⟩⟩ = "km-12.h.mol105".toList := by decide +kernel

end Strengths.C18
