/-
Idiom inventory of src/strengths/kinetics.py (generated: `Gen.PyIdioms.inv_kinetics`, regenerated from the source on every run).
-/
import Strengths.Model.PyIdioms

namespace Strengths.PyIdioms
open Strengths.Gen.PyIdioms

/-- `kinetics.py` keeps value semantics: no identity comparison except with `None`, no substring test on a literal, no
`assert`, no `and`/`or` selecting a value, no `*d.values()` (the model compares by value, handles absence through `Option`,
and reads dictionaries by key) -/
theorem kinetics_value_semantic : valueSemantic inv_kinetics = true := by decide +kernel

end Strengths.PyIdioms
