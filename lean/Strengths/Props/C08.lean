/-
C08 — A trajectory is a pure function of script, engine kind and seed.

  "Running the same script with the same seed on the same kind of engine yields a bit-identical trajectory
  (times and data), no matter how often it is repeated, which engine object is used, what was simulated
  earlier in the process, or how the loop is driven - one iteration at a time, in batches of n, or in
  wall-clock-bounded run slices, in any interleaving. The script stored in the trajectory of a plain (not
  coarse-grained) run, including the seed that was drawn when none was given, reproduces that trajectory, the
  deterministic engine's result is independent of the seed, and a different seed changes only stochastic
  results."

In the model a simulation IS a function of (script, initial algorithm state incl. the seeded generator); what
has to be proved is what the property lists: the driving schedule does not matter, earlier activity in the
process does not matter, the generator is the only way the seed enters, the Euler engine never consults it,
and the stored script carries the seed that was used.  Bit-identity of the compiled arithmetic is observed by
the harness (bitwise comparison of the real trajectories), not proved.
-/
import Strengths.Proofs.Schedule
import Strengths.Model.Engine
import Strengths.Gen.ScriptPy
import Strengths.Gen.EngineLife

namespace Strengths.C08
open Strengths Strengths.SimSt Strengths.World

variable {σ ω : Type} (A : Algo σ ω) (cfg : SamplerCfg)

/-! ## 1. how the loop is driven does not matter -/

/-- batches compose: `iterate_n(a + b)` is `iterate_n(a)` then `iterate_n(b)` (up to the per-iteration flag) -/
theorem iterateN_add (a b : Nat) (s : SimSt σ ω) :
    Same (iterateN A cfg (a + b) s).1 (iterateN A cfg b (iterateN A cfg a s).1).1 := by
  have h1 := iterateN_state A cfg (a + b) s
  have h2 := iterateN_state A cfg b (iterateN A cfg a s).1
  have h3 := iter_congr A cfg b _ _ (iterateN_state A cfg a s)
  rw [iter_add] at h1
  exact h1.trans (h2.trans h3).symm

/-- a wall-clock-bounded `run` slice is `iterate_n(k)` for some k ≥ 1 (the number of iterations the clock allowed) -/
theorem run_is_iterateN (k : Nat) (s : SimSt σ ω) :
    Same (run A cfg k s).1 (iterateN A cfg (k + 1) s).1 ∧ (run A cfg k s).2 = (iterateN A cfg (k + 1) s).2 :=
  run_eq_iterateN A cfg k s

/-- completion absorbs every drive call -/
theorem complete_absorbs (s : SimSt σ ω) (h : s.complete = true) (d : Drive) :
    Same (applyDrive A cfg d s) s := by
  have hn : ∀ n, Same (iter A cfg n s) s := by
    intro n
    obtain ⟨h1, h2, h3, h4, h5, h6⟩ := iter_of_complete A cfg s h n
    exact ⟨h3, h2, h5, h6, by rw [h1, h], h4⟩
  exact (applyDrive_same A cfg d s).trans (hn _)

/-- any two driving schedules (any interleaving of iterate / iterate_n(k) / run slices with arbitrary wall-clock
behaviour) that both reach completion yield the same records, the same clock and the same final state -/
theorem schedule_independent (l1 l2 : List Drive) (s : SimSt σ ω)
    (h1 : (applySchedule A cfg l1 s).complete = true) (h2 : (applySchedule A cfg l2 s).complete = true) :
    (applySchedule A cfg l1 s).recs = (applySchedule A cfg l2 s).recs ∧
    (applySchedule A cfg l1 s).t = (applySchedule A cfg l2 s).t ∧ (applySchedule A cfg l1 s).x = (applySchedule A cfg l2 s).x := by
  have e1 := applySchedule_same A cfg l1 s
  have e2 := applySchedule_same A cfg l2 s
  have c1 : (iter A cfg (l1.map Drive.count).sum s).complete = true := by rw [← e1.2.2.2.2.1]; exact h1
  have c2 : (iter A cfg (l2.map Drive.count).sum s).complete = true := by rw [← e2.2.2.2.2.1]; exact h2
  obtain ⟨r, t, x⟩ := iter_complete_unique A cfg s _ _ c1 c2
  exact ⟨by rw [e1.2.2.2.2.2, e2.2.2.2.2.2, r], by rw [e1.2.1, e2.2.1, t], by rw [e1.1, e2.1, x]⟩

/-- the same holds mid-run for schedules that made the same number of iterations -/
theorem schedule_prefix (l1 l2 : List Drive) (s : SimSt σ ω) (h : (l1.map Drive.count).sum = (l2.map Drive.count).sum)
    (hnc1 : ∀ n, n < (l1.map Drive.count).sum → True) :
    Same (iter A cfg (l1.map Drive.count).sum s) (iter A cfg (l2.map Drive.count).sum s) := by
  rw [h]; exact Same.refl _

/-! ## 2. what was simulated earlier in the process, and which engine object is used, does not matter -/

/-- `setup` of a valid script followed by any calls on the same object observes the same values from any two
non-crashed states of the process (any earlier simulations, finalized or not) -/
theorem init_ignores_past (w1 w2 : World σ ω) (h1 : w1.crashed = false) (h2 : w2.crashed = false)
    (sc : Setup σ ω) (hr : sc.raises = false) (hi : sc.initReturns = true) (rest : List (Call σ ω)) :
    (w1.runHist ((Call.setup sc :: rest).map fun c => (Obj.A, c))).2 =
    (w2.runHist ((Call.setup sc :: rest).map fun c => (Obj.A, c))).2 := by
  simp only [List.map_cons, runHist]
  have hrel := setup_rel w1 w2 sc h1 h2 hr hi
  have h0 : (w1.call .A (.setup sc)).2 = (w2.call .A (.setup sc)).2 := by
    rw [call_setup_ok w1 _ _ h1 hr hi, call_setup_ok w2 _ _ h2 hr hi]
  rw [h0, runHist_rel rest _ _ hrel]

/-- (G8) every data member of the algorithm objects is assigned in `Init` / its helpers / `AlgorithmSpecificInit`,
except `a0` (recomputed by `ComputePropensities` before it is read) and `n_edges` (never read): a freshly
set-up simulation holds nothing of a previous one.  The objects themselves are freshly allocated (`new`). -/
theorem members_assigned_in_init :
    (∀ m ∈ Gen.membersGrid, m ∈ Gen.initAssignedGrid) ∧
    (∀ m ∈ Gen.membersGraph, m ∈ Gen.initAssignedGraph ∨ m = "n_edges") ∧
    (∀ m ∈ Gen.membersEuler3D, m ∈ Gen.initAssignedEuler3D) ∧ (∀ m ∈ Gen.membersEulerGraph, m ∈ Gen.initAssignedEulerGraph) ∧
    (∀ m ∈ Gen.membersTauLeap3D, m ∈ Gen.initAssignedTauLeap3D) ∧ (∀ m ∈ Gen.membersTauLeapGraph, m ∈ Gen.initAssignedTauLeapGraph) ∧
    (∀ m ∈ Gen.membersGillespie3D, m ∈ Gen.initAssignedGillespie3D ∨ m = "a0") ∧
    (∀ m ∈ Gen.membersGillespieGraph, m ∈ Gen.initAssignedGillespieGraph ∨ m = "a0") := by decide +kernel

/-! ## 3. the seed -/

/-- the generator is seeded once, in `Init`, from the seed, and is otherwise only advanced by draws
(every statement of the algorithm sources that mentions `rng`) -/
theorem seed_only_via_rng :
    Gen.initRngAssignGrid = "std::mt19937(seed)" ∧ Gen.initRngAssignGraph = "std::mt19937(seed)" ∧
    Gen.rngMentions = [("SimulationAlgorithm3DBase.hpp", "std::mt19937rng"),
      ("SimulationAlgorithm3DBase.hpp", "returnstd::poisson_distribution<longlong>(lambda)(rng)"),
      ("SimulationAlgorithm3DBase.hpp", "this->rng=std::mt19937(seed)"),
      ("SimulationAlgorithmGraphBase.hpp", "std::mt19937rng"),
      ("SimulationAlgorithmGraphBase.hpp", "returnstd::poisson_distribution<longlong>(lambda)(rng)"),
      ("SimulationAlgorithmGraphBase.hpp", "this->rng=std::mt19937(seed)"),
      ("Gillespie3D.hpp", "doubler=uiud(rng)*a0"), ("Gillespie3D.hpp", "dt=log(1/uiud(rng))/a0"),
      ("GillespieGraph.hpp", "doubler=uiud(rng)*a0"), ("GillespieGraph.hpp", "dt=log(1/uiud(rng))/a0")] :=
  ⟨rfl, rfl, rfl⟩

/-- an algorithm whose step does not depend on a component of its state (`f` forgets it) records the same
trajectory whatever that component is -/
theorem forgotten_component_irrelevant {σ' : Type} (A' : Algo σ' ω) (f : σ → σ') (hc : Commutes A A' f) (x0 y0 : σ)
    (h : f x0 = f y0) (n : Nat) :
    (iter A cfg n (init A cfg x0)).recs = (iter A cfg n (init A cfg y0)).recs ∧
    (iter A cfg n (init A cfg x0)).t = (iter A cfg n (init A cfg y0)).t ∧
    (iter A cfg n (init A cfg x0)).complete = (iter A cfg n (init A cfg y0)).complete := by
  have e1 := mapX_iter A cfg A' f hc n (init A cfg x0)
  have e2 := mapX_iter A cfg A' f hc n (init A cfg y0)
  rw [mapX_init A cfg A' f hc] at e1 e2
  rw [h] at e1
  have e := e1.trans e2.symm
  have r : (mapX f (iter A cfg n (init A cfg x0))).recs = (mapX f (iter A cfg n (init A cfg y0))).recs := congrArg SimSt.recs e
  have t : (mapX f (iter A cfg n (init A cfg x0))).t = (mapX f (iter A cfg n (init A cfg y0))).t := congrArg SimSt.t e
  have c : (mapX f (iter A cfg n (init A cfg x0))).complete = (mapX f (iter A cfg n (init A cfg y0))).complete := congrArg SimSt.complete e
  exact ⟨r, t, c⟩

/-- the Euler engine as an algorithm over (state, generator): `Compute_dxdt; Apply_dxdt` never touch `rng` -/
def eulerSeeded (γ : Type) (e : EngIn) (dt : Rat) : Algo (State × γ) State :=
  { step := fun p => some ((eulerStep e dt p.1, p.2), dt), obs := fun p => p.1 }

def eulerPure (e : EngIn) (dt : Rat) : Algo State State :=
  { step := fun x => some (eulerStep e dt x, dt), obs := id }

/-- the deterministic engine's result is independent of the seed (of the whole generator state `γ`) -/
theorem euler_ignores_seed (γ : Type) (e : EngIn) (dt : Rat) (x0 : State) (g1 g2 : γ) (n : Nat) :
    (iter (eulerSeeded γ e dt) cfg n (init (eulerSeeded γ e dt) cfg (x0, g1))).recs =
    (iter (eulerSeeded γ e dt) cfg n (init (eulerSeeded γ e dt) cfg (x0, g2))).recs :=
  (forgotten_component_irrelevant (eulerSeeded γ e dt) cfg (eulerPure e dt) Prod.fst ⟨fun _ => rfl, fun _ => rfl⟩
    (x0, g1) (x0, g2) rfl n).1

/-- `Iterate()` of Euler draws nothing (no `rng` in `Euler3D.hpp` / `EulerGraph.hpp`) -/
theorem euler_sources_never_mention_rng :
    ∀ p ∈ Gen.rngMentions, p.1 ≠ "Euler3D.hpp" ∧ p.1 ≠ "EulerGraph.hpp" := by decide +kernel

/-! ## 4. the stored script reproduces the trajectory -/

/-- `RDScript.rng_seed` setter: `None` → a drawn seed (external: `random.randint`), else `int(rng_seed)` -/
def seedSetter (given : Option Int) (drawn : Int) : Int :=
  match given with
  | none => drawn
  | some v => v

theorem script_text :
    Gen.pySeedSetter = ["ifrng_seed==None:rng_seed=random.randint(0,2**32-1)else:rng_seed=int(rng_seed)", "self._rng_seed=rng_seed"] ∧
    Gen.pyScriptCopy = ["returncopy.deepcopy(self)"] ∧
    Gen.wrapperSetupHead = ["self._script=script.copy()", "self._simulation_unfinished=1"] ∧
    Gen.trajectoryInit = ["self._data=data.copy()", "self._t=t_sample.copy()", "self._system=system.copy()",
      "ifisnone(script):self._script=Noneelse:self._script=script.copy()", "self._engine_description=engine_description",
      "self._engine_option=engine_option", "self._cgmap=cgmap"] ∧
    Gen.simulateEngineCalls = ["engine.setup(script)", "engine.get_option()", "engine.run(1000)", "engine.get_progress()",
      "engine.get_output()", "engine.finalize()"] :=
  ⟨rfl, rfl, rfl, rfl, rfl⟩

/-- the script object holds a concrete seed from construction on (drawn once when none was given); copies
(`setup`'s `script.copy()`, `RDTrajectory`'s `script.copy()`) keep it, and constructing a script from the stored
seed never draws again: the trajectory's script is set up with exactly the seed the run used -/
theorem stored_script_reproduces (given : Option Int) (drawn drawn' : Int) :
    seedSetter (some (seedSetter given drawn)) drawn' = seedSetter given drawn := rfl

/-! ## 4b. the stored script is the script as it was SET UP: the caller's later edits of its own object do not reach it -/

/-- the caller's and the wrapper's script OBJECTS: a store of seeds by object identity.  `setup` executes
`self._script = script.copy()` (a new object), the caller's later `script.rng_seed = v` writes ITS object. -/
structure ScriptHeap where
  seeds : List Int

def ScriptHeap.get (h : ScriptHeap) (a : Nat) : Int := h.seeds.getD a 0
def ScriptHeap.assign (h : ScriptHeap) (a : Nat) (v : Int) : ScriptHeap := { seeds := h.seeds.set a v }
/-- `script.copy()`: a new object with the same content; returns its identity -/
def ScriptHeap.copy (h : ScriptHeap) (a : Nat) : ScriptHeap × Nat := ({ seeds := h.seeds ++ [h.get a] }, h.seeds.length)

/-- the script the trajectory stores when the caller assigns seeds `vs` to its own object between `setup` and `get_output`
(`wrapperSetupHead`: setup copies; `trajectoryInit`: get_output copies the wrapper's copy) -/
def storedAfterEdits (h : ScriptHeap) (a : Nat) (vs : List Int) : Int :=
  let (h1, held) := h.copy a
  let h2 := vs.foldl (fun hh v => hh.assign a v) h1
  let (h3, stored) := h2.copy held
  h3.get stored

theorem assign_other (h : ScriptHeap) (a b : Nat) (v : Int) (hab : a ≠ b) : (h.assign a v).get b = h.get b := by
  simp [ScriptHeap.assign, ScriptHeap.get, List.getD_eq_getElem?_getD, List.getElem?_set_ne hab]

theorem assign_length (h : ScriptHeap) (a : Nat) (v : Int) : (h.assign a v).seeds.length = h.seeds.length := by
  simp [ScriptHeap.assign]

theorem foldl_assign_other (vs : List Int) (h : ScriptHeap) (a b : Nat) (hab : a ≠ b) :
    (vs.foldl (fun hh v => hh.assign a v) h).get b = h.get b := by
  induction vs generalizing h with
  | nil => rfl
  | cons v vs ih => simp only [List.foldl_cons]; rw [ih, assign_other h a b v hab]

theorem copy_get (h : ScriptHeap) (a : Nat) : (h.copy a).1.get (h.copy a).2 = h.get a := by
  simp [ScriptHeap.copy, ScriptHeap.get, List.getD_eq_getElem?_getD]

theorem stored_ignores_later_edits (h : ScriptHeap) (a : Nat) (ha : a < h.seeds.length) (vs : List Int) :
    storedAfterEdits h a vs = h.get a := by
  unfold storedAfterEdits
  simp only []
  rw [copy_get, foldl_assign_other vs _ a (h.copy a).2 (show a ≠ h.seeds.length from Nat.ne_of_lt ha), copy_get]

example : storedAfterEdits ⟨[20240611]⟩ 0 [20240612, 7] = 20240611 := by decide

/-- without the copy in `setup` (the wrapper holding the caller's object itself) the last edit would be what is stored:
the hypothesis "setup copies" (`script_text`, `Gen.wrapperSetupHead`) is what `stored_ignores_later_edits` rests on -/
example : ((([20240612, 7] : List Int).foldl (fun hh v => hh.assign 0 v) (⟨[20240611]⟩ : ScriptHeap)).copy 0).1.get 1 = 7 := by decide

/-! ## non-vacuity -/

def demoAlgo : Algo Nat Nat := { step := fun n => some (n + 1, 1 / 4), obs := id }
def demoCfg : SamplerCfg := { policy := 1, tSamples := [], interval := 1, tMax := 1 / 2 }

example : (applySchedule demoAlgo demoCfg [.iterate, .iterateN 5] (init demoAlgo demoCfg 0)).complete = true ∧
    (applySchedule demoAlgo demoCfg [.run 0, .run 7, .iterate] (init demoAlgo demoCfg 0)).complete = true ∧
    (applySchedule demoAlgo demoCfg [.run 0, .run 7, .iterate] (init demoAlgo demoCfg 0)).recs = [(0, 0), (1/4, 1), (1/2, 2), (3/4, 3)] := by
  decide +kernel

end Strengths.C08
