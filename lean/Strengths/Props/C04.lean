/-
C04 — Physical results do not depend on the units used to state or report them (work in progress).
-/
import Strengths.Model.Build

namespace Strengths.C04
open Strengths Strengths.Gen

/-- an explicit quantity denotes the same physical value whatever units system surrounds it -/
theorem explicit_values_ignore_context (v : Rat) (u : Units) (U U' : Sys) (dim : Dim) :
    processUnitVar (.expl v u) U dim = processUnitVar (.expl v u) U' dim := rfl

end Strengths.C04
