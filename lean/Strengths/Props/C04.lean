/-
C04 — Physical results do not depend on the units used to state or report them.

Model: `Model/Build.lean` (units inheritance `resolveUnits`, `processUnitVar`, constructors' defaults, default state).
Spec `rescale`: re-express the bare numbers owned by a level in another units system (`rescaleNum U U'`), or replace
them by explicit quantities (`explicitNum U W`), leaving explicit quantities untouched.

Proved for ALL valid units systems (hence all 11×10×10), all dimensions, all values:
* `explicit_values_ignore_context`, `bare_rescale`, `bare_to_explicit` : field level;
* `envnum_rescale` : per-environment dictionaries (any keys, comma lists, "default");
* `species_rescale_inherited`, `species_own_units_ignore_parent`, `species_declare_units`, and the same for reactions:
  a species / reaction that inherits its system and is re-scaled builds the same SI object under the new parent; one that
  declares its own system ignores the parent; declaring a new system σ and re-scaling to σ builds the same object;
* `rate_homogeneous` (the key algebraic lemma): scaling lengths by `a`, times by `b`, amounts by `c` — rate constants of
  order `n` by `a^(3n−3)·b^(−1)·c^(1−n)`, diffusion coefficients by `a²/b`, volumes by `a³`, surfaces by `a²` — scales the
  rate of every entry by `c/b`, i.e. the rate law is homogeneous of dimension amount/time;
* `euler_step_commutes_with_conv`, `euler_traj_units_invariant` : one Euler step on a graph commutes with the change of
  units, and so does a trajectory of any fixed number of steps (induction);
* `output_units_only_scale` : expressing a result in another system multiplies it by a positive factor that depends only
  on the two systems and the dimension.
Round 2: `si_rescale_state` / `si_rescale_rate` / `si_declare_system` lift the level lemmas through `buildSystem` for whole
descriptions (network, species, reactions, grid or graph space with nodes and edges, explicit state list, default state and
chemostat map): the re-scaled description builds the SAME SI system, or raises exactly when the original does.  The Euler
commutation is proved for graphs and (round 2) for every valid grid (`euler_step_commutes_with_conv_grid`,
`euler_traj_units_invariant_grid`).
-/
import Strengths.Model.Build
import Strengths.Props.C01
import Strengths.Props.C03

namespace Strengths.C04
open Strengths Strengths.Gen Strengths.Spec

/-! ## Field level -/

/-- an explicit quantity denotes the same physical value whatever units system surrounds it -/
theorem explicit_values_ignore_context (v : Rat) (u : Units) (U U' : Sys) (dim : Dim) :
    processUnitVar (.expl v u) U dim = processUnitVar (.expl v u) U' dim := rfl

/-- Spec: the bare number that denotes in `U'` what `v` denotes in `U` -/
def rescaleVal (U U' : Sys) (dim : Dim) (v : Rat) : Rat := v * siFactor U dim / siFactor U' dim

def rescaleNum (U U' : Sys) (dim : Dim) : Num → Num
  | .bare v => .bare (rescaleVal U U' dim v)
  | .expl v u => .expl v u

/-- Spec: replace a bare number by the explicit quantity of the same physical value written in system `W` -/
def explicitNum (U W : Sys) (dim : Dim) : Num → Num
  | .bare v => .expl (rescaleVal U W dim v) ⟨W, dim⟩
  | .expl v u => .expl v u

theorem bare_rescale (U U' : Sys) (hU' : U'.valid = true) (dim : Dim) (x : Num) :
    processUnitVar (rescaleNum U U' dim x) U' dim = processUnitVar x U dim := by
  cases x with
  | bare v =>
    simp only [rescaleNum, processUnitVar, Q.ofU, rescaleVal]
    congr 2
    have := siFactor_ne hU' dim
    field_simp
  | expl v u => rfl

theorem bare_to_explicit (U W anyU : Sys) (hW : W.valid = true) (dim : Dim) (x : Num) :
    processUnitVar (explicitNum U W dim x) anyU dim = processUnitVar x U dim := by
  cases x with
  | bare v =>
    simp only [explicitNum, processUnitVar, Q.ofU, rescaleVal, if_true]
    congr 2
    have := siFactor_ne hW dim
    field_simp
  | expl v u => rfl

/-! ## Per-environment values -/

def rescaleEnvNum (U U' : Sys) (dim : Dim) : EnvNum → EnvNum
  | .single x => .single (rescaleNum U U' dim x)
  | .dict es => .dict (es.map fun p => (p.1, rescaleNum U U' dim p.2))

theorem envdict_rescale (U U' : Sys) (hU' : U'.valid = true) (dim : Dim) (es : List (String × Num)) (acc : List (String × Q)) :
    foldRes (envDictStep U' dim) acc (es.map fun p => (p.1, rescaleNum U U' dim p.2)) = foldRes (envDictStep U dim) acc es := by
  induction es generalizing acc with
  | nil => rfl
  | cons p ps ih =>
    simp only [List.map_cons, foldRes, envDictStep, bare_rescale U U' hU' dim p.2]
    cases processUnitVar p.2 U dim with
    | error e => rfl
    | ok q => exact ih _

theorem envnum_rescale (U U' : Sys) (hU' : U'.valid = true) (dim : Dim) (x : EnvNum) :
    processEnvNum (rescaleEnvNum U U' dim x) U' dim = processEnvNum x U dim := by
  cases x with
  | single n => simp only [rescaleEnvNum, processEnvNum, bare_rescale U U' hU' dim n]
  | dict es => simp only [rescaleEnvNum, processEnvNum, processEnvDict, envdict_rescale U U' hU' dim es []]

/-! ## Species and reactions -/

def rescaleSpecies (U U' : Sys) (d : SpeciesD) : SpeciesD :=
  { d with D := some (rescaleEnvNum U U' Dim.diffusion (optEnv d.D)), density := some (rescaleEnvNum U U' Dim.density (optEnv d.density)) }

def rescaleReaction (U U' : Sys) (d : ReactionD) : ReactionD :=
  { d with kf := some (rescaleEnvNum U U' (kfDim (natSum d.sub)) (optEnv d.kf)),
           kr := some (rescaleEnvNum U U' (krDim (natSum d.prod)) (optEnv d.kr)) }

/-- a species that inherits its units system: changing the parent from `U` to `U'` and re-scaling its bare numbers
builds the same SI object (the omitted `D` / `density` are the bare number 0, re-scaled too) -/
theorem species_rescale_inherited (U U' : Sys) (hU' : U'.valid = true) (d : SpeciesD) (hd : d.units = .absent ∨ d.units = .inherit) :
    buildSpecies U' (rescaleSpecies U U' d) = buildSpecies U d := by
  unfold buildSpecies rescaleSpecies
  rcases hd with h | h <;>
    simp only [h, resolveUnits, optEnv, Option.getD_some, envnum_rescale U U' hU', Bool.false_eq_true, if_false]

/-- a species that declares its own system ("default" or a dictionary) ignores the parent altogether -/
theorem species_own_units_ignore_parent (P P' : Sys) (d : SpeciesD) (hd : d.units = .dflt ∨ ∃ l, d.units = .dict l) :
    buildSpecies P' d = buildSpecies P d := by
  unfold buildSpecies
  rcases hd with h | ⟨l, h⟩ <;> simp only [h, resolveUnits]

/-- declaring a new system σ at a species (whatever it resolved to before, `U`) and re-scaling its numbers to σ -/
theorem species_declare_units (P P' U σ : Sys) (hσ : σ.valid = true) (l : List (String × String)) (hl : sysFromDict l = .ok σ)
    (d : SpeciesD) (hU : resolveUnits d.units false P = .ok U) :
    buildSpecies P' { rescaleSpecies U σ d with units := .dict l } = buildSpecies P d := by
  unfold buildSpecies rescaleSpecies
  have h1 : resolveUnits (.dict l) false P' = .ok σ := hl
  simp only [h1, hU, optEnv, Option.getD_some, envnum_rescale U σ hσ]

theorem reaction_rescale_inherited (U U' : Sys) (hU' : U'.valid = true) (d : ReactionD) (hd : d.units = .absent ∨ d.units = .inherit) :
    buildReaction U' (rescaleReaction U U' d) = buildReaction U d := by
  unfold buildReaction rescaleReaction
  rcases hd with h | h <;>
    simp only [h, resolveUnits, optEnv, Option.getD_some, envnum_rescale U U' hU', Bool.false_eq_true, if_false]

theorem reaction_own_units_ignore_parent (P P' : Sys) (d : ReactionD) (hd : d.units = .dflt ∨ ∃ l, d.units = .dict l) :
    buildReaction P' d = buildReaction P d := by
  unfold buildReaction
  rcases hd with h | ⟨l, h⟩ <;> simp only [h, resolveUnits]

theorem reaction_declare_units (P P' U σ : Sys) (hσ : σ.valid = true) (l : List (String × String)) (hl : sysFromDict l = .ok σ)
    (d : ReactionD) (hU : resolveUnits d.units false P = .ok U) :
    buildReaction P' { rescaleReaction U σ d with units := .dict l } = buildReaction P d := by
  unfold buildReaction rescaleReaction
  have h1 : resolveUnits (.dict l) false P' = .ok σ := hl
  simp only [h1, hU, optEnv, Option.getD_some, envnum_rescale U σ hσ]

/-- units inheritance: "inherit" and an absent key give the parent's system, "default" the default one, below the
script; at the script an absent key gives the default system -/
theorem inheritance_rules (P : Sys) :
    resolveUnits .absent false P = .ok P ∧ resolveUnits .inherit false P = .ok P ∧ resolveUnits .dflt false P = .ok Sys.default ∧
    resolveUnits .absent true P = .ok Sys.default ∧ resolveUnits .inherit true P = .ok P := ⟨rfl, rfl, rfl, rfl, rfl⟩

/-! ## Whole descriptions (lifting through `buildSystem`) -/

/-- does a level take its units system from its parent? -/
def inherits : UDecl → Bool
  | .absent => true
  | .inherit => true
  | _ => false

theorem resolve_inherits {u : UDecl} (h : inherits u = true) (P : Sys) : resolveUnits u false P = .ok P := by
  cases u <;> simp [inherits] at h <;> rfl

theorem resolve_own {u : UDecl} (h : inherits u = false) (P P' : Sys) : resolveUnits u false P' = resolveUnits u false P := by
  cases u <;> simp [inherits] at h <;> rfl

/-! ### Spec: re-expressing a whole description when the parent's units system changes from `U` to `U'`:
every level that inherits re-scales its own bare numbers and passes the change on; a level that declares its own system
(and everything below it) is left untouched -/

def rescaleSpeciesL (U U' : Sys) (d : SpeciesD) : SpeciesD := if inherits d.units then rescaleSpecies U U' d else d
def rescaleReactionL (U U' : Sys) (d : ReactionD) : ReactionD := if inherits d.units then rescaleReaction U U' d else d

def rescaleNode (U U' : Sys) (d : NodeD) : NodeD :=
  if inherits d.units then { d with vol := some (rescaleNum U U' Dim.volume (optNum d.vol)) } else d

def rescaleEdge (U U' : Sys) (d : EdgeD) : EdgeD :=
  if inherits d.units then { d with sfc := some (rescaleNum U U' Dim.surface (optNum d.sfc)),
                                    dst := some (rescaleNum U U' Dim.length (optNum d.dst)) } else d

def rescaleSpace (U U' : Sys) : SpaceD → SpaceD
  | .grid u g env vol => if inherits u then .grid u g env (some (rescaleNum U U' Dim.volume (optNum vol))) else .grid u g env vol
  | .graph u nodes edges =>
    if inherits u then .graph u (nodes.map (rescaleNode U U')) (edges.map (rescaleEdge U U')) else .graph u nodes edges

def rescaleNet (U U' : Sys) (d : NetD) : NetD :=
  if inherits d.units then { d with species := d.species.map (rescaleSpeciesL U U'), reactions := d.reactions.map (rescaleReactionL U U') }
  else d

def rescaleSystem (U U' : Sys) (d : SystemD) : SystemD :=
  if inherits d.units then
    { d with net := rescaleNet U U' d.net, space := rescaleSpace U U' d.space,
             state := d.state.map fun l => l.map (rescaleVal U U' Dim.quantity) }
  else d

theorem mapRes_map {α β γ : Type} (f : β → Res γ) (f' : α → Res γ) (g : α → β) (l : List α) (h : ∀ a ∈ l, f (g a) = f' a) :
    mapRes f (l.map g) = mapRes f' l := by
  induction l with
  | nil => rfl
  | cons a as ih =>
    simp only [List.map_cons, mapRes, h a (List.mem_cons_self), ih (fun b hb => h b (List.mem_cons_of_mem _ hb))]

theorem speciesL_rescale (U U' : Sys) (hU' : U'.valid = true) (d : SpeciesD) :
    buildSpecies U' (rescaleSpeciesL U U' d) = buildSpecies U d := by
  unfold rescaleSpeciesL
  cases hi : inherits d.units
  · simp only [Bool.false_eq_true, if_false]
    unfold buildSpecies
    rw [resolve_own hi U U']
  · simp only [if_true]
    apply species_rescale_inherited U U' hU' d
    cases hu : d.units <;> simp [hu, inherits] at hi <;> simp

theorem reactionL_rescale (U U' : Sys) (hU' : U'.valid = true) (d : ReactionD) :
    buildReaction U' (rescaleReactionL U U' d) = buildReaction U d := by
  unfold rescaleReactionL
  cases hi : inherits d.units
  · simp only [Bool.false_eq_true, if_false]
    unfold buildReaction
    rw [resolve_own hi U U']
  · simp only [if_true]
    apply reaction_rescale_inherited U U' hU' d
    cases hu : d.units <;> simp [hu, inherits] at hi <;> simp

theorem space_rescale (U U' : Sys) (hU' : U'.valid = true) (edges : List Rat) (d : SpaceD) :
    buildSpace U' edges (rescaleSpace U U' d) = buildSpace U edges d := by
  cases d with
  | grid u g env vol =>
    unfold rescaleSpace
    cases hi : inherits u
    · simp only [hi, Bool.false_eq_true, if_false, buildSpace, resolve_own hi U U']
    · simp only [hi, if_true, buildSpace, resolve_inherits hi, optNum, Option.getD_some, bare_rescale U U' hU']
  | graph u nodes es =>
    unfold rescaleSpace
    cases hi : inherits u
    · simp only [hi, Bool.false_eq_true, if_false, buildSpace, resolve_own hi U U']
    · simp only [hi, if_true, buildSpace, resolve_inherits hi, List.length_map]
      have hn : mapRes (buildNode U' edges) ((nodes.map (rescaleNode U U')).zip (List.range nodes.length))
          = mapRes (buildNode U edges) (nodes.zip (List.range nodes.length)) := by
        rw [List.zip_map_left]
        apply mapRes_map
        intro p _
        obtain ⟨nd, k⟩ := p
        simp only [Prod.map, id, buildNode]
        unfold rescaleNode
        cases hin : inherits nd.units
        · simp only [hin, Bool.false_eq_true, if_false, resolve_own hin U U']
        · simp only [hin, if_true, resolve_inherits hin, optNum, Option.getD_some, bare_rescale U U' hU']
      have he : mapRes (buildEdge U') (es.map (rescaleEdge U U')) = mapRes (buildEdge U) es := by
        apply mapRes_map
        intro ed _
        simp only [buildEdge]
        unfold rescaleEdge
        cases hin : inherits ed.units
        · simp only [hin, Bool.false_eq_true, if_false, resolve_own hin U U']
        · simp only [hin, if_true, resolve_inherits hin, optNum, Option.getD_some, bare_rescale U U' hU']
      rw [hn, he]

theorem net_rescale (U U' : Sys) (hU' : U'.valid = true) (d : NetD) :
    buildNet U' (rescaleNet U U' d) = buildNet U d := by
  unfold rescaleNet buildNet
  cases hi : inherits d.units
  · simp only [hi, Bool.false_eq_true, if_false, resolve_own hi U U']
  · simp only [hi, if_true, resolve_inherits hi,
      mapRes_map (buildSpecies U') (buildSpecies U) _ d.species (fun a _ => speciesL_rescale U U' hU' a),
      mapRes_map (buildReaction U') (buildReaction U) _ d.reactions (fun a _ => reactionL_rescale U U' hU' a)]

theorem state_rescale (U U' : Sys) (hU' : U'.valid = true) (st : Option (List Rat)) (dflt : List Rat) :
    stateOfDesc U' (st.map fun l => l.map (rescaleVal U U' Dim.quantity)) dflt = stateOfDesc U st dflt := by
  cases st with
  | none => rfl
  | some l =>
    simp only [stateOfDesc, Option.map_some, List.map_map]
    apply List.map_congr_left
    intro v _
    simp only [Function.comp, Q.ofU, rescaleVal]
    have := siFactor_ne hU' Dim.quantity
    field_simp

/-- **si_rescale_state** — a whole description re-expressed for another parent units system (`rescaleSystem U U'`: every level
that inherits re-scales its own bare numbers — omitted ones included, they are bare defaults — and levels with their own
declaration are untouched) builds the SAME SI system and the SAME SI state (initial amounts, chemostat map, volumes, rate
constants, diffusion coefficients, surfaces, distances), or raises exactly when the original does; for all valid `U'` -/
theorem si_rescale_state (U U' : Sys) (hU' : U'.valid = true) (edges : List Rat) (d : SystemD) :
    buildSystem U' edges (rescaleSystem U U' d) = buildSystem U edges d := by
  unfold rescaleSystem
  cases hi : inherits d.units
  · simp only [hi, Bool.false_eq_true, if_false]
    unfold buildSystem
    rw [resolve_own hi U U']
  · simp only [hi, if_true]
    unfold buildSystem
    simp only [resolve_inherits hi, net_rescale U U' hU', space_rescale U U' hU']
    have hnet : (rescaleNet U U' d.net).envs = d.net.envs := by
      unfold rescaleNet; split <;> rfl
    simp only [hnet]
    cases buildNet U d.net with
    | error e => rfl
    | ok p =>
      obtain ⟨sp, rs⟩ := p
      simp only
      split
      · rfl
      · cases buildSpace U edges d.space with
        | error e => rfl
        | ok space =>
          simp only [assemble, hnet, state_rescale U U' hU']

/-- **si_rescale_rate** — consequently everything computed from the built system is unchanged: in particular the rate of
change returned by the kinetics model for every entry (and any trajectory computed from it) -/
theorem si_rescale_rate (U U' : Sys) (hU' : U'.valid = true) (edges : List Rat) (d : SystemD) (b b' : Built)
    (h : buildSystem U edges d = .ok b) (h' : buildSystem U' edges (rescaleSystem U U' d) = .ok b') (s i : Nat) (ac : Bool) :
    pyDspeciesdt b'.sys s i ⟨b'.state, Dim.quantity⟩ ac = pyDspeciesdt b.sys s i ⟨b.state, Dim.quantity⟩ ac := by
  rw [si_rescale_state U U' hU'] at h'
  rw [h] at h'
  cases h'
  rfl

/-- a system reads its parent only through the units system its "units" key resolves to -/
theorem buildSystem_of_resolve (P U : Sys) (edges : List Rat) (d : SystemD) (hU : resolveUnits d.units false P = .ok U) :
    buildSystem P edges d = buildSystem U edges { d with units := .inherit } := by
  unfold buildSystem
  rw [hU]
  rfl

/-- the same when the system level DECLARES a new system σ (instead of what it resolved to before, `U`): declaring σ and
re-scaling everything that takes its units from the system level builds the same SI system under ANY parent -/
theorem si_declare_system (P P' U σ : Sys) (hσ : σ.valid = true) (l : List (String × String)) (hl : sysFromDict l = .ok σ)
    (edges : List Rat) (d : SystemD) (hU : resolveUnits d.units false P = .ok U) :
    buildSystem P' edges { rescaleSystem U σ { d with units := .inherit } with units := .dict l } = buildSystem P edges d := by
  have h1 : resolveUnits (.dict l) false P' = .ok σ := hl
  rw [buildSystem_of_resolve P' σ edges _ h1, buildSystem_of_resolve P U edges d hU]
  have h2 := si_rescale_state U σ hσ edges { d with units := .inherit }
  rw [← h2]
  rfl

/-! ## The rate law is homogeneous of dimension amount/time -/

/-- the same physical system with lengths measured in units `a` times larger, times `b`, amounts `c`:
every table entry divided by the scale of its dimension -/
def scalePhys (a b c : Rat) (P : Phys) : Phys where
  nSpecies := P.nSpecies
  nCells := P.nCells
  nReacs := P.nReacs
  reac := fun r =>
    { sub := (P.reac r).sub, prod := (P.reac r).prod
      kf := fun e => (P.reac r).kf e / (a ^ ((3 : Int) * (((List.range P.nSpecies).map (P.reac r).sub).sum : Nat) - 3) * b ^ (-1 : Int)
        * c ^ ((1 : Int) - (((List.range P.nSpecies).map (P.reac r).sub).sum : Nat)))
      kr := fun e => (P.reac r).kr e / (a ^ ((3 : Int) * (((List.range P.nSpecies).map (P.reac r).prod).sum : Nat) - 3) * b ^ (-1 : Int)
        * c ^ ((1 : Int) - (((List.range P.nSpecies).map (P.reac r).prod).sum : Nat))) }
  env := P.env
  vol := fun i => P.vol i / a ^ 3
  edge := fun i => P.edge i / a
  dcoef := fun s e => P.dcoef s e / (a ^ 2 / b)
  faces := fun i => (P.faces i).map fun f => ⟨f.nbr, f.sfc / a ^ 2, f.dst / a⟩

theorem prodL_scaled (n : Nat) (y : Nat → Rat) (ν : Nat → Nat) (m : Rat) :
    prodL ((List.range n).map fun s => (y s * m) ^ ν s)
      = prodL ((List.range n).map fun s => y s ^ ν s) * m ^ ((List.range n).map ν).sum := by
  induction n with
  | zero => simp [prodL]
  | succ n ih =>
    have happ : ∀ p q : List Rat, prodL (p ++ q) = prodL p * prodL q := by
      intro p q
      induction p with
      | nil => simp [prodL]
      | cons z zs ihz =>
        simp only [prodL, List.cons_append, List.foldr_cons] at *
        rw [ihz]; ring
    rw [List.range_succ, List.map_append, List.map_append, List.map_append, happ, happ, ih, List.sum_append]
    simp only [List.map_cons, List.map_nil, prodL, List.foldr_cons, List.foldr_nil, mul_one, List.sum_cons, List.sum_nil, add_zero]
    rw [mul_pow, pow_add]
    ring

theorem massAction_homogeneous (a b c : Rat) (ha : a ≠ 0) (hb : b ≠ 0) (hc : c ≠ 0) (P : Phys) (x : St) (i : Nat)
    (k : Rat) (ν : Nat → Nat) (hV : P.vol i ≠ 0) :
    massAction (scalePhys a b c P) (fun i s => x i s / c) i
        (k / (a ^ ((3 : Int) * (((List.range P.nSpecies).map ν).sum : Nat) - 3) * b ^ (-1 : Int) * c ^ ((1 : Int) - (((List.range P.nSpecies).map ν).sum : Nat)))) ν
      = massAction P x i k ν * b / c := by
  unfold massAction conc
  simp only [scalePhys]
  have hterm : ∀ s, x i s / c / (P.vol i / a ^ 3) = (x i s / P.vol i) * (a ^ 3 / c) := by
    intro s; field_simp
  simp only [hterm]
  rw [prodL_scaled]
  generalize ((List.range P.nSpecies).map ν).sum = n
  generalize prodL ((List.range P.nSpecies).map fun s => (x i s / P.vol i) ^ ν s) = Pr
  rw [zpow_sub₀ ha, zpow_sub₀ hc, zpow_neg, zpow_one, zpow_one, div_pow]
  have h3 : a ^ ((3 : Int) * (n : Int)) = (a ^ 3) ^ n := by
    rw [zpow_mul, zpow_natCast]; norm_num
  rw [h3, zpow_natCast, zpow_ofNat]
  have ha3 : a ^ 3 ≠ 0 := pow_ne_zero 3 ha
  have han : (a ^ 3) ^ n ≠ 0 := pow_ne_zero n ha3
  have hcn : c ^ n ≠ 0 := pow_ne_zero n hc
  field_simp

theorem dbar_homogeneous (hi hj Di Dj a m : Rat) (ha : a ≠ 0) (hm : m ≠ 0) :
    dbar (hi / a) (hj / a) (Di / m) (Dj / m) = dbar hi hj Di Dj / (a * m) * a := by
  unfold dbar
  by_cases h1 : Di = 0
  · simp [h1]
  · by_cases h2 : Dj = 0
    · simp [h2]
    · have h1' : Di / m ≠ 0 := div_ne_zero h1 hm
      have h2' : Dj / m ≠ 0 := div_ne_zero h2 hm
      simp only [h1, h2, h1', h2', or_self, if_false]
      field_simp

/-- the key algebraic lemma: in units scaled by (a, b, c) the rate of every entry is the rate divided by `c/b` -/
theorem rate_homogeneous (a b c : Rat) (ha : a ≠ 0) (hb : b ≠ 0) (hc : c ≠ 0) (P : Phys) (x : St) (s i : Nat)
    (hV : ∀ j, P.vol j ≠ 0) :
    rate (scalePhys a b c P) (fun i s => x i s / c) s i = rate P x s i * b / c := by
  unfold rate
  have hR : reactionPart (scalePhys a b c P) (fun i s => x i s / c) s i = reactionPart P x s i * b / c := by
    unfold reactionPart
    have hmul : ∀ (l : List Nat) (f : Nat → Rat), sumL (l.map fun r => f r * b / c) = sumL (l.map f) * b / c := by
      intro l f
      induction l with
      | nil => simp [sumL]
      | cons r rs ih => simp only [sumL, List.map_cons, List.foldr_cons] at *; rw [ih]; ring
    rw [← hmul]
    apply sumL_congr
    intro r _
    have h1 := massAction_homogeneous a b c ha hb hc P x i ((P.reac r).kf (P.env i)) (P.reac r).sub (hV i)
    have h2 := massAction_homogeneous a b c ha hb hc P x i ((P.reac r).kr (P.env i)) (P.reac r).prod (hV i)
    have e1 : ((scalePhys a b c P).reac r).kf ((scalePhys a b c P).env i) = (P.reac r).kf (P.env i) /
        (a ^ ((3 : Int) * (((List.range P.nSpecies).map (P.reac r).sub).sum : Nat) - 3) * b ^ (-1 : Int)
          * c ^ ((1 : Int) - (((List.range P.nSpecies).map (P.reac r).sub).sum : Nat))) := rfl
    have e2 : ((scalePhys a b c P).reac r).kr ((scalePhys a b c P).env i) = (P.reac r).kr (P.env i) /
        (a ^ ((3 : Int) * (((List.range P.nSpecies).map (P.reac r).prod).sum : Nat) - 3) * b ^ (-1 : Int)
          * c ^ ((1 : Int) - (((List.range P.nSpecies).map (P.reac r).prod).sum : Nat))) := rfl
    have e3 : ((scalePhys a b c P).reac r).prod = (P.reac r).prod := rfl
    have e4 : ((scalePhys a b c P).reac r).sub = (P.reac r).sub := rfl
    rw [e1, e2, e3, e4, h1, h2]
    ring
  have hD : diffusionPart (scalePhys a b c P) (fun i s => x i s / c) s i = diffusionPart P x s i * b / c := by
    unfold diffusionPart conc
    simp only [scalePhys, List.map_map]
    have hmul : ∀ (l : List Face) (f : Face → Rat), sumL (l.map fun r => f r * b / c) = sumL (l.map f) * b / c := by
      intro l f
      induction l with
      | nil => simp [sumL]
      | cons r rs ih => simp only [sumL, List.map_cons, List.foldr_cons] at *; rw [ih]; ring
    rw [← hmul]
    apply sumL_congr
    intro f _
    simp only [Function.comp]
    have hm : a ^ 2 / b ≠ 0 := div_ne_zero (pow_ne_zero 2 ha) hb
    rw [dbar_homogeneous _ _ _ _ a (a ^ 2 / b) ha hm]
    have := hV i
    have := hV f.nbr
    field_simp
  rw [hR, hD]
  ring

/-! ## An Euler step commutes with the change of units (graphs), and so does a trajectory -/

def scaleEdges (a : Rat) (edges : List GEdge) : List GEdge := edges.map fun e => ⟨e.i, e.j, e.sfc / a ^ 2, e.dst / a⟩

def scaleState (c : Rat) (x : State) : State := ⟨fun i s => x i s / c⟩

theorem scaled_graph_faces (a : Rat) (edges : List GEdge) (i : Nat) :
    (graphSlots (scaleEdges a edges) i).map faceOfSlot
      = ((graphSlots edges i).map faceOfSlot).map fun f => ⟨f.nbr, f.sfc / a ^ 2, f.dst / a⟩ := by
  unfold graphSlots scaleEdges
  induction edges with
  | nil => rfl
  | cons e es ih =>
    simp only [List.map_cons, List.flatMap_cons, List.map_append, ih]
    congr 1
    by_cases h1 : e.i = i <;> by_cases h2 : e.j = i <;> simp [h1, h2, faceOfSlot]

/-- one Euler step in the scaled units is the scaled Euler step, entry by entry (flagged entries stay, free entries
follow the homogeneous rate law) -/
theorem euler_step_commutes_with_conv (a b c : Rat) (ha : a ≠ 0) (hb : b ≠ 0) (hc : c ≠ 0) (P : Phys) (nEnv : Nat)
    (edges : List GEdge) (chem : Nat → Nat → Bool) (x : State) (dt : Rat) (i s : Nat)
    (hV : ∀ j, P.vol j ≠ 0) (hfaces : ∀ j, P.faces j = (graphSlots edges j).map faceOfSlot) :
    (eulerStep (engOfPhysGraph (scalePhys a b c P) nEnv (scaleEdges a edges) chem) (dt / b) (scaleState c x)) i s
      = (scaleState c (eulerStep (engOfPhysGraph P nEnv edges chem) dt x)) i s := by
  by_cases hch : chem i s = true
  · rw [C03.euler_step_fixes_flagged _ _ _ i s hch]
    show x.get i s / c = (eulerStep (engOfPhysGraph P nEnv edges chem) dt x).get i s / c
    rw [C03.euler_step_fixes_flagged _ _ _ i s hch]
  · have hcf : chem i s = false := by simpa using hch
    have hV' : (scalePhys a b c P).vol i ≠ 0 := div_ne_zero (hV i) (pow_ne_zero 3 ha)
    have hf' : (scalePhys a b c P).faces i = (graphSlots (scaleEdges a edges) i).map faceOfSlot := by
      rw [scaled_graph_faces]
      show (P.faces i).map _ = _
      rw [hfaces i]
    rw [C01.euler_step_graph (scalePhys a b c P) nEnv (scaleEdges a edges) chem (scaleState c x) (dt / b) i s hV' hf' hcf]
    show x.get i s / c + dt / b * rate (scalePhys a b c P) (fun i s => x.get i s / c) s i
      = (eulerStep (engOfPhysGraph P nEnv edges chem) dt x).get i s / c
    rw [rate_homogeneous a b c ha hb hc P x.get s i hV,
      C01.euler_step_graph P nEnv edges chem x dt i s (hV i) (hfaces i) hcf]
    field_simp

/-- trajectories: after any fixed number of steps the state computed in the scaled units is the scaled state -/
theorem euler_traj_units_invariant (a b c : Rat) (ha : a ≠ 0) (hb : b ≠ 0) (hc : c ≠ 0) (P : Phys) (nEnv : Nat)
    (edges : List GEdge) (chem : Nat → Nat → Bool) (dt : Rat)
    (hV : ∀ j, P.vol j ≠ 0) (hfaces : ∀ j, P.faces j = (graphSlots edges j).map faceOfSlot) (n : Nat) (x : State) :
    ∀ i s, (C03.eulerIter (engOfPhysGraph (scalePhys a b c P) nEnv (scaleEdges a edges) chem) (dt / b) n (scaleState c x)) i s
      = (scaleState c (C03.eulerIter (engOfPhysGraph P nEnv edges chem) dt n x)) i s := by
  induction n generalizing x with
  | zero => intro i s; rfl
  | succ n ih =>
    intro i s
    simp only [C03.eulerIter]
    have hstep : eulerStep (engOfPhysGraph (scalePhys a b c P) nEnv (scaleEdges a edges) chem) (dt / b) (scaleState c x)
        = scaleState c (eulerStep (engOfPhysGraph P nEnv edges chem) dt x) := by
      have : ∀ (y z : State), (∀ i s, y i s = z i s) → y = z := by
        intro y z h
        cases y; cases z
        congr
        funext i s
        exact h i s
      apply this
      intro i s
      exact euler_step_commutes_with_conv a b c ha hb hc P nEnv edges chem x dt i s hV hfaces
    rw [hstep]
    exact ih _ i s

/-! ## The same on grids (unconditional since the grid theorems of C01 are) -/

theorem scaled_grid_faces (a h : Rat) (ha : a ≠ 0) (w hh d : Nat) (px py pz : Bool) (i : Nat) :
    gridFaces w hh d px py pz (h / a) i
      = (gridFaces w hh d px py pz h i).map fun f => ⟨f.nbr, f.sfc / a ^ 2, f.dst / a⟩ := by
  unfold gridFaces
  rw [List.map_map]
  apply List.map_congr_left
  intro j _
  simp only [Function.comp, Face.mk.injEq, true_and]
  constructor
  · field_simp
  · trivial

/-- one Euler step on any valid grid in the scaled units is the scaled Euler step -/
theorem euler_step_commutes_with_conv_grid (a b c : Rat) (ha : a ≠ 0) (hb : b ≠ 0) (hc : c ≠ 0) (P : Phys) (nEnv : Nat)
    (g : GridShape) (h : Rat) (chem : Nat → Nat → Bool) (x : State) (dt : Rat) (i s : Nat)
    (hv : g.valid = true) (hi : i < g.size) (hh : h ≠ 0) (hvol : ∀ j, P.vol j = h ^ 3) (hedge : ∀ j, P.edge j = h)
    (hfaces : P.faces i = gridFaces g.w g.h g.d g.px g.py g.pz h i) :
    (eulerStep (engOfPhysGrid (scalePhys a b c P) nEnv g (h / a) chem) (dt / b) (scaleState c x)) i s
      = (scaleState c (eulerStep (engOfPhysGrid P nEnv g h chem) dt x)) i s := by
  by_cases hch : chem i s = true
  · rw [C03.euler_step_fixes_flagged _ _ _ i s hch]
    show x.get i s / c = (eulerStep (engOfPhysGrid P nEnv g h chem) dt x).get i s / c
    rw [C03.euler_step_fixes_flagged _ _ _ i s hch]
  · have hcf : chem i s = false := by simpa using hch
    have hV : ∀ j, P.vol j ≠ 0 := fun j => by rw [hvol]; exact pow_ne_zero 3 hh
    have hha : h / a ≠ 0 := div_ne_zero hh ha
    have hvol' : ∀ j, (scalePhys a b c P).vol j = (h / a) ^ 3 := fun j => by
      show P.vol j / a ^ 3 = _
      rw [hvol, div_pow]
    have hedge' : ∀ j, (scalePhys a b c P).edge j = h / a := fun j => by
      show P.edge j / a = _
      rw [hedge]
    have hf' : (scalePhys a b c P).faces i = gridFaces g.w g.h g.d g.px g.py g.pz (h / a) i := by
      rw [scaled_grid_faces a h ha]
      show (P.faces i).map _ = _
      rw [hfaces]
    rw [C01.euler_step_grid_all (scalePhys a b c P) nEnv g (h / a) chem (scaleState c x) (dt / b) i s hv hi hha hvol' hedge' hf' hcf]
    show x.get i s / c + dt / b * rate (scalePhys a b c P) (fun i s => x.get i s / c) s i
      = (eulerStep (engOfPhysGrid P nEnv g h chem) dt x).get i s / c
    rw [rate_homogeneous a b c ha hb hc P x.get s i hV,
      C01.euler_step_grid_all P nEnv g h chem x dt i s hv hi hh hvol hedge hfaces hcf]
    field_simp

/-- trajectories on any valid grid: after any fixed number of steps the state computed in the scaled units is the scaled
state (entries of the grid's cells) -/
theorem euler_traj_units_invariant_grid (a b c : Rat) (ha : a ≠ 0) (hb : b ≠ 0) (hc : c ≠ 0) (P : Phys) (nEnv : Nat)
    (g : GridShape) (h : Rat) (chem : Nat → Nat → Bool) (dt : Rat)
    (hv : g.valid = true) (hh : h ≠ 0) (hvol : ∀ j, P.vol j = h ^ 3) (hedge : ∀ j, P.edge j = h)
    (hfaces : ∀ i, i < g.size → P.faces i = gridFaces g.w g.h g.d g.px g.py g.pz h i) (n : Nat) (x y : State)
    (hxy : ∀ i s, i < g.size → y i s = x i s / c) :
    ∀ i s, i < g.size →
      (C03.eulerIter (engOfPhysGrid (scalePhys a b c P) nEnv g (h / a) chem) (dt / b) n y) i s
        = (C03.eulerIter (engOfPhysGrid P nEnv g h chem) dt n x) i s / c := by
  induction n generalizing x y with
  | zero => intro i s hi; exact hxy i s hi
  | succ n ih =>
    intro i s hi
    simp only [C03.eulerIter]
    apply ih
    intro i' s' hi'
    -- one step from states that agree on the grid's cells: the step of cell i' reads only cells of the grid
    have hstep := euler_step_commutes_with_conv_grid a b c ha hb hc P nEnv g h chem x dt i' s' hv hi' hh hvol hedge (hfaces i' hi')
    have hloc : (eulerStep (engOfPhysGrid (scalePhys a b c P) nEnv g (h / a) chem) (dt / b) y) i' s'
        = (eulerStep (engOfPhysGrid (scalePhys a b c P) nEnv g (h / a) chem) (dt / b) (scaleState c x)) i' s' := by
      by_cases hch : chem i' s' = true
      · rw [C03.euler_step_fixes_flagged _ _ _ i' s' hch, C03.euler_step_fixes_flagged _ _ _ i' s' hch]
        exact hxy i' s' hi'
      · have hcf : chem i' s' = false := by simpa using hch
        have hV' : ∀ j, (scalePhys a b c P).vol j = (h / a) ^ 3 := fun j => by
          show P.vol j / a ^ 3 = _
          rw [hvol, div_pow]
        have hE' : ∀ j, (scalePhys a b c P).edge j = h / a := fun j => by
          show P.edge j / a = _
          rw [hedge]
        have hF' : (scalePhys a b c P).faces i' = gridFaces g.w g.h g.d g.px g.py g.pz (h / a) i' := by
          rw [scaled_grid_faces a h ha]
          show (P.faces i').map _ = _
          rw [hfaces i' hi']
        have hha : h / a ≠ 0 := div_ne_zero hh ha
        rw [C01.euler_step_grid_all _ nEnv g (h / a) chem y (dt / b) i' s' hv hi' hha hV' hE' hF' hcf,
          C01.euler_step_grid_all _ nEnv g (h / a) chem (scaleState c x) (dt / b) i' s' hv hi' hha hV' hE' hF' hcf]
        -- the rate at cell i' depends on the state at i' and at its neighbours, all cells of the grid
        have hrate : rate (scalePhys a b c P) y.get s' i' = rate (scalePhys a b c P) (scaleState c x).get s' i' := by
          unfold rate reactionPart diffusionPart massAction conc
          have hself : ∀ s'', y.get i' s'' = (scaleState c x).get i' s'' := fun s'' => hxy i' s'' hi'
          have hnb : ∀ f ∈ (scalePhys a b c P).faces i', ∀ s'', y.get f.nbr s'' = (scaleState c x).get f.nbr s'' := by
            intro f hf s''
            rw [hF'] at hf
            simp only [gridFaces, List.mem_map] at hf
            obtain ⟨j, hj, rfl⟩ := hf
            rw [← engine_slots_are_spec_nbrs hv hi'] at hj
            simp only [List.mem_filterMap, List.mem_range] at hj
            obtain ⟨nn, hnn, hget⟩ := hj
            exact hxy j s'' (nbr_involutive hv hi' hnn hget).2
          simp only [hself]
          congr 1
          apply sumL_congr
          intro f hf
          rw [hnb f hf s']
        rw [hrate, hxy i' s' hi']
        rfl
    rw [hloc, hstep]
    rfl
    exact hi

/-! ## Output units -/

/-- the number reported for a quantity in system `V` is the number reported in `U` times the conversion factor of
its dimension: requesting other output units only changes the scale (by a positive factor), never the physics -/
theorem output_units_only_scale (q : Q) (U V : Sys) (hU : U.valid = true) (hV : V.valid = true) :
    q.inU V = q.inU U * convFactor U V q.dim ∧ 0 < convFactor U V q.dim := by
  refine ⟨?_, convFactor_pos hU hV q.dim⟩
  unfold Q.inU
  rw [convFactor_eq_div]
  have h1 := siFactor_ne hU q.dim
  have h2 := siFactor_ne hV q.dim
  field_simp

/-- the engine units of the stochastic engines: quantity forced to "molecule", space and time kept (source text) -/
theorem engine_units_source :
    pySetupStmts.take 3 = ["units_system=script.units_system.copy()", "units_system.quantity=\"molecule\"", "self._units_system=units_system"] ∧
    pyRet_get_data = "returnUnitArray(value=data,units=Units(sys=self._units_system,dim=quantity_units_dimensions()),check_value=False).convert(self._script.units_system)" ∧
    pyRet_get_t_sample = "returnUnitArray(value=t_sample,units=Units(sys=self._units_system,dim=time_units_dimensions()),check_value=False).convert(self._script.units_system)" := by
  decide +kernel

end Strengths.C04
