/-
Where the C++ engine could leave the arithmetic the model assumes (`Model/Engine.lean` computes with exact rationals and
unbounded integers; DESIGN §8 trusts `double` to be close to that): integer variables initialised from expressions,
casts, single-precision tokens, integer-literal divisions, tolerances.  Statements about the generated inventory
`Gen.CppNumeric` (regenerated from engine.cpp and the eight algorithm headers on every run).  Shared by the engine
properties (C01–C03, C07, C09, C11, C14, C15).
-/
import Strengths.Gen.CppNumeric

namespace Strengths.CppNumeric
open Strengths.Gen.CppNumeric

/-- identifiers that denote integers in the engine sources: sizes, indices, loop counters, the integer neighbour tables,
and the accessors returning counts -/
def intIdents : List String :=
  ["w", "h", "d", "i", "j", "n", "s", "x", "y", "z", "direction", "mesh_index", "mesh_neighbors", "mesh_neighbor_index",
   "n_nodes", "NSamples", "NSpecies", "NMeshes", "global_grid_algo", "global_graph_algo"]

/-- an `int` initialised from integer-valued identifiers and integer literals only -/
def integral (e : IntInit) : Bool :=
  e.ty == "int" && !e.hasRealLiteral && e.idents.all fun x => intIdents.contains x

/-- the two places where an `int` receives a converted value: the floor-mode remainder of a species total (bounded by the
number of entries of that species, since it is a difference of a floor of a sum and a sum of floors — `C14.floor_*`), and
the elapsed wall-clock milliseconds of `engineexport_run` (C10: modelled as an arbitrary positive count) -/
def convertedInts : List (String × String × String) :=
  [("engine.cpp", "delta", "static_cast<int>(dtot_species[s])"),
   ("engine.cpp", "dt",
    "static_cast<int>(std::chrono::duration_cast<std::chrono::milliseconds>(std::chrono::system_clock::now()-t0).count())")]

/-- **no molecule number, propensity, time or time ratio is ever stored in an integer variable**: every integer variable
initialised outside a loop header holds an expression over integer identifiers and integer literals, except the two
conversions named above -/
theorem int_variables_hold_integers :
    ∀ e ∈ intInits, integral e = true ∨ (e.file, e.name, e.rhs) ∈ convertedInts := by
  decide +kernel

/-- no single-precision arithmetic anywhere in the engine (no `float`, no `f`-suffixed literal) -/
theorem no_single_precision : floatTokens = [] := by decide +kernel

/-- no division of two integer literals (`1/3` would be `0`; the cube root is written `1.0/3.0`) -/
theorem no_integer_literal_division : intLiteralDivisions = [] := by decide +kernel

/-- no tolerance / rounding vocabulary: comparisons with zero are exact, nothing is rounded or truncated by a library call
other than the `floor` of the initial-state processing and of the interval sampler (which stay in `double`) -/
theorem no_tolerances : toleranceTokens = [] := by decide +kernel

/-- the complete list of casts: the two conversions above, the element-wise `VectorCast` helper, the Poisson draw
(a `long long` by `std::poisson_distribution<long long>` — `<int>` never returns for a mean beyond the range of `int`, fix30 — widened to `double` at once), and the two container sizes -/
theorem all_casts :
    casts =
      [("engine.cpp", "int", "dtot_species[s]"), ("engine.cpp", "T_out", "a[i]"),
       ("engine.cpp", "double", "std::poisson_distribution<longlong>(mesh_state[i])(rng)"),
       ("engine.cpp", "double", "std::poisson_distribution<longlong>(mesh_state[i])(rng)"),
       ("engine.cpp", "int",
        "std::chrono::duration_cast<std::chrono::milliseconds>(std::chrono::system_clock::now()-t0).count()"),
       ("SimulationAlgorithm3DBase.hpp", "int", "sampled_t.size()"),
       ("SimulationAlgorithmGraphBase.hpp", "int", "sampled_t.size()")] := by
  decide +kernel

/-- **nothing is clamped**: the only places where the engine takes a maximum, minimum or absolute value are the truncated
normal draw of the initial-state redistribution (`max(0, floor(N(x, √x)))`, part of the documented algorithm, modelled in
`Model/InitState.lean`), the integer remainder `abs(delta)` of that same function, and the integer neighbour test
`|xi−xj|+|yi−yj|+|zi−zj| = 1`; there is no `if (x < 0) x = 0`: an amount that the arithmetic makes negative stays negative
(the Euler step is `x + dt·f(x)`, nothing else) -/
theorem no_clamping :
    clampSites =
      [("engine.cpp", "std::max(0.0,std::floor(std::normal_distribution<double>(mesh_x[i],sqrt(mesh_x[i]))(rng)))"),
       ("engine.cpp", "abs(delta)"), ("SimulationAlgorithm3DBase.hpp", "abs(xi-xj)"),
       ("SimulationAlgorithm3DBase.hpp", "abs(yi-yj)"), ("SimulationAlgorithm3DBase.hpp", "abs(zi-zj)")] := by
  decide +kernel

/-- the inventory is not empty (the extraction pattern still matches the sources) -/
example : 30 ≤ intInits.length ∧ (intInits.filter fun e => integral e).length + 2 = intInits.length := by
  decide +kernel

end Strengths.CppNumeric
