/-
Numeric inventory of src/strengths/coarsegrain.py (generated: `Gen.PyNumeric.inv_coarsegrain`, regenerated from the source on every run).
-/
import Strengths.Model.PyNumeric

namespace Strengths.PyNumeric
open Strengths.Gen.PyNumeric

/-- `coarsegrain.py` never rounds, truncates, compares with a tolerance, stores numbers in less than 64 bits, or prints them with a
limited number of digits (the model computes its values exactly and its texts through `repr`) -/
theorem coarsegrain_full_precision : fullPrecision inv_coarsegrain = true := by decide +kernel

end Strengths.PyNumeric
