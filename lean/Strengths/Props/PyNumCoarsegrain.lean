/-
Numeric inventory of src/strengths/coarsegrain.py (generated: `Gen.PyNumeric.inv_coarsegrain`, regenerated from the source on every run).
-/
import Strengths.Model.PyNumeric

namespace Strengths.PyNumeric
open Strengths.Gen.PyNumeric

/-- `coarsegrain.py` never rounds, truncates, compares with a tolerance, stores numbers in less than 64 bits, or prints them with a
limited number of digits (the model computes its values exactly and its texts through `repr`) -/
theorem coarsegrain_full_precision : fullPrecision inv_coarsegrain = true := by decide +kernel

/-- the only maxima / minima / absolute values taken in `coarsegrain.py` are the extrema of an index map (integers), the canonical order of a coarse edge's ends, and the saturation of summed chemostat flags to 1; no amount, rate, time or
coefficient is clamped, and no exception is swallowed -/
theorem coarsegrain_no_clamping :
    clamp_coarsegrain =
      [("clamp", "max(im)"), ("clamp", "min(im)"), ("clamp", "min(im)"), ("clamp", "max(im)"), ("clamp", "max(index_map)"), ("clamp", "min(i,j)"), ("clamp", "max(i,j)"), ("clamp", "min(cgchstt[i],1)")] := by
  decide +kernel

end Strengths.PyNumeric
