/-
Numeric inventory of src/strengths/rdnetwork.py (generated: `Gen.PyNumeric.inv_rdnetwork`, regenerated from the source on every run).
-/
import Strengths.Model.PyNumeric

namespace Strengths.PyNumeric
open Strengths.Gen.PyNumeric

/-- `rdnetwork.py` never rounds, truncates, compares with a tolerance, stores numbers in less than 64 bits, or prints them with a
limited number of digits (the model computes its values exactly and its texts through `repr`) -/
theorem rdnetwork_full_precision : fullPrecision inv_rdnetwork = true := by decide +kernel

/-- `rdnetwork.py` takes no maximum / minimum / absolute value and swallows no exception: nothing it computes is clamped -/
theorem rdnetwork_no_clamping : clamp_rdnetwork = [] := by decide +kernel

end Strengths.PyNumeric
