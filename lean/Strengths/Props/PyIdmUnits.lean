/-
Idiom inventory of src/strengths/units.py (generated: `Gen.PyIdioms.inv_units`, regenerated from the source on every run).
-/
import Strengths.Model.PyIdioms

namespace Strengths.PyIdioms
open Strengths.Gen.PyIdioms

/-- `units.py` keeps value semantics: no identity comparison except with `None`, no substring test on a literal, no
`assert`, no `and`/`or` selecting a value, no `*d.values()` (the model compares by value, handles absence through `Option`,
and reads dictionaries by key) -/
theorem units_value_semantic : valueSemantic inv_units = true := by decide +kernel

/-- `units.py` never aliases an array on purpose: no `np.asarray`, `np.frombuffer`, `.view(…)`, `memoryview` — what a function
returns is a fresh object (the model's values are immutable; this is the source fact that lets mutation of a returned
object be ignored) -/
theorem units_no_views : views_units = [] := by decide +kernel

end Strengths.PyIdioms
