/-
C19 — Reaction equations: stoichiometry, order and rate-constant dimensions.

Model: `Strengths.Model.Network` (hand-written after rdnetwork.py / value_processing.py); formulas
`kDimSpace/kDimTime/kDimQty`, `sstoEntry/pstoEntry/dstoEntry` and the source constants are regenerated
from the repository on every run (`Strengths.Gen.Network`).
-/
import Strengths.Proofs.Network

namespace Strengths.C19
open Strengths Strengths.Gen

/-! ## Obligations on the generated source facts -/

/-- the constants the hand-written model hard-codes are the ones in the source: the two separators of
`_fromstring`, its length tests, the accumulation of repeated labels, the text pieces of `to_string`,
which dictionaries `order`/`rorder`/`k*_units_dimensions` sum over, what `split()` passes on, the ratio
taken by `equilibrium_constant`, and the label rules.  Statement text is compared with the function's local variables
renamed `v0, v1, …` in order of first binding, so renaming a local is not a change. -/
theorem source_constants :
    eqSplitSeps = ["+", "->"] ∧
    eqLenTests = ["len(v3)==1", "len(v4)==1", "len(v4)==2", "len(v7)!=2"] ∧
    eqAccumulate = ("v2[v6]=v5", "v2[v6]+=v5") ∧
    eqCoefAssigns = ["v5,v6=1,\"\"", "v5=int(v4[0].strip())"] ∧
    toStringConsts = ["", "+ ", " ", " ", "-> "] ∧
    toStringTests = ["v0[v3]!=0", "notv2", "v0[v3]!=1"] ∧
    kfCountsOver = "_substrates" ∧ krCountsOver = "_products" ∧
    orderOver = "substrates" ∧ rorderOver = "products" ∧
    kRatios = ["self.kf/self.kr", "v3/v4"] ∧ kZeroTests = ["self.kr.value==0", "v4.value==0"] ∧
    labelRaiseConds = ["v1instring.whitespace", "v1in\"+\"", "v1.count(\"->\")>0"] ∧
    validityRaiseConds = ["v0.get(v1.label,None)!=None", "v2.get(v3.label,None)!=None", "v6notinv4", "v6notinv4"] := by
  decide +kernel

/-- `split()` builds (substrates → products, kf, kr = 0) and (products → substrates, kr as kf, kr = 0),
both unlabelled and in the reaction's units system -/
theorem split_source :
    splitFwd = [("kf", "self.kf"), ("kr", "0"), ("label", "None"),
      ("stoichiometry", "[self._substrates,self._products]"), ("units_system", "self.units_system")] ∧
    splitRev = [("kf", "self.kr"), ("kr", "0"), ("label", "None"),
      ("stoichiometry", "[self._products,self._substrates]"), ("units_system", "self.units_system")] := by
  decide +kernel

/-- the rate-constant setters pass the order's dimension and accept single values and dictionaries, not arrays -/
theorem setters_source :
    unitVarSetters.lookup "Reaction.kf" = some ("self.units_system", "self.kf_units_dimensions()", "True", "True", "False") ∧
    unitVarSetters.lookup "Reaction.kr" = some ("self.units_system", "self.kr_units_dimensions()", "True", "True", "False") := by
  decide +kernel

/-- a species, a reaction and a network own their units system: both the constructor and the setter store a COPY of the
object they are given, so an in-place edit of the caller's `UnitsSystem` (or of the shared default argument) after
construction cannot change the units in which an existing object's bare constants were read -/
theorem units_system_is_owned :
    unitsSystemCopied = [("Species", true, true), ("Reaction", true, true), ("RDNetwork", true, true)] := by
  decide +kernel

/-! ## Stoichiometric vectors -/

/-- net change = products − reactants, entry by entry, for every list of species labels -/
theorem dsto_eq (sub prod : Side) (labels : List Label) :
    dstoVec sub prod labels = List.zipWith (· - ·) (pstoVec sub prod labels) (sstoVec sub prod labels) := by
  simp only [dstoVec, pstoVec, sstoVec, dstoEntry, pstoEntry, sstoEntry]
  induction labels with
  | nil => rfl
  | cons l r ih => simp only [List.map_cons, List.zipWith_cons_cons, ih]

/-- `ssto`/`psto` list the coefficient of each asked species (0 when it does not occur) -/
theorem ssto_psto_eq (sub prod : Side) (labels : List Label) :
    sstoVec sub prod labels = labels.map sub.coef ∧ pstoVec sub prod labels = labels.map prod.coef := by
  simp [sstoVec, pstoVec, sstoEntry, pstoEntry]

/-! ## Dimension of the rate constants -/

/-- order `n` ⇒ amount^(1−n) · length^(3n−3) / time -/
theorem k_dim (n : Int) : kDim n = ⟨3 * n - 3, -1, 1 - n⟩ := by
  simp only [kDim, kDimSpace, kDimTime, kDimQty, Dim.mk.injEq, and_true]
  omega

/-- a bare number gets exactly the order's units in the reaction's units system -/
theorem bare_number_gets_k_dim (sys : Sys) (n : Int) (v : Rat) :
    processKInput sys (kDim n) (.scalar (.num v)) = .ok (.scalar ⟨v, ⟨sys, ⟨3 * n - 3, -1, 1 - n⟩⟩⟩) := by
  simp [processKInput, processScalar, k_dim]

/-- a quantity with units is accepted iff its dimension is the order's, and is then kept unchanged -/
theorem uval_accepted_iff (sys : Sys) (n : Int) (x : UVal) :
    (processKInput sys (kDim n) (.scalar (.uval x)) = .ok (.scalar x) ↔ x.u.dim = ⟨3 * n - 3, -1, 1 - n⟩) ∧
    (x.u.dim ≠ ⟨3 * n - 3, -1, 1 - n⟩ → processKInput sys (kDim n) (.scalar (.uval x)) = .error .dimMismatch) := by
  rw [← k_dim]
  constructor
  · constructor
    · intro h
      by_contra hne
      simp [processKInput, processScalar, hne] at h
    · intro h
      simp [processKInput, processScalar, h]
  · intro hne
    simp [processKInput, processScalar, hne]

/-- text with units: rejected when the unit text is unreadable or of another dimension -/
theorem text_other_dim_rejected (sys : Sys) (n : Int) (v : Rat) (us : String) :
    (∀ u, parseUnits us = .ok u → u.dim ≠ ⟨3 * n - 3, -1, 1 - n⟩) →
    (processKInput sys (kDim n) (.scalar (.text v us))).isError = true := by
  intro h
  rw [← k_dim] at h
  simp only [processKInput, processScalar]
  cases hp : parseUnits us with
  | error e => rfl
  | ok u =>
    have := h u hp
    simp [this, Res.isError]

/-- arrays are never accepted as rate constants -/
theorem array_rejected (sys : Sys) (d : Dim) : processKInput sys d .array = .error .badValue := rfl

/-! ## Parsing what was written -/

/-- a term without coefficient, any blanks around the label: coefficient 1 -/
theorem parse_token_label (a w b : List Char) (ha : AllBlank a) (hw : IsWord w) (hb : AllBlank b) :
    parseToken (a ++ w ++ b) = .ok (1, w) := parseToken_label a w b ha hw hb

/-- a term `coefficient label` with any blanks around and at least one between: the coefficient `int()` reads -/
theorem parse_token_coef (a n m w b : List Char) (c : Int) (ha : AllBlank a) (hn : IsWord n) (hm : AllBlank m)
    (hmne : m ≠ []) (hw : IsWord w) (hb : AllBlank b) (hc : pyInt n = some c) :
    parseToken (a ++ n ++ m ++ w ++ b) = .ok (c, w) := parseToken_coef a n m w b c ha hn hm hmne hw hb hc

/-- the decimal text `str(c)` of every integer coefficient is a word that `int()` reads back as `c` -/
theorem coefficient_text (c : Int) : pyInt (pyStrInt c) = some c ∧ IsWord (pyStrInt c) := by
  refine ⟨pyInt_showInt c, showIntChars_ne_nil c, fun x hx => (expChars_props x (showIntChars_mem c x hx)).1⟩

/-- hence: a term written with the decimal text of `c`, any blanks -/
theorem parse_token_render (a m w b : List Char) (c : Int) (ha : AllBlank a) (hm : AllBlank m) (hmne : m ≠ [])
    (hw : IsWord w) (hb : AllBlank b) : parseToken (a ++ pyStrInt c ++ m ++ w ++ b) = .ok (c, w) :=
  parseToken_coef a (pyStrInt c) m w b c ha (coefficient_text c).2 hm hmne hw hb (coefficient_text c).1

/-- a side `t₁ + t₂ + …` whose tokens read as the terms `terms` gives their coefficients with repeats summed;
a side of blanks only is empty -/
theorem parse_side_render (t : List Char) (ts : List (List Char)) (terms : Terms)
    (hplus : ∀ x ∈ t :: ts, '+' ∉ x) (h : List.Forall₂ (fun tok tm => parseToken tok = .ok tm) (t :: ts) terms) :
    parseSide (joinChar '+' t ts) = .ok (sumRepeats terms) := parseSide_terms t ts terms hplus h

theorem parse_side_empty (a : List Char) (ha : AllBlank a) : parseSide a = .ok [] := parseSide_empty a ha

/-- the equation text around its arrow: what the two sides read as (lemma) -/
theorem parse_equation_of_sides (l r : List Char) (sub prod : Side)
    (hl : hasPair '-' '>' l = false) (hr : hasPair '-' '>' r = false)
    (hsl : parseSide l = .ok sub) (hsr : parseSide r = .ok prod) :
    parseEquation (l ++ '-' :: '>' :: r) = .ok (sub, prod) := by
  rw [parseEquation_sides l r hl hr, hsl, hsr]

/-- a written term reads as its coefficient (1 when omitted) and label, and carries neither `+` nor `->` -/
theorem rendered_term (t : RTerm) (h : t.WF) :
    parseToken t.text = .ok t.term ∧ '+' ∉ t.text ∧ hasPair '-' '>' t.text = false := RTerm.render t h

/-- a written side reads as its terms with repeats summed, and carries no `->` (derived from: no label does, and
labels only ever touch blanks, `+`, or the ends of the side) -/
theorem rendered_side (s : RSide) (h : s.WF) :
    parseSide s.text = .ok (sumRepeats s.termList) ∧ hasPair '-' '>' s.text = false := RSide.render s h

/-- `parse_render`: for all term lists `lhs`, `rhs` (`RSide`: no term, or terms `[coefficient] label` joined by `+`)
over labels that are words without `+` and without `->` (`LabelWord`), with ANY blanks (`str.isspace()` characters)
before and after every token and at least one between a coefficient and its label, the text `lhs -> rhs` reads as the
written coefficients with repeats summed.  No hypothesis on the rendered text. -/
theorem parse_render (l r : RSide) (hl : l.WF) (hr : r.WF) :
    parseEquation (l.text ++ '-' :: '>' :: r.text) = .ok (sumRepeats l.termList, sumRepeats r.termList) :=
  parseEquation_render l r hl hr

/-- … and what it reads is a printable pair of dictionaries (distinct keys, label words): the hypotheses of `print_parse` -/
theorem parsed_sides_printable (s : RSide) (h : s.WF) : (sumRepeats s.termList).WF := by
  apply sumRepeats_wf
  cases s with
  | empty a => intro t ht; simp [RSide.termList] at ht
  | terms t ts =>
    intro u hu
    simp only [RSide.termList, List.mem_cons, List.mem_map] at hu
    rcases hu with rfl | ⟨v, hv, rfl⟩
    · exact h.1.w
    · exact (h.2 v hv).w

/-- text without exactly one arrow is refused: none … -/
theorem no_arrow_rejected (s : List Char) (h : hasPair '-' '>' s = false) : parseEquation s = .error .badSyntax := by
  unfold parseEquation
  rw [splitTwo_of_noPair '-' '>' s h]

/-- … or two -/
theorem two_arrows_rejected (a b c : List Char) (ha : hasPair '-' '>' a = false) (hb : hasPair '-' '>' b = false)
    (hc : hasPair '-' '>' c = false) : parseEquation (a ++ '-' :: '>' :: (b ++ '-' :: '>' :: c)) = .error .badSyntax := by
  unfold parseEquation
  rw [splitTwo_append '-' '>' (by decide) a _ ha, splitTwo_append '-' '>' (by decide) b _ hb,
    splitTwo_of_noPair '-' '>' c hc]

/-- per-species coefficient of a parsed side = sum of the coefficients written for that species -/
theorem stoichiometry_repeats_summed (terms : Terms) (l : Label) :
    (sumRepeats terms).coef l = coefSum terms l := coef_sumRepeats terms l

/-- order = sum of all written coefficients -/
theorem order_is_coefficient_sum (terms : Terms) : (sumRepeats terms).order = (terms.map (·.1)).sum :=
  order_sumRepeats terms

example : parseEquation " 2  A+B +	A->  3 C ".toList =
    .ok ([("A".toList, 3), ("B".toList, 1)], [("C".toList, 3)]) := by decide +kernel
example : parseEquation "A-->>B".toList = .ok ([("A-".toList, 1)], [(">B".toList, 1)]) := by decide +kernel
example : (parseEquation "A + -> B".toList).isError = true := by decide +kernel
/-- print / parse on a concrete reaction with a zero and a repeated coefficient -/
example : parseEquation (eqToString [("A".toList, 0), ("B".toList, 12)] [("C".toList, 1)]) =
    .ok ([("B".toList, 12)], [("C".toList, 1)]) := by decide +kernel

/-! ## Splitting, equilibrium constant -/

/-- `print_parse`: for every pair of side dictionaries with distinct keys that are label words (non-empty, no
`str.isspace()` character, no `+`, no `->` — the label rules refuse only the six ASCII blanks and `+`; the rest is what an
equation text can carry), whatever the coefficients (zero entries, also in first position, are not printed), the text
`to_string` prints is accepted by the parser and gives equal `ssto`, `psto`, `dsto` for EVERY list of labels -/
theorem print_parse (sub prod : Side) (hs : sub.WF) (hp : prod.WF) :
    ∃ sub' prod', parseEquation (eqToString sub prod) = .ok (sub', prod') ∧
      ∀ labels : List Label, sstoVec sub' prod' labels = sstoVec sub prod labels ∧
        pstoVec sub' prod' labels = pstoVec sub prod labels ∧ dstoVec sub' prod' labels = dstoVec sub prod labels := by
  obtain ⟨sub', prod', hparse, h1, h2⟩ := parseEquation_toString sub prod hs hp
  refine ⟨sub', prod', hparse, fun labels => ?_⟩
  simp only [sstoVec, pstoVec, dstoVec, h1, h2, and_self]

/-- the zero-coefficient first term (seeded mutant C19_m1): `0 A + B -> C` prints as `B -> C ` and reads back -/
example : parseEquation (eqToString [("A".toList, 0), ("B".toList, 1)] [("C".toList, 1)]) =
    .ok ([("B".toList, 1)], [("C".toList, 1)]) := by decide +kernel

/-- every constant the constructor stores is well-formed (the order's dimension; dictionaries with distinct canonical
keys), whatever form it was given in -/
theorem constructed_constants_wf (sys : Sys) (sub prod : Side) (kf kr : KIn) (label : Option Label) (r : Reaction)
    (h : mkReactionSides sys sub prod kf kr label = .ok r) :
    r.kf.WF (kDim r.sub.order) ∧ r.kr.WF (kDim r.prod.order) ∧ r.sub = sub ∧ r.prod = prod ∧ r.sys = sys := by
  unfold mkReactionSides at h
  cases hl : checkLabel label with
  | error e => simp [hl] at h
  | ok u =>
    simp only [hl] at h
    cases h1 : processKInput sys (kDim sub.order) kf with
    | error e => simp [h1] at h
    | ok f =>
      cases h2 : processKInput sys (kDim prod.order) kr with
      | error e => simp [h1, h2] at h
      | ok b =>
        simp only [h1, h2, Except.ok.injEq] at h
        subst h
        exact ⟨processKInput_wf _ _ _ _ h1, processKInput_wf _ _ _ _ h2, rfl, rfl, rfl⟩

/-- `split_spec`: `split()` of any reaction with well-formed constants — single values or per-environment dictionaries,
the "default" entry being an entry like the others — is: forward = same sides, the same `kf` (same keys in the same
order, same values), `kr = 0` in the reverse order's units; reverse = swapped sides, `kr` as forward constant, `kr = 0`;
both unlabelled, in the reaction's units system -/
theorem split_spec (r : Reaction) (hf : r.kf.WF (kDim r.sub.order)) (hb : r.kr.WF (kDim r.prod.order)) :
    r.split = .ok (⟨r.sys, r.sub, r.prod, r.kf, .scalar ⟨0, ⟨r.sys, kDim r.prod.order⟩⟩, none⟩,
                   ⟨r.sys, r.prod, r.sub, r.kr, .scalar ⟨0, ⟨r.sys, kDim r.sub.order⟩⟩, none⟩) := by
  have h0 : ∀ d, processKInput r.sys d (.scalar (.num 0)) = .ok (.scalar ⟨0, ⟨r.sys, d⟩⟩) := fun d => rfl
  simp only [Reaction.split, mkReactionSides, checkLabel, processKInput_again _ _ _ hf, processKInput_again _ _ _ hb, h0]

/-- hence for every reaction the constructor accepts -/
theorem split_of_constructed (sys : Sys) (sub prod : Side) (kf kr : KIn) (label : Option Label) (r : Reaction)
    (h : mkReactionSides sys sub prod kf kr label = .ok r) :
    ∃ f b, r.split = .ok (f, b) ∧ f.sub = sub ∧ f.prod = prod ∧ f.kf = r.kf ∧ b.sub = prod ∧ b.prod = sub ∧ b.kf = r.kr ∧
      f.kr = .scalar ⟨0, ⟨sys, kDim prod.order⟩⟩ ∧ b.kr = .scalar ⟨0, ⟨sys, kDim sub.order⟩⟩ ∧
      f.label = none ∧ b.label = none ∧ f.sys = sys ∧ b.sys = sys := by
  obtain ⟨hf, hb, rfl, rfl, rfl⟩ := constructed_constants_wf sys sub prod kf kr label r h
  exact ⟨_, _, split_spec r hf hb, rfl, rfl, rfl, rfl, rfl, rfl, rfl, rfl, rfl, rfl, rfl, rfl⟩

example : splitKeys "a , default" = ["a", "default"] := by decide +kernel

/-- equilibrium constant of single-valued constants: none when `kr = 0`, else the quotient -/
theorem K_scalar (r : Reaction) (f b : UVal) (hf : r.kf = .scalar f) (hb : r.kr = .scalar b) :
    r.K = .scalar (if b.v = 0 then none else some (uvalDiv f b)) := by
  simp only [Reaction.K, hf, hb, ratioOrNone]
  by_cases h : b.v = 0 <;> simp [h]

/-- per-environment: one entry per environment named by either constant plus "default", each the quotient of
the two values in that environment (or none when the reverse value is 0) -/
theorem K_dict_entries (r : Reaction) (d : List (String × UVal)) (hf : r.kf = .dict d) :
    ∃ keys : List String, r.K = .dict (keys.map fun i =>
      (i, ratioOrNone (kValueInEnv r.kf i ⟨0, ⟨r.sys, kDim r.sub.order⟩⟩) (kValueInEnv r.kr i ⟨0, ⟨r.sys, kDim r.prod.order⟩⟩))) ∧
      "default" ∈ keys ∧ (∀ k ∈ d.map (·.1), k ∈ keys) ∧ (∀ k ∈ r.kr.keys, k ∈ keys) := by
  simp only [Reaction.K, hf]
  refine ⟨_, rfl, ?_, ?_, ?_⟩
  · split
    · rename_i h; exact List.contains_iff_mem.mp h
    · simp
  · intro k hk
    have hk0 : k ∈ List.map (·.1) d ++ List.filter (fun i => !(List.map (·.1) d).contains i) r.kr.keys :=
      List.mem_append.mpr (Or.inl hk)
    split
    · exact hk0
    · exact List.mem_append.mpr (Or.inl hk0)
  · intro k hk
    have hk0 : k ∈ List.map (·.1) d ++ List.filter (fun i => !(List.map (·.1) d).contains i) r.kr.keys := by
      by_cases hin : k ∈ d.map (·.1)
      · exact List.mem_append.mpr (Or.inl hin)
      · refine List.mem_append.mpr (Or.inr ?_)
        rw [List.mem_filter]; exact ⟨hk, by simpa using hin⟩
    split
    · exact hk0
    · exact List.mem_append.mpr (Or.inl hk0)

/-- the quotient is the ratio of the SI values, in the dimension `dim kf − dim kr` -/
theorem K_is_ratio (f b : UVal) (hf : f.u.sys.valid = true) (hb : b.u.sys.valid = true) (hv : b.v ≠ 0) :
    (uvalDiv f b).si = f.si / b.si ∧ (uvalDiv f b).u.dim = f.u.dim.add b.u.dim.neg := by
  refine ⟨?_, rfl⟩
  simp only [uvalDiv, UVal.si, convFactor_eq_div, siFactor, Dim.add, Dim.neg]
  have a1 := Sys.sSpace_ne hf; have a2 := Sys.sTime_ne hf; have a3 := Sys.sQty_ne hf
  have b1 := Sys.sSpace_ne hb; have b2 := Sys.sTime_ne hb; have b3 := Sys.sQty_ne hb
  rw [zpow_add₀ a1, zpow_add₀ a2, zpow_add₀ a3]
  simp only [zpow_neg]
  have := zpow_ne_zero b.u.dim.space b1; have := zpow_ne_zero b.u.dim.time b2; have := zpow_ne_zero b.u.dim.qty b3
  have := zpow_ne_zero b.u.dim.space a1; have := zpow_ne_zero b.u.dim.time a2; have := zpow_ne_zero b.u.dim.qty a3
  field_simp

/-! ## Network refusals -/

/-- Spec: what makes a network description invalid -/
def InvalidNetwork (d : NetDesc) : Prop :=
  ¬ d.species.Nodup ∨ ¬ ((d.reactions.map (·.1)).filter Option.isSome).Nodup ∨
  ∃ r ∈ d.reactions, ∃ l ∈ r.2.1 ++ r.2.2, some l ∉ d.species

/-- `RDNetwork._assert_validity` raises exactly for a duplicate species label, a duplicate reaction label, or a
reaction naming an undeclared species -/
theorem network_rejects_iff (d : NetDesc) : (assertValidity d).isError = true ↔ InvalidNetwork d := by
  unfold assertValidity InvalidNetwork
  have hu : undeclared d = true ↔ ∃ r ∈ d.reactions, ∃ l ∈ r.2.1 ++ r.2.2, some l ∉ d.species := by
    simp only [undeclared, List.any_eq_true, Bool.or_eq_true, Bool.not_eq_true', List.mem_append]
    constructor
    · rintro ⟨r, hr, h⟩
      refine ⟨r, hr, ?_⟩
      rcases h with ⟨l, hl, hc⟩ | ⟨l, hl, hc⟩
      · exact ⟨l, Or.inl hl, fun hm => by simp_all⟩
      · exact ⟨l, Or.inr hl, fun hm => by simp_all⟩
    · rintro ⟨r, hr, l, hl, hn⟩
      refine ⟨r, hr, ?_⟩
      have hc : d.species.contains (some l) = false := by
        cases hh : d.species.contains (some l) with
        | false => rfl
        | true => exact absurd (List.contains_iff_mem.mp hh) hn
      rcases hl with hl | hl
      · exact Or.inl ⟨l, hl, hc⟩
      · exact Or.inr ⟨l, hl, hc⟩
  rw [← hu, ← dupIn_nil_iff, ← dupIn_nil_iff]
  unfold dupReactionLabels
  by_cases h1 : dupIn d.species [] = true
  · simp [h1, Res.isError]
  · by_cases h2 : dupIn (List.filter Option.isSome (List.map (fun x => x.1) d.reactions)) [] = true
    · simp [h1, h2, Res.isError]
    · by_cases h3 : undeclared d = true
      · simp [h1, h2, h3, Res.isError]
      · simp [h1, h2, h3, Res.isError]

example : (assertValidity ⟨[some ['A'], some ['A']], []⟩).isError = true := by decide +kernel
example : (assertValidity ⟨[some ['A']], [(none, [['B']], [])]⟩).isError = true := by decide +kernel
example : assertValidity ⟨[some ['A'], some ['B']], [(some ['r'], [['A']], [['B']]), (none, [['B']], [])]⟩ = .ok () := by decide +kernel

example : kDim 2 = ⟨3, -1, -1⟩ := by decide
example : kDim 0 = ⟨-3, -1, 1⟩ := by decide

end Strengths.C19
