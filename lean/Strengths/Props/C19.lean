/-
C19 — Reaction equations: stoichiometry, order and rate-constant dimensions.

Model: `Strengths.Model.Network` (hand-written after rdnetwork.py / value_processing.py); formulas
`kDimSpace/kDimTime/kDimQty`, `sstoEntry/pstoEntry/dstoEntry` and the source constants are regenerated
from the repository on every run (`Strengths.Gen.Network`).
-/
import Strengths.Proofs.Network

namespace Strengths.C19
open Strengths Strengths.Gen

/-! ## Obligations on the generated source facts -/

/-- the constants the hand-written model hard-codes are the ones in the source: the two separators of
`_fromstring`, its length tests, the accumulation of repeated labels, the text pieces of `to_string`,
which dictionaries `order`/`rorder`/`k*_units_dimensions` sum over, what `split()` passes on, the ratio
taken by `equilibrium_constant`, and the label rules -/
theorem source_constants :
    eqSplitSeps = ["+", "->"] ∧
    eqLenTests = ["len(tokens)==1", "len(token)==1", "len(token)==2", "len(sides)!=2"] ∧
    eqAccumulate = ("d[label]=coef", "d[label]+=coef") ∧
    eqCoefAssigns = ["coef,label=1,\"\"", "coef=int(token[0].strip())"] ∧
    toStringConsts = ["", "+ ", " ", " ", "-> "] ∧
    toStringTests = ["d[s]!=0", "notfirst", "d[s]!=1"] ∧
    kfCountsOver = "_substrates" ∧ krCountsOver = "_products" ∧
    orderOver = "substrates" ∧ rorderOver = "products" ∧
    kRatios = ["self.kf/self.kr", "vf/vr"] ∧ kZeroTests = ["self.kr.value==0", "vr.value==0"] ∧
    labelRaiseConds = ["cinstring.whitespace", "cin\"+\"", "c.count(\"->\")>0"] ∧
    validityRaiseConds = ["sd.get(s.label,None)!=None", "rd.get(r.label,None)!=None", "rsnotinsl", "rsnotinsl"] := by
  decide +kernel

/-- `split()` builds (substrates → products, kf, kr = 0) and (products → substrates, kr as kf, kr = 0),
both unlabelled and in the reaction's units system -/
theorem split_source :
    splitFwd = [("kf", "self.kf"), ("kr", "0"), ("label", "None"),
      ("stoichiometry", "[self._substrates,self._products]"), ("units_system", "self.units_system")] ∧
    splitRev = [("kf", "self.kr"), ("kr", "0"), ("label", "None"),
      ("stoichiometry", "[self._products,self._substrates]"), ("units_system", "self.units_system")] := by
  decide +kernel

/-- the rate-constant setters pass the order's dimension and accept single values and dictionaries, not arrays -/
theorem setters_source :
    unitVarSetters.lookup "Reaction.kf" = some ("self.units_system", "self.kf_units_dimensions()", "True", "True", "False") ∧
    unitVarSetters.lookup "Reaction.kr" = some ("self.units_system", "self.kr_units_dimensions()", "True", "True", "False") := by
  decide +kernel

/-! ## Stoichiometric vectors -/

/-- net change = products − reactants, entry by entry, for every list of species labels -/
theorem dsto_eq (sub prod : Side) (labels : List Label) :
    dstoVec sub prod labels = List.zipWith (· - ·) (pstoVec sub prod labels) (sstoVec sub prod labels) := by
  simp only [dstoVec, pstoVec, sstoVec, dstoEntry, pstoEntry, sstoEntry]
  induction labels with
  | nil => rfl
  | cons l r ih => simp only [List.map_cons, List.zipWith_cons_cons, ih]

/-- `ssto`/`psto` list the coefficient of each asked species (0 when it does not occur) -/
theorem ssto_psto_eq (sub prod : Side) (labels : List Label) :
    sstoVec sub prod labels = labels.map sub.coef ∧ pstoVec sub prod labels = labels.map prod.coef := by
  simp [sstoVec, pstoVec, sstoEntry, pstoEntry]

/-! ## Dimension of the rate constants -/

/-- order `n` ⇒ amount^(1−n) · length^(3n−3) / time -/
theorem k_dim (n : Int) : kDim n = ⟨3 * n - 3, -1, 1 - n⟩ := by
  simp only [kDim, kDimSpace, kDimTime, kDimQty, Dim.mk.injEq, and_true]
  omega

/-- a bare number gets exactly the order's units in the reaction's units system -/
theorem bare_number_gets_k_dim (sys : Sys) (n : Int) (v : Rat) :
    processUnitVar sys (kDim n) (.scalar (.num v)) = .ok (.scalar ⟨v, ⟨sys, ⟨3 * n - 3, -1, 1 - n⟩⟩⟩) := by
  simp [processUnitVar, processScalar, k_dim]

/-- a quantity with units is accepted iff its dimension is the order's, and is then kept unchanged -/
theorem uval_accepted_iff (sys : Sys) (n : Int) (x : UVal) :
    (processUnitVar sys (kDim n) (.scalar (.uval x)) = .ok (.scalar x) ↔ x.u.dim = ⟨3 * n - 3, -1, 1 - n⟩) ∧
    (x.u.dim ≠ ⟨3 * n - 3, -1, 1 - n⟩ → processUnitVar sys (kDim n) (.scalar (.uval x)) = .error .dimMismatch) := by
  rw [← k_dim]
  constructor
  · constructor
    · intro h
      by_contra hne
      simp [processUnitVar, processScalar, hne] at h
    · intro h
      simp [processUnitVar, processScalar, h]
  · intro hne
    simp [processUnitVar, processScalar, hne]

/-- text with units: rejected when the unit text is unreadable or of another dimension -/
theorem text_other_dim_rejected (sys : Sys) (n : Int) (v : Rat) (us : String) :
    (∀ u, parseUnits us = .ok u → u.dim ≠ ⟨3 * n - 3, -1, 1 - n⟩) →
    (processUnitVar sys (kDim n) (.scalar (.text v us))).isError = true := by
  intro h
  rw [← k_dim] at h
  simp only [processUnitVar, processScalar]
  cases hp : parseUnits us with
  | error e => rfl
  | ok u =>
    have := h u hp
    simp [this, Res.isError]

/-- arrays are never accepted as rate constants -/
theorem array_rejected (sys : Sys) (d : Dim) : processUnitVar sys d .array = .error .badValue := rfl

example : kDim 2 = ⟨3, -1, -1⟩ := by decide
example : kDim 0 = ⟨-3, -1, 1⟩ := by decide

end Strengths.C19
