/-
Numeric inventory of src/strengths/rdsystem.py (generated: `Gen.PyNumeric.inv_rdsystem`, regenerated from the source on every run).
-/
import Strengths.Model.PyNumeric

namespace Strengths.PyNumeric
open Strengths.Gen.PyNumeric

/-- `rdsystem.py` never rounds, truncates, compares with a tolerance, stores numbers in less than 64 bits, or prints them with a
limited number of digits (the model computes its values exactly and its texts through `repr`) -/
theorem rdsystem_full_precision : fullPrecision inv_rdsystem = true := by decide +kernel

/-- `rdsystem.py` takes no maximum / minimum / absolute value and swallows no exception: nothing it computes is clamped -/
theorem rdsystem_no_clamping : clamp_rdsystem = [] := by decide +kernel

end Strengths.PyNumeric
