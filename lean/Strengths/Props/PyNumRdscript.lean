/-
Numeric inventory of src/strengths/rdscript.py (generated: `Gen.PyNumeric.inv_rdscript`, regenerated from the source on every run).
-/
import Strengths.Model.PyNumeric

namespace Strengths.PyNumeric
open Strengths.Gen.PyNumeric

/-- `rdscript.py` never rounds, truncates, compares with a tolerance, stores numbers in less than 64 bits, or prints them with a
limited number of digits (the model computes its values exactly and its texts through `repr`) -/
theorem rdscript_full_precision : fullPrecision inv_rdscript = true := by decide +kernel

/-- `rdscript.py` takes no maximum / minimum / absolute value and swallows no exception: nothing it computes is clamped -/
theorem rdscript_no_clamping : clamp_rdscript = [] := by decide +kernel

end Strengths.PyNumeric
