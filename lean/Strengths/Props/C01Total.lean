/-
C01 (continued) — the Python kinetics functions are TOTAL on valid systems and return amount/time.

`ValidReaction` / `ValidGraph` state what the constructors guarantee (stoichiometric vectors over the network's species,
rate constants of the dimension of their order, volumes / surfaces / distances / diffusion coefficients of their own
dimension) plus positivity of volumes and distances.  Then, for every entry of every valid system:
`kinetics_total_graph`, `kinetics_total_grid` — `compute_dspeciesdt(apply_chemostats=False)` returns, and what it returns has
dimension amount/time; `kinetics_eq_rate_graph_total` (graphs without parallel edges / self-loops),
`kinetics_eq_rate_grid_total` (every valid grid, `V = h³`) — … and its SI value is the rate law.
Grid: every enumerated cell passes the `are_neighbors` re-check (`enumerated_are_neighbors`, through geom's `engine_nbr_iff`
and `are_neighbors_iff`).
-/
import Strengths.Props.C01Dxdtf
import Strengths.Props.C15
namespace Strengths.C01
open Strengths Strengths.Gen Strengths.Spec

/-- every entry of a per-environment property has dimension `d` (what `process_unitvar_input` guarantees) -/
def EnvVal.allDim (v : EnvVal) (d : Dim) : Prop :=
  match v with
  | .single q => q.dim = d
  | .dict es => ∀ p ∈ es, p.2.dim = d

theorem lookup_mem {β : Type} (es : List (String × β)) (k : String) (v : β) (h : es.lookup k = some v) : (k, v) ∈ es := by
  induction es with
  | nil => simp [List.lookup] at h
  | cons p ps ih =>
    obtain ⟨k', v'⟩ := p
    simp only [List.lookup_cons] at h
    by_cases hk : k = k'
    · subst hk
      simp at h
      subst h
      exact List.mem_cons_self
    · have : (k == k') = false := by simpa using hk
      rw [this] at h
      exact List.mem_cons_of_mem _ (ih h)

theorem getValueInEnv_dim (v : EnvVal) (env : String) (d : Dim) (h : EnvVal.allDim v d) : (getValueInEnv v env ⟨0, d⟩).dim = d := by
  cases v with
  | single q => exact h
  | dict es =>
    simp only [getValueInEnv]
    cases h1 : es.lookup env with
    | some q => exact h _ (lookup_mem es env q h1)
    | none =>
      cases h2 : es.lookup "default" with
      | some q => exact h _ (lookup_mem es "default" q h2)
      | none => rfl

/-- a loop `d += term(a)` whose terms all return quantities of the dimension of `d` ends normally with that dimension -/
theorem foldRes_acc_ok {α : Type} (term : α → Res Q) (l : List α) (d0 : Q) (dm : Dim) (h0 : d0.dim = dm)
    (h : ∀ a ∈ l, ∃ t, term a = .ok t ∧ t.dim = dm) :
    ∃ q, foldRes (fun d a => match term a with | .error e => .error e | .ok t => accAdd d t) d0 l = .ok q ∧ q.dim = dm := by
  induction l generalizing d0 with
  | nil => exact ⟨d0, rfl, h0⟩
  | cons a as ih =>
    obtain ⟨t, ht, htd⟩ := h a List.mem_cons_self
    simp only [foldRes, ht, accAdd, Q.add]
    rw [if_pos (h0.trans htd.symm)]
    exact ih _ h0 (fun b hb => h b (List.mem_cons_of_mem _ hb))

/-- what the constructors guarantee about one reaction: vectors over the network's species, constants of the dimension of
their order -/
def ValidReaction (ns : Nat) (r : PyReaction) : Prop :=
  r.sub.length = ns ∧ r.prod.length = ns ∧ EnvVal.allDim r.kf (kfDim (natSum r.sub)) ∧ EnvVal.allDim r.kr (krDim (natSum r.prod))

theorem conc_dim (x : PyState) (V : Q) (k : Nat) (hx : x.dim = Dim.quantity) (hV : V.dim = Dim.volume) :
    ((x.at k).div V).dim = Dim.quantity.add Dim.volume.neg := by
  simp only [Q.div, Q.mul, Q.inv, PyState.at, hx, hV]

/-- `compute_reaction_rates` on a valid system: returns, and both rates are amount/time -/
theorem pyReactionRates_ok (sys : PySys) (r : PyReaction) (i : Nat) (x : PyState)
    (hr : ValidReaction sys.nSpecies r) (hx : x.dim = Dim.quantity) (hVd : (sys.space.volOf i).dim = Dim.volume)
    (hV : (sys.space.volOf i).si ≠ 0) :
    ∃ rf rr, pyReactionRates sys r i x = .ok (rf, rr) ∧ rf.dim = Dim.rate ∧ rr.dim = Dim.rate := by
  obtain ⟨l1, l2, d1, d2⟩ := hr
  unfold pyReactionRates
  simp only
  rw [if_neg (fun h => hV h.2)]
  refine ⟨_, _, rfl, ?_, ?_⟩
  · rw [pyRateLoop_dim _ _ _ _ _ (Dim.quantity.add Dim.volume.neg) (fun s => conc_dim x _ _ hx hVd),
      getValueInEnv_dim _ _ _ d1, hVd, natSum_range r.sub _ l1]
    exact rate_dim_amount_per_time _
  · rw [pyRateLoop_dim _ _ _ _ _ (Dim.quantity.add Dim.volume.neg) (fun s => conc_dim x _ _ hx hVd),
      getValueInEnv_dim _ _ _ d2, hVd, natSum_range r.prod _ l2, ← kf_kr_dim]
    exact rate_dim_amount_per_time _

theorem pyReactionTerm_ok (sys : PySys) (r : PyReaction) (s i : Nat) (x : PyState)
    (hr : ValidReaction sys.nSpecies r) (hx : x.dim = Dim.quantity) (hVd : (sys.space.volOf i).dim = Dim.volume)
    (hV : (sys.space.volOf i).si ≠ 0) :
    ∃ t, pyReactionTerm sys r s i x = .ok t ∧ t.dim = Dim.rate := by
  obtain ⟨rf, rr, h, e1, e2⟩ := pyReactionRates_ok sys r i x hr hx hVd hV
  unfold pyReactionTerm
  rw [h]
  simp only [Q.sub]
  rw [if_pos (e1.trans e2.symm)]
  exact ⟨_, rfl, e1⟩

/-- the reaction loop of a valid system returns a quantity of dimension amount/time -/
theorem pyReactionPart_ok (sys : PySys) (s i : Nat) (x : PyState)
    (hrs : ∀ r ∈ sys.reactions, ValidReaction sys.nSpecies r) (hx : x.dim = Dim.quantity)
    (hVd : (sys.space.volOf i).dim = Dim.volume) (hV : (sys.space.volOf i).si ≠ 0) :
    ∃ d, pyReactionPart sys s i x = .ok d ∧ d.dim = Dim.rate := by
  unfold pyReactionPart
  exact foldRes_acc_ok (fun r => pyReactionTerm sys r s i x) sys.reactions ⟨0, Dim.rate⟩ Dim.rate rfl
    (fun r hr => pyReactionTerm_ok sys r s i x (hrs r hr) hx hVd hV)

/-- what the constructors guarantee about a graph space, plus positivity of volumes and distances -/
def ValidGraph (nodes : List PyNode) (edges : List PyEdge) : Prop :=
  (∀ nd ∈ nodes, nd.vol.dim = Dim.volume ∧ nd.vol.si ≠ 0) ∧
  (∀ e ∈ edges, e.sfc.dim = Dim.surface ∧ e.dst.dim = Dim.length ∧ e.dst.si ≠ 0)

theorem cbrt_volume (v : Q) (r : Rat) (hv : v.dim = Dim.volume) : v.cbrt r = .ok ⟨r, ⟨1, 0, 0⟩⟩ := by
  unfold Q.cbrt
  rw [hv]
  simp [Dim.volume]

theorem dij_dim (hi hj Di Dj : Q) (h1 : hi.dim = ⟨1, 0, 0⟩) (hD : Di.dim = Dim.diffusion) :
    (if (Di.si != 0 && Dj.si != 0) = true then (hi.add! hj).div ((hi.div Di).add! (hj.div Dj)) else ⟨0, Dim.diffusion⟩ : Q).dim
      = Dim.diffusion := by
  split
  · simp only [Q.div, Q.mul, Q.inv, Q.add!, h1, hD, Dim.add, Dim.neg, Dim.diffusion]
    decide
  · rfl

theorem flux_dim (Dij sfc V dst X : Q) (h1 : Dij.dim = Dim.diffusion) (h2 : sfc.dim = Dim.surface) (h3 : V.dim = Dim.volume)
    (h4 : dst.dim = Dim.length) (h5 : X.dim = Dim.quantity) : (((Dij.mul sfc).div (V.mul dst)).mul X).dim = Dim.rate := by
  simp only [Q.mul, Q.div, Q.inv, h1, h2, h3, h4, h5]
  decide

theorem pyDiffusionTerm_dim_ok (out inn : Q) (d : Dim) (h1 : inn.dim = d) (h2 : out.dim = d) :
    ∃ t, pyDiffusionTerm (.ok (out, inn)) = .ok t ∧ t.dim = d := by
  simp only [pyDiffusionTerm, Q.sub]
  rw [if_pos (h1.trans h2.symm)]
  exact ⟨_, rfl, h1⟩

/-- one diffusion term of the graph loop on a valid system: returns, with dimension amount/time -/
theorem pyDiffusionTermGraph_ok (sys : PySys) (nodes : List PyNode) (edges : List PyEdge) (hsp : sys.space = .graph nodes edges)
    (hg : ValidGraph nodes edges) (s i j : Nat) (hi : i < nodes.length) (hj : j ∈ pyGraphNeighbors nodes.length edges i)
    (x : PyState) (hx : x.dim = Dim.quantity) (hD : EnvVal.allDim (sys.dcoef.getD s default) Dim.diffusion) :
    ∃ t, pyDiffusionTerm (pyDiffusionRatesGraph sys nodes edges s i j x) = .ok t ∧ t.dim = Dim.rate := by
  unfold pyGraphNeighbors at hj
  simp only [List.mem_filter, List.mem_range, Bool.and_eq_true, bne_iff_ne, ne_eq] at hj
  obtain ⟨hjn, _, hsome⟩ := hj
  obtain ⟨e, he⟩ := Option.isSome_iff_exists.1 hsome
  have hem : e ∈ edges := List.mem_of_find?_eq_some he
  obtain ⟨es1, es2, es3⟩ := hg.2 e hem
  have hni : nodes.getD i default ∈ nodes := by
    rw [List.getD_eq_getElem?_getD, List.getElem?_eq_getElem hi]; exact List.getElem_mem hi
  have hnj : nodes.getD j default ∈ nodes := by
    rw [List.getD_eq_getElem?_getD, List.getElem?_eq_getElem hjn]; exact List.getElem_mem hjn
  obtain ⟨vi1, vi2⟩ := hg.1 _ hni
  obtain ⟨vj1, vj2⟩ := hg.1 _ hnj
  unfold pyDiffusionRatesGraph
  rw [he]
  simp only [cbrt_volume _ _ vi1, cbrt_volume _ _ vj1]
  have hz : ¬ ((nodes.getD i default).vol.si * e.dst.si = 0 ∨ (nodes.getD j default).vol.si * e.dst.si = 0) := by
    intro h
    rcases h with h | h
    · exact (mul_ne_zero vi2 es3) h
    · exact (mul_ne_zero vj2 es3) h
  rw [if_neg hz]
  have hDi : (pyDpair sys s i j).1.dim = Dim.diffusion := getValueInEnv_dim _ _ _ hD
  have hdij := dij_dim ⟨(nodes.getD i default).edge, ⟨1, 0, 0⟩⟩ ⟨(nodes.getD j default).edge, ⟨1, 0, 0⟩⟩
    (pyDpair sys s i j).1 (pyDpair sys s i j).2 rfl hDi
  have hxd : ∀ k, (x.at k).dim = Dim.quantity := fun k => hx
  exact pyDiffusionTerm_dim_ok _ _ Dim.rate
    (flux_dim _ _ _ _ _ hdij es1 vj1 es2 (hxd _)) (flux_dim _ _ _ _ _ hdij es1 vi1 es2 (hxd _))

/-- **totality and dimension on graphs**: on a valid system (dimensions as the constructors give them, positive volumes and
distances) `compute_dspeciesdt(apply_chemostats=False)` RETURNS for every entry, and what it returns has dimension
amount/time -/
theorem kinetics_total_graph (sys : PySys) (nodes : List PyNode) (edges : List PyEdge) (hsp : sys.space = .graph nodes edges)
    (hg : ValidGraph nodes edges) (hrs : ∀ r ∈ sys.reactions, ValidReaction sys.nSpecies r)
    (s i : Nat) (hs : s < sys.nSpecies) (hi : i < nodes.length) (x : PyState) (hx : x.dim = Dim.quantity)
    (hD : EnvVal.allDim (sys.dcoef.getD s default) Dim.diffusion) :
    ∃ q, pyDspeciesdt sys s i x false = .ok q ∧ q.dim = Dim.rate := by
  have hni : nodes.getD i default ∈ nodes := by
    rw [List.getD_eq_getElem?_getD, List.getElem?_eq_getElem hi]; exact List.getElem_mem hi
  obtain ⟨vd, vs⟩ := hg.1 _ hni
  have hVd : (sys.space.volOf i).dim = Dim.volume := by rw [hsp]; exact vd
  have hV : (sys.space.volOf i).si ≠ 0 := by rw [hsp]; exact vs
  have hsize : sys.space.size = nodes.length := by rw [hsp]; rfl
  obtain ⟨d1, h1, e1⟩ := pyReactionPart_ok sys s i x hrs hx hVd hV
  have h2 : ∃ q, pyDiffusionPart sys s i x d1 = .ok q ∧ q.dim = Dim.rate := by
    unfold pyDiffusionPart
    rw [hsp]
    exact foldRes_acc_ok (fun j => pyDiffusionTerm (pyDiffusionRatesGraph sys nodes edges s i j x)) _ d1 Dim.rate e1
      (fun j hj => pyDiffusionTermGraph_ok sys nodes edges hsp hg s i j hi hj x hx hD)
  obtain ⟨q, hq, eq⟩ := h2
  refine ⟨q, ?_, eq⟩
  unfold pyDspeciesdt
  rw [if_neg (by rw [hsize]; omega), h1]
  simp only [hq, Bool.false_and, Bool.false_eq_true, if_false]

/-- **kinetics_eq_rate on simple graphs, total form**: on a valid system over a graph without parallel edges and self-loops
every entry is returned, has dimension amount/time, and its SI value is the rate law -/
theorem kinetics_eq_rate_graph_total (sys : PySys) (nodes : List PyNode) (edges : List PyEdge) (hsp : sys.space = .graph nodes edges)
    (hg : ValidGraph nodes edges) (hse : SimpleEdges nodes.length edges) (hrs : ∀ r ∈ sys.reactions, ValidReaction sys.nSpecies r)
    (s i : Nat) (hs : s < sys.nSpecies) (hi : i < nodes.length) (x : PyState) (hx : x.dim = Dim.quantity)
    (hD : EnvVal.allDim (sys.dcoef.getD s default) Dim.diffusion) :
    ∃ q, pyDspeciesdt sys s i x false = .ok q ∧ q.dim = Dim.rate ∧
      q.si = rate (physOfPy sys (fun k => graphFaces (edgesSI edges) k)) (stOf sys.space.size x) s i := by
  obtain ⟨q, hq, hd⟩ := kinetics_total_graph sys nodes edges hsp hg hrs s i hs hi x hx hD
  exact ⟨q, hq, hd, kinetics_eq_rate_graph_simple sys nodes edges hsp hse s i hi x q hq⟩

end Strengths.C01

namespace Strengths.C01
open Strengths Strengths.Gen Strengths.Spec Strengths.C15

/-- my model of `are_neighbors` on indices is geom's distance test on the coordinates -/
theorem kinAreNeighbors_eq {g : GridShape} (hv : g.valid = true) (i j : Nat) :
    kinAreNeighbors g i j = areNbrCoords g (coordsOf g i) (coordsOf g j) := by
  obtain ⟨a1, a2, a3⟩ := pyCoords_cast hv i
  obtain ⟨b1, b2, b3⟩ := pyCoords_cast hv j
  have ci := cellCoords_cast g i
  have cj := cellCoords_cast g j
  unfold kinAreNeighbors areNbrCoords
  simp only [coordsOf_eq, ci, cj, a1, a2, a3, b1, b2, b3, areNbrDist0, areNbrDist1, areNbrDist2, areNbrWrap0, areNbrWrap1,
    areNbrWrap2, areNbrTest]


/-- every cell the Python grid loop visits passes the `are_neighbors` re-check of `compute_diffusion_rates` -/
theorem enumerated_are_neighbors {g : GridShape} (hv : g.valid = true) {i j : Nat} (hi : i < g.size)
    (hj : j ∈ pyGridNeighbors g i) : kinAreNeighbors g i j = true := by
  rw [pyGridNeighbors_eq hv hi, List.mem_filter] at hj
  obtain ⟨hm, hne⟩ := hj
  have hne' : j ≠ i := by simpa using hne
  rw [← engine_slots_are_spec_nbrs hv hi] at hm
  simp only [List.mem_filterMap, List.mem_range] at hm
  obtain ⟨n, hn, hget⟩ := hm
  have hjs : j < g.size := (nbr_involutive hv hi hn hget).2
  have hadj := (engine_nbr_iff hv hi hjs).1 ⟨n, hn, hget⟩
  have hsz : ((g.size : Nat) : Int) = (g.w : Int) * g.h * g.d := size_cast g
  have hiR : (0 : Int) ≤ (i : Int) ∧ (i : Int) < (g.w : Int) * g.h * g.d := ⟨Int.natCast_nonneg _, by rw [← hsz]; exact_mod_cast hi⟩
  have hjR : (0 : Int) ≤ (j : Int) ∧ (j : Int) < (g.w : Int) * g.h * g.d := ⟨Int.natCast_nonneg _, by rw [← hsz]; exact_mod_cast hjs⟩
  obtain ⟨gi, ci⟩ := coordsOf_inGrid hv hiR
  obtain ⟨gj, cj⟩ := coordsOf_inGrid hv hjR
  rw [kinAreNeighbors_eq hv, are_neighbors_iff g gi gj]
  refine ⟨hadj, ?_⟩
  intro hc
  apply hne'
  have : (j : Int) = (i : Int) := by rw [← ci, ← cj, hc]
  exact_mod_cast this

theorem kgrid_dim (h Di Dj X : Q) (h1 : h.dim = ⟨1, 0, 0⟩) (hD : Di.dim = Dim.diffusion) (hX : X.dim = Dim.quantity) :
    ((if (Di.si != 0 && Dj.si != 0) = true then Q.rdiv 2 ((h.npow 2).mul ((Q.rdiv 1 Di).add! (Q.rdiv 1 Dj)))
        else ⟨0, ⟨0, -1, 0⟩⟩ : Q).mul X).dim = Dim.rate := by
  split
  · simp only [Q.mul, Q.rdiv, Q.npow, Q.add!, h1, hD, hX]
    decide
  · simp only [Q.mul, hX]
    decide

/-- one diffusion term of the grid loop on a valid system: returns, with dimension amount/time -/
theorem pyDiffusionTermGrid_ok (sys : PySys) (g : GridShape) (vol : Q) (edge : Rat) (env : List Nat)
    (hv : g.valid = true) (hvd : vol.dim = Dim.volume) (he : edge ≠ 0) (s i j : Nat) (hi : i < g.size)
    (hj : j ∈ pyGridNeighbors g i) (x : PyState) (hx : x.dim = Dim.quantity)
    (hD : EnvVal.allDim (sys.dcoef.getD s default) Dim.diffusion) :
    ∃ t, pyDiffusionTerm (pyDiffusionRatesGrid sys g vol edge s i j x) = .ok t ∧ t.dim = Dim.rate := by
  unfold pyDiffusionRatesGrid
  rw [enumerated_are_neighbors hv hi hj]
  simp only [Bool.not_true, Bool.false_eq_true, if_false, cbrt_volume _ _ hvd]
  have hz : ¬ ((((pyDpair sys s i j).1.si != 0 && (pyDpair sys s i j).2.si != 0) = true) ∧ edge = 0) := fun h => he h.2
  rw [if_neg (by simpa using hz)]
  have hDi : (pyDpair sys s i j).1.dim = Dim.diffusion := getValueInEnv_dim _ _ _ hD
  have hxd : ∀ k, (x.at k).dim = Dim.quantity := fun k => hx
  exact pyDiffusionTerm_dim_ok _ _ Dim.rate
    (kgrid_dim ⟨edge, ⟨1, 0, 0⟩⟩ _ _ _ rfl hDi (hxd _)) (kgrid_dim ⟨edge, ⟨1, 0, 0⟩⟩ _ _ _ rfl hDi (hxd _))

/-- **totality and dimension on grids**: on a valid system over any valid grid `compute_dspeciesdt(apply_chemostats=False)`
RETURNS for every entry, with dimension amount/time -/
theorem kinetics_total_grid (sys : PySys) (g : GridShape) (vol : Q) (edge : Rat) (env : List Nat)
    (hsp : sys.space = .grid g vol edge env) (hv : g.valid = true) (hvd : vol.dim = Dim.volume) (hvs : vol.si ≠ 0) (he : edge ≠ 0)
    (hrs : ∀ r ∈ sys.reactions, ValidReaction sys.nSpecies r)
    (s i : Nat) (hs : s < sys.nSpecies) (hi : i < g.size) (x : PyState) (hx : x.dim = Dim.quantity)
    (hD : EnvVal.allDim (sys.dcoef.getD s default) Dim.diffusion) :
    ∃ q, pyDspeciesdt sys s i x false = .ok q ∧ q.dim = Dim.rate := by
  have hVd : (sys.space.volOf i).dim = Dim.volume := by rw [hsp]; exact hvd
  have hV : (sys.space.volOf i).si ≠ 0 := by rw [hsp]; exact hvs
  have hsize : sys.space.size = g.size := by rw [hsp]; rfl
  obtain ⟨d1, h1, e1⟩ := pyReactionPart_ok sys s i x hrs hx hVd hV
  have h2 : ∃ q, pyDiffusionPart sys s i x d1 = .ok q ∧ q.dim = Dim.rate := by
    unfold pyDiffusionPart
    rw [hsp]
    simp only [pyGridSrc_eq hv i]
    exact foldRes_acc_ok (fun j => pyDiffusionTerm (pyDiffusionRatesGrid sys g vol edge s i j x)) _ d1 Dim.rate e1
      (fun j hj => pyDiffusionTermGrid_ok sys g vol edge env hv hvd he s i j hi hj x hx hD)
  obtain ⟨q, hq, eq⟩ := h2
  refine ⟨q, ?_, eq⟩
  unfold pyDspeciesdt
  rw [if_neg (by rw [hsize]; omega), h1]
  simp only [hq, Bool.false_and, Bool.false_eq_true, if_false]

/-- **kinetics_eq_rate on grids, total form**: on a valid system over any valid grid (cubic cells, `V = h³`) every entry is
returned, has dimension amount/time, and its SI value is the rate law -/
theorem kinetics_eq_rate_grid_total (sys : PySys) (g : GridShape) (vol : Q) (edge : Rat) (env : List Nat)
    (hsp : sys.space = .grid g vol edge env) (hv : g.valid = true) (hvd : vol.dim = Dim.volume) (hV : vol.si = edge ^ 3) (he : edge ≠ 0)
    (hrs : ∀ r ∈ sys.reactions, ValidReaction sys.nSpecies r)
    (s i : Nat) (hs : s < sys.nSpecies) (hi : i < g.size) (x : PyState) (hx : x.dim = Dim.quantity)
    (hD : EnvVal.allDim (sys.dcoef.getD s default) Dim.diffusion) :
    ∃ q, pyDspeciesdt sys s i x false = .ok q ∧ q.dim = Dim.rate ∧
      q.si = rate (physOfPy sys (fun k => gridFaces g.w g.h g.d g.px g.py g.pz edge k)) (stOf sys.space.size x) s i := by
  have hvs : vol.si ≠ 0 := by rw [hV]; exact pow_ne_zero 3 he
  obtain ⟨q, hq, hd⟩ := kinetics_total_grid sys g vol edge env hsp hv hvd hvs he hrs s i hs hi x hx hD
  exact ⟨q, hq, hd, kinetics_eq_rate_grid sys g vol edge env hsp hv hV s i hi x q hq⟩

end Strengths.C01
