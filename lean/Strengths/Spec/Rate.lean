/-
Spec of C01: the deterministic rate law, written once as the closed formula of the statement,
independently of the loops of the Python kinetics functions and of the native engine.

  rate P x s i =  Σ_r [ (ν'_{r,s} − ν_{r,s}) · kf_r(env i) · V_i · Π_{s'} (x_{s',i}/V_i)^{ν_{r,s'}}
                       + (ν_{r,s} − ν'_{r,s}) · kr_r(env i) · V_i · Π_{s'} (x_{s',i}/V_i)^{ν'_{r,s'}} ]
               +  Σ_{(j,S,d) ∈ faces i}  D̄_s(i,j) · S/d · (x_{s,j}/V_j − x_{s,i}/V_i)

with D̄ = (h_i + h_j)/(h_i/D_i + h_j/D_j), zero if either coefficient is zero.  All values are SI.
`D̄·S/(d·V_i)` is the first-order constant of the statement ("contact surface / (centre distance × source
volume)"); the exchange with a neighbour is `x_j·D̄S/(dV_j) − x_i·D̄S/(dV_i)`.
Core Lean only.
-/
import Strengths.Model.Basic

namespace Strengths.Spec

/-- an interface of a cell: the cell on the other side, contact surface, centre distance -/
structure Face where
  nbr : Nat
  sfc : Rat
  dst : Rat
  deriving Repr, DecidableEq

/-- a (reversible) reaction: substrate and product coefficients per species, constants per environment -/
structure Reac where
  sub : Nat → Nat
  prod : Nat → Nat
  kf : Nat → Rat
  kr : Nat → Rat

/-- a physical reaction-diffusion system (SI values) -/
structure Phys where
  nSpecies : Nat
  nCells : Nat
  nReacs : Nat
  reac : Nat → Reac
  /-- environment index of a cell -/
  env : Nat → Nat
  /-- volume of a cell, and its edge (`edge i ^ 3 = vol i`) -/
  vol : Nat → Rat
  edge : Nat → Rat
  /-- diffusion coefficient of a species in an environment -/
  dcoef : Nat → Nat → Rat
  /-- interfaces of a cell (with multiplicity) -/
  faces : Nat → List Face

/-- a state: amount of species `s` in cell `i` is `x i s` -/
abbrev St := Nat → Nat → Rat

def sumL (l : List Rat) : Rat := l.foldr (· + ·) 0
def prodL (l : List Rat) : Rat := l.foldr (· * ·) 1

/-- interface diffusivity: size-weighted harmonic mean of the two coefficients, zero if either is zero -/
def dbar (hi hj Di Dj : Rat) : Rat :=
  if Di = 0 ∨ Dj = 0 then 0 else (hi + hj) / (hi / Di + hj / Dj)

/-- concentration of species `s` in cell `i` -/
def conc (P : Phys) (x : St) (i s : Nat) : Rat := x i s / P.vol i

/-- mass action: constant × cell volume × product of reactant concentrations to their coefficients -/
def massAction (P : Phys) (x : St) (i : Nat) (k : Rat) (ν : Nat → Nat) : Rat :=
  k * P.vol i * prodL ((List.range P.nSpecies).map fun s => conc P x i s ^ ν s)

def reactionPart (P : Phys) (x : St) (s i : Nat) : Rat :=
  sumL ((List.range P.nReacs).map fun r =>
    (((P.reac r).prod s : Rat) - ((P.reac r).sub s : Rat)) * massAction P x i ((P.reac r).kf (P.env i)) (P.reac r).sub +
    (((P.reac r).sub s : Rat) - ((P.reac r).prod s : Rat)) * massAction P x i ((P.reac r).kr (P.env i)) (P.reac r).prod)

def diffusionPart (P : Phys) (x : St) (s i : Nat) : Rat :=
  sumL ((P.faces i).map fun f =>
    dbar (P.edge i) (P.edge f.nbr) (P.dcoef s (P.env i)) (P.dcoef s (P.env f.nbr)) * f.sfc / f.dst *
      (conc P x f.nbr s - conc P x i s))

/-- the rate of change of the amount of species `s` in cell `i` -/
def rate (P : Phys) (x : St) (s i : Nat) : Rat := reactionPart P x s i + diffusionPart P x s i

/-! ### interfaces of the two kinds of space -/

/-- graph: every incident edge, with multiplicity (a self-loop is incident twice) -/
def graphFaces (edges : List (Nat × Nat × Rat × Rat)) (i : Nat) : List Face :=
  edges.flatMap fun (a, b, sfc, dst) =>
    (if a = i then [⟨b, sfc, dst⟩] else []) ++ (if b = i then [⟨a, sfc, dst⟩] else [])

/-- one step along an axis of length `len` from coordinate `c`: reflecting walls have no neighbour,
periodic axes wrap around -/
def axisStep (len : Nat) (periodic : Bool) (c : Nat) (plus : Bool) : Option Nat :=
  if plus then (if c + 1 < len then some (c + 1) else if periodic then some 0 else none)
  else (if 0 < c then some (c - 1) else if periodic then some (len - 1) else none)

/-- grid of `w × h × d` cubic cells, cell `i` at `(i % w, (i / w) % h, i / (w·h))`: the six-neighbourhood
in the order +x, −x, +y, −y, +z, −z -/
def gridNbrs (w h d : Nat) (px py pz : Bool) (i : Nat) : List Nat :=
  let x := i % w
  let y := (i / w) % h
  let z := i / (w * h)
  let idx (x y z : Nat) : Nat := x + w * (y + h * z)
  [(axisStep w px x true).map (idx · y z), (axisStep w px x false).map (idx · y z),
   (axisStep h py y true).map (idx x · z), (axisStep h py y false).map (idx x · z),
   (axisStep d pz z true).map (idx x y ·), (axisStep d pz z false).map (idx x y ·)].filterMap id

/-- grid faces: contact surface `h²`, centre distance `h` -/
def gridFaces (w h d : Nat) (px py pz : Bool) (edge : Rat) (i : Nat) : List Face :=
  (gridNbrs w h d px py pz i).map fun j => ⟨j, edge * edge, edge⟩

end Strengths.Spec
