/-
Driver operation `build_system`: a description (units declared / inherited at every level, bare numbers and
explicit quantities) → the system it denotes, in SI (C04).

  {"op":"build_system","parent":{sys},"edges_si":[rat…],"desc":
     {"units": UD, "network": {"units": UD, "envs": [..]|null,
        "species":[{"units":UD,"D":EN|null,"density":EN|null,"chstt": null|bool|[[label,bool]…]}],
        "reactions":[{"units":UD,"sub":[…],"prod":[…],"kf":EN|null,"kr":EN|null}]},
      "space": {"kind":"grid","units":UD,"w","h","d","px","py","pz","env": null|n|[…],"vol":NUM|null}
             | {"kind":"graph","units":UD,"nodes":[{"units":UD,"vol":NUM|null,"env":n|null}],
                "edges":[{"units":UD,"i","j","sfc":NUM|null,"dst":NUM|null}]},
      "state": null|[rat…], "chem": null|[int…]}}
  UD  = null | "inherit" | "default" | {"space":…,"time":…,"quantity":…} (any subset) | any other string
  NUM = {"bare": rat} | {"num": rat, "unit": "unit text"}          EN = NUM | {"dict": [[key, NUM]…]}
-/
import Strengths.Driver.Kinetics
import Strengths.Model.Build

namespace Strengths.Driver
open Lean Strengths.Gen

def getUDecl (j : Json) (k : String) : Except String UDecl := do
  match fieldOpt j k with
  | none => return .absent
  | some (.str "inherit") => return .inherit
  | some (.str "default") => return .dflt
  | some (.str _) => return .other
  | some (.obj o) =>
    let kv ← o.toList.mapM fun (key, v) => do pure (key, ← getStr v)
    return .dict kv
  | some _ => return .other

/-- NUM; an explicit quantity whose unit text does not parse is reported as a model-level error -/
def getNum (j : Json) : Except String (Res Num) := do
  match fieldOpt j "bare" with
  | some b => return .ok (.bare (← getRat b))
  | none =>
    let v ← getRat (← field j "num")
    match parseUnits (← getStr (← field j "unit")) with
    | .error e => return .error e
    | .ok u => return .ok (.expl v u)

def getEnvNum (j : Json) : Except String (Res EnvNum) := do
  match fieldOpt j "dict" with
  | some d =>
    let es ← (← getArr d).mapM fun p => do
      match ← getArr p with
      | [k, v] => pure (← getStr k, ← getNum v)
      | _ => throw "dict entry must be [key, NUM]"
    match es.find? (fun p => p.2.isError) with
    | some (_, .error e) => return .error e
    | _ => return .ok (.dict (es.filterMap fun p => match p.2 with | .ok n => some (p.1, n) | .error _ => none))
  | none =>
    match ← getNum j with
    | .error e => return .error e
    | .ok n => return .ok (.single n)

def optField {α} (j : Json) (k : String) (f : Json → Except String (Res α)) : Except String (Res (Option α)) := do
  match fieldOpt j k with
  | none => return .ok none
  | some v =>
    match ← f v with
    | .error e => return .error e
    | .ok a => return .ok (some a)

/-- collect model-level errors of the sub-parsers: first error wins -/
def seqRes {α} (l : List (Res α)) : Res (List α) := mapRes id l

def getChemD (j : Json) : Except String ChemD := do
  match fieldOpt j "chstt" with
  | none => return .none
  | some (.bool b) => return .flag b
  | some v =>
    let es ← (← getArr v).mapM fun p => do
      match ← getArr p with
      | [k, b] => pure (← getStr k, ← getBool b)
      | _ => throw "chstt entry must be [label, bool]"
    return .dict es

def getSystemD (j : Json) : Except String (Res SystemD) := do
  let nj ← field j "network"
  let species ← (← getArr (← field nj "species")).mapM fun sj => do
    let dd ← optField sj "D" getEnvNum
    let cc ← optField sj "density" getEnvNum
    let ch ← getChemD sj
    let u ← getUDecl sj "units"
    match dd, cc with
    | .error e, _ => pure (Except.error e)
    | _, .error e => pure (Except.error e)
    | .ok d, .ok c => pure (Except.ok ({ units := u, D := d, density := c, chstt := ch } : SpeciesD))
  let reactions ← (← getArr (← field nj "reactions")).mapM fun rj => do
    let kf ← optField rj "kf" getEnvNum
    let kr ← optField rj "kr" getEnvNum
    let u ← getUDecl rj "units"
    let sub ← getNatList (← field rj "sub")
    let prod ← getNatList (← field rj "prod")
    match kf, kr with
    | .error e, _ => pure (Except.error e)
    | _, .error e => pure (Except.error e)
    | .ok f, .ok r => pure (Except.ok ({ units := u, sub := sub, prod := prod, kf := f, kr := r } : ReactionD))
  let envs ← match fieldOpt nj "envs" with
    | none => pure none
    | some e => do pure (some (← getStrList e))
  let sp ← field j "space"
  let kind ← getStr (← field sp "kind")
  let su ← getUDecl sp "units"
  let space : Res SpaceD ← match kind with
    | "grid" => do
      let g ← getShape sp
      let env ← match fieldOpt sp "env" with
        | none => pure CellEnvD.none
        | some (.arr a) => do pure (CellEnvD.map (← a.toList.mapM getNat))
        | some v => do pure (CellEnvD.all (← getNat v))
      match ← optField sp "vol" getNum with
      | .error e => pure (Except.error e)
      | .ok v => pure (Except.ok (SpaceD.grid su g env v))
    | "graph" => do
      let nodes ← (← getArr (← field sp "nodes")).mapM fun nd => do
        let u ← getUDecl nd "units"
        let env ← match fieldOpt nd "env" with
          | none => pure none
          | some v => do pure (some (← getNat v))
        match ← optField nd "vol" getNum with
        | .error e => pure (Except.error e)
        | .ok v => pure (Except.ok ({ units := u, vol := v, env := env } : NodeD))
      let edges ← (← getArr (← field sp "edges")).mapM fun ed => do
        let u ← getUDecl ed "units"
        let s ← optField ed "sfc" getNum
        let l ← optField ed "dst" getNum
        let a ← getNat (← field ed "i")
        let b ← getNat (← field ed "j")
        match s, l with
        | .error e, _ => pure (Except.error e)
        | _, .error e => pure (Except.error e)
        | .ok s, .ok l => pure (Except.ok ({ units := u, i := a, j := b, sfc := s, dst := l } : EdgeD))
      match seqRes nodes, seqRes edges with
      | .error e, _ => pure (Except.error e)
      | _, .error e => pure (Except.error e)
      | .ok ns, .ok es => pure (Except.ok (SpaceD.graph su ns es))
    | _ => throw s!"unknown space kind {kind}"
  let state ← match fieldOpt j "state" with
    | none => pure none
    | some s => do pure (some (← getRatList s))
  let chem ← match fieldOpt j "chem" with
    | none => pure none
    | some s => do pure (some (← getIntList s))
  let u ← getUDecl j "units"
  let nu ← getUDecl nj "units"
  match seqRes species, seqRes reactions, space with
  | .error e, _, _ => return .error e
  | _, .error e, _ => return .error e
  | _, _, .error e => return .error e
  | .ok sl, .ok rl, .ok spc =>
    return .ok { units := u, net := { units := nu, envs := envs, species := sl, reactions := rl }, space := spc, state := state, chem := chem }

def envValJson : EnvVal → Json
  | .single q => Json.mkObj [("q", qJson q)]
  | .dict es => Json.mkObj [("dict", Json.arr (es.map fun (k, q) => Json.arr #[Json.str k, qJson q]).toArray)]

def pySpaceJson : PySpace → Json
  | .grid g v h env => Json.mkObj [("kind", "grid"), ("w", (g.w : Nat)), ("h", (g.h : Nat)), ("d", (g.d : Nat)), ("px", g.px), ("py", g.py),
      ("pz", g.pz), ("vol", qJson v), ("edge", ratJson h), ("env", natListJson env)]
  | .graph ns es => Json.mkObj [("kind", "graph"),
      ("nodes", Json.arr (ns.map fun n => Json.mkObj [("vol", qJson n.vol), ("edge", ratJson n.edge), ("env", (n.env : Nat))]).toArray),
      ("edges", Json.arr (es.map fun e => Json.mkObj [("i", (e.i : Nat)), ("j", (e.j : Nat)), ("sfc", qJson e.sfc), ("dst", qJson e.dst)]).toArray)]

def pySysJson (s : PySys) : Json :=
  Json.mkObj [("ns", (s.nSpecies : Nat)), ("envs", Json.arr (s.envs.map Json.str).toArray), ("D", Json.arr (s.dcoef.map envValJson).toArray),
    ("reactions", Json.arr (s.reactions.map fun r => Json.mkObj [("sub", natListJson r.sub), ("prod", natListJson r.prod),
        ("kf", envValJson r.kf), ("kr", envValJson r.kr)]).toArray),
    ("space", pySpaceJson s.space), ("chem", intListJson s.chem)]

def opBuildSystem : Handler := fun j => do
  let parent ← getSys (← field j "parent")
  let edges ← getRatList (← field j "edges_si")
  match ← getSystemD (← field j "desc") with
  | .error e => return Json.mkObj [("error", errName e)]
  | .ok d =>
    match buildSystem parent edges d with
    | .error e => return Json.mkObj [("error", errName e)]
    | .ok b => return Json.mkObj [("ok", Json.mkObj [("sys", pySysJson b.sys), ("state", ratListJson b.state)])]

def buildOps : List (String × Handler) := [("build_system", opBuildSystem)]

end Strengths.Driver
