/- Driver operations for coarse-graining (C16). -/
import Strengths.Driver.Json
import Strengths.Driver.Grid
import Strengths.Model.Coarsegrain

namespace Strengths.Driver
open Lean

/-- index map entries: JSON integers are Python `int`s, anything else (null) is "not an int" -/
def getImEntry (j : Json) : Option Int :=
  match j with
  | .num n => if n.exponent == 0 then some n.mantissa else none
  | _ => none

def getIm (j : Json) : Except String (List (Option Int)) := do
  return (← getArr j).map getImEntry

def edgeJson (e : CgEdge) : Json :=
  Json.arr #[intJson e.i, intJson e.j, ratJson e.surface, ratJson e.dist]

def opCgCheck : Handler := fun j => do
  let r := checkIndexMap (← getIm (← field j "im")) (← getIntList (← field j "envs"))
  return resJson (fun _ => Json.null) r

def opToGraph : Handler := fun j => do
  let g ← getShape (← field j "shape")
  let gr := cgGridToGraph g (← getRat (← field j "h")) (← getIntList (← field j "envs"))
  return Json.mkObj [("ok", Json.mkObj [("vols", ratListJson gr.vols), ("envs", intListJson gr.envs),
    ("edges", Json.arr (gr.edges.map edgeJson).toArray)])]

def opCoarsegrain : Handler := fun j => do
  let g ← getShape (← field j "shape")
  let r := coarsegrainSystem g (← getRat (← field j "h")) (← getSys (← field j "uv")) (← getSys (← field j "ug"))
    (← getIntList (← field j "envs")) (← getNat (← field j "ns")) (← getRatList (← field j "state"))
    (← getIntList (← field j "chem")) (← getIm (← field j "im"))
  return resJson (fun (c : CgSystem) => Json.mkObj [("vols", ratListJson c.space.vols), ("envs", intListJson c.space.envs),
    ("edges", Json.arr (c.space.edges.map edgeJson).toArray), ("state", ratListJson c.state), ("chem", intListJson c.chem),
    ("cx", ratListJson c.space.cx), ("cy", ratListJson c.space.cy), ("cz", ratListJson c.space.cz),
    ("counts", ratListJson c.space.counts)]) r

def opUncoarsegrain : Handler := fun j => do
  let r := uncoarsegrain (← getNat (← field j "N")) (← getNat (← field j "ns")) (← getNat (← field j "ncg"))
    (← getNat (← field j "nf")) (← getIntList (← field j "im")) (← getRatList (← field j "cg"))
  return resJson ratListJson r

def coarseOps : List (String × Handler) :=
  [("cg_check", opCgCheck), ("to_graph", opToGraph), ("coarsegrain", opCoarsegrain), ("uncoarsegrain", opUncoarsegrain)]

end Strengths.Driver
