/- Driver operations for the units model: parse_units, show, convert, conv_factor. -/
import Strengths.Driver.Json

namespace Strengths.Driver
open Lean

def getTarget (j : Json) : Except String Target := do
  let kind ← getStr (← field j "kind")
  match kind with
  | "str" => return .str (← getStr (← field j "s"))
  | "units" => return .units (← getUnits (← field j "u"))
  | "uval" => return .uval (← getUVal (← field j "x"))
  | "sys" => return .sys (← getSys (← field j "sys"))
  | "dict" =>
    let o ← (← field j "d").getObj? |>.mapError id
    let l ← o.toList.mapM fun (k, v) => do return (k, ← getStr v)
    return .dict l
  | _ => throw s!"unknown target kind {kind}"

def opParseUnits : Handler := fun j => do
  return resJson unitsJson (parseUnits (← getStr (← field j "s")))

def opShowUnits : Handler := fun j => do
  return Json.mkObj [("ok", showUnits (← getUnits (← field j "u")))]

def opConvert : Handler := fun j => do
  let t ← getTarget (← field j "target")
  match fieldOpt j "x", fieldOpt j "xs" with
  | some x, _ => return resJson uvalJson ((← getUVal x).convert t)
  | none, some xs => return resJson uarrJson ((← getUArr xs).convert t)
  | _, _ => throw "convert needs x or xs"

def opConvFactor : Handler := fun j => do
  let f := convFactor (← getSys (← field j "src")) (← getSys (← field j "dst")) (← getDim (← field j "dim"))
  return Json.mkObj [("ok", ratJson f)]

def opSiFactor : Handler := fun j => do
  return Json.mkObj [("ok", ratJson (siFactor (← getSys (← field j "sys")) (← getDim (← field j "dim"))))]

def unitsOps : List (String × Handler) :=
  [("parse_units", opParseUnits), ("show_units", opShowUnits), ("convert", opConvert),
   ("conv_factor", opConvFactor), ("si_factor", opSiFactor)]

end Strengths.Driver
