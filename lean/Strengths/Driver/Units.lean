/- Driver operations for the units model: parse_units, show, convert, conv_factor. -/
import Strengths.Driver.Json

namespace Strengths.Driver
open Lean

def getTarget (j : Json) : Except String Target := do
  let kind ← getStr (← field j "kind")
  match kind with
  | "str" => return .str (← getStr (← field j "s"))
  | "units" => return .units (← getUnits (← field j "u"))
  | "uval" => return .uval (← getUVal (← field j "x"))
  | "sys" => return .sys (← getSys (← field j "sys"))
  | "dict" =>
    let o ← (← field j "d").getObj? |>.mapError id
    let l ← o.toList.mapM fun (k, v) => do return (k, ← getStr v)
    return .dict l
  | _ => throw s!"unknown target kind {kind}"

def opParseUnits : Handler := fun j => do
  return resJson unitsJson (parseUnits (← getStr (← field j "s")))

def opShowUnits : Handler := fun j => do
  return Json.mkObj [("ok", showUnits (← getUnits (← field j "u")))]

def opConvert : Handler := fun j => do
  let t ← getTarget (← field j "target")
  match fieldOpt j "x", fieldOpt j "xs" with
  | some x, _ => return resJson uvalJson ((← getUVal x).convert t)
  | none, some xs => return resJson uarrJson ((← getUArr xs).convert t)
  | _, _ => throw "convert needs x or xs"

def opConvFactor : Handler := fun j => do
  let f := convFactor (← getSys (← field j "src")) (← getSys (← field j "dst")) (← getDim (← field j "dim"))
  return Json.mkObj [("ok", ratJson f)]

def opSiFactor : Handler := fun j => do
  return Json.mkObj [("ok", ratJson (siFactor (← getSys (← field j "sys")) (← getDim (← field j "dim"))))]

/-- `parse_unitvalue`: the harness supplies Python's `float()` (trusted primitive) as a table
`"floats": [[token, "p/q" | null], …]`; a token missing from the table counts as non-numeric. -/
def opParseUnitValue : Handler := fun j => do
  let s ← getStr (← field j "s")
  let tbl ← (← getArr (← field j "floats")).mapM fun e => do
    match ← getArr e with
    | [k, v] =>
      let key ← getStr k
      match v with
      | .null => return (key.toList, (none : Option Rat))
      | _ => return (key.toList, some (← getRat v))
    | _ => throw "floats entries must be [token, value]"
  let pyFloat : List Char → Option Rat := fun t => (tbl.lookup t).getD none
  return resJson uvalJson (parseUnitValueChars pyFloat s.toList)

/-- `str(UnitValue)`: the harness supplies `str(float(value))` as `"repr"` -/
def opShowUnitValue : Handler := fun j => do
  let r ← getStr (← field j "repr")
  let u ← getUnits (← field j "u")
  return Json.mkObj [("ok", String.ofList (showUValChars (fun _ => r.toList) ⟨0, u⟩))]

def opUnitsEq : Handler := fun j => do
  return Json.mkObj [("ok", Json.bool (Units.eqv (← getUnits (← field j "a")) (← getUnits (← field j "b"))))]

def opPyInt : Handler := fun j => do
  match pyInt (← getStr (← field j "s")).toList with
  | some n => return Json.mkObj [("ok", intJson n)]
  | none => return Json.mkObj [("error", "badSyntax")]

def unitsOps : List (String × Handler) :=
  [("parse_unitvalue", opParseUnitValue), ("show_unitvalue", opShowUnitValue), ("units_eq", opUnitsEq),
   ("py_int", opPyInt)] ++
  [("parse_units", opParseUnits), ("show_units", opShowUnits), ("convert", opConvert),
   ("conv_factor", opConvFactor), ("si_factor", opSiFactor)]

end Strengths.Driver
