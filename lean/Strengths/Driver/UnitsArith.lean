/-
Driver operations for the arithmetic model (C05): `expr` evaluates an expression tree with the model
(`Strengths.eval` / `evalCmp`) and returns, next to the result, the diagnostics the correspondence
check needs for its float policy (DESIGN §4): per-element magnitude of the added/subtracted terms,
the smallest relative distance to a discontinuity (floor in `%`, comparison, zero divisor), and the
range of all intermediate stored magnitudes (double overflow / underflow guard).
The diagnostics re-use the model's own `binop`/`powOp`/… on the sub-results; they never replace them.
-/
import Strengths.Driver.Json
import Strengths.Model.UnitsArith

namespace Strengths.Driver
open Lean

/-! ### executable stand-in for the trusted primitive `pyPow` (real power of a positive rational):
`x^(p/q)` to ~2⁻⁶⁰ relative precision by an integer q-th root -/

def natRootAux (q n : Nat) : Nat → Nat → Nat → Nat
  | 0, lo, _ => lo
  | fuel + 1, lo, hi =>
    if lo + 1 ≥ hi then lo
    else
      let mid := (lo + hi) / 2
      if mid ^ q ≤ n then natRootAux q n fuel mid hi else natRootAux q n fuel lo mid

/-- largest `r` with `r^q ≤ n` -/
def natRoot (q n : Nat) : Nat :=
  if q = 0 then 1 else
  let hi := 2 ^ (Nat.log2 n / q + 1)
  natRootAux q n (Nat.log2 n + 4) 0 (hi + 1)

def ratRoot (q : Nat) (x : Rat) : Rat :=
  if x ≤ 0 then 0 else
  let n := x.num.toNat
  let d := x.den
  let bits : Int := (Nat.log2 n : Int) - (Nat.log2 d : Int)
  let k : Int := 70 - bits / (q : Int)
  let m : Nat := if k ≥ 0 then (n * 2 ^ (q * k.toNat)) / d else n / (d * 2 ^ (q * (-k).toNat))
  (natRoot q m : Rat) * (2 : Rat) ^ (-k)

def pyPowApprox (x e : Rat) : Rat := ratRoot e.den (x ^ e.num)

/-! ### JSON -/

def getOperand (j : Json) : Except String Operand := do
  match ← getStr (← field j "t") with
  | "num" => return .num (← getRat (← field j "v"))
  | "val" => return .val (← getUVal (← field j "x"))
  | "arr" => return .arr (← getUArr (← field j "xs"))
  | t => throw s!"unknown operand type {t}"

def getBinOp (s : String) : Except String BinOp :=
  match s with
  | "add" => .ok .add | "sub" => .ok .sub | "mul" => .ok .mul | "div" => .ok .div | "mod" => .ok .mod
  | _ => .error s!"unknown binary operator {s}"

def getCmpOp (s : String) : Except String CmpOp :=
  match s with
  | "eq" => .ok .eq | "ne" => .ok .ne | "lt" => .ok .lt | "le" => .ok .le | "gt" => .ok .gt | "ge" => .ok .ge
  | _ => .error s!"unknown comparison {s}"

partial def getExpr (j : Json) : Except String Expr := do
  match ← getStr (← field j "k") with
  | "leaf" => return .leaf (← getOperand j)
  | "bin" => return .bin (← getBinOp (← getStr (← field j "op"))) (← getExpr (← field j "a")) (← getExpr (← field j "b"))
  | "pow" => return .pow (← getExpr (← field j "a")) (← getExpr (← field j "b"))
  | "neg" => return .neg (← getExpr (← field j "a"))
  | "abs" => return .abs (← getExpr (← field j "a"))
  | "inv" => return .inv (← getExpr (← field j "a"))
  | k => throw s!"unknown expression node {k}"

def operandJson : Operand → Json
  | .num r => Json.mkObj [("t", "num"), ("v", ratJson r)]
  | .val x => Json.mkObj [("t", "val"), ("x", uvalJson x)]
  | .arr x => Json.mkObj [("t", "arr"), ("xs", uarrJson x)]

/-! ### diagnostics -/

structure Diag where
  mags : List Rat := []     -- per element of the result
  margin : Rat := 1         -- smallest relative distance to a discontinuity met so far
  lo : Rat := 0             -- smallest non-zero |stored value| met so far (0 = none yet)
  hi : Rat := 0             -- largest |stored value| met so far
  zerodiv : Bool := false   -- an exact zero divisor was met
  deriving Inhabited

def rabs (r : Rat) : Rat := if 0 ≤ r then r else -r

def Diag.see (d : Diag) (vs : List Rat) : Diag :=
  vs.foldl (fun d v =>
    let a := rabs v
    if a = 0 then d else
      { d with lo := if d.lo = 0 ∨ a < d.lo then a else d.lo, hi := if a > d.hi then a else d.hi }) d

def Diag.merge (a b : Diag) : Diag :=
  { mags := [], margin := if a.margin ≤ b.margin then a.margin else b.margin,
    lo := if a.lo = 0 then b.lo else if b.lo = 0 then a.lo else if a.lo ≤ b.lo then a.lo else b.lo,
    hi := if a.hi ≥ b.hi then a.hi else b.hi, zerodiv := a.zerodiv || b.zerodiv }

def Diag.withMargin (d : Diag) (m : Rat) : Diag := { d with margin := if m < d.margin then m else d.margin }

def _root_.Strengths.Operand.values : Operand → List Rat
  | .num r => [r]
  | .val x => [x.v]
  | .arr x => x.vs

def _root_.Strengths.Operand.isArr : Operand → Bool
  | .arr _ => true
  | _ => false

def _root_.Strengths.Operand.sysDim : Operand → Option (Sys × Dim)
  | .num _ => none
  | .val x => some (x.u.sys, x.u.dim)
  | .arr x => some (x.u.sys, x.u.dim)

/-- values and magnitudes of `o` as the method of `self` sees them (converted to `self`'s system), and
the conversion factor with its three per-base powers (they are computed in doubles too) -/
def seenFrom (self : Operand) (o : Operand) (mo : List Rat) : List Rat × List Rat × List Rat :=
  match self.sysDim, o.sysDim with
  | some (s, _), some (so, d) =>
    let f := convFactor so s d
    (o.values.map (· * f), mo.map (· * f),
     [f, (so.sSpace / s.sSpace) ^ d.space, (so.sTime / s.sTime) ^ d.time, (so.sQty / s.sQty) ^ d.qty])
  | _, _ => (o.values, mo, [])

def bget (l : List Rat) (i : Nat) : Rat := if l.length = 1 then l.getD 0 0 else l.getD i 0

def distInt (q : Rat) : Rat :=
  let f : Rat := (q.floor : Int)
  let a := q - f
  let b := f + 1 - q
  if a ≤ b then a else b

def rmax (a b : Rat) : Rat := if a ≥ b then a else b

/-- magnitudes / margins of one binary node, from the operand values seen in the result's system -/
def dispatchSelfIsLeft (x y : Operand) : Bool :=
  match x with | .num _ => (match y with | .num _ => true | _ => false) | _ => true

def binDiagSelf (selfIsLeft : Bool) (op : BinOp) (x y : Operand) (mx my : List Rat) (d : Diag) : Diag :=
  let (A, MA, FA) := if selfIsLeft then (x.values, mx, []) else seenFrom y x mx
  let (B, MB, FB) := if selfIsLeft then seenFrom x y my else (y.values, my, [])
  let d := (((d.see A).see B).see FA).see FB
  let n := if x.isArr then A.length else if y.isArr then B.length else 1
  let idx := List.range n
  let zerodiv := match op with
    | .div | .mod => B.any (· == 0)
    | _ => false
  let d := { d with zerodiv := d.zerodiv || zerodiv }
  let mags := idx.map fun i =>
    let a := bget A i; let b := bget B i; let ma := bget MA i; let mb := bget MB i
    match op with
    | .add | .sub => ma + mb
    | .mul => ma * mb
    | .div => if b = 0 then 0 else ma * mb / (b * b)
    | .mod => if b = 0 then 0 else ma + mb * rabs ((a / b).floor : Int)
  let margin := idx.foldl (fun m i =>
    let a := bget A i; let b := bget B i; let ma := bget MA i; let mb := bget MB i
    let c := match op with
      | .div => if mb = 0 then 1 else rabs b / mb
      | .mod =>
        if b = 0 ∨ mb = 0 then 0
        else
          let c1 := rabs b / mb
          let mq := ma * mb / (b * b)
          -- the double quotient is within ~1e-15·mq of the exact one; its margin is held to 1e-12·mq
          -- (reported ×1e6, the harness threshold being 1e-6)
          let c2 := if mq = 0 then 1 else 1000000 * distInt (a / b) / mq
          if c1 ≤ c2 then c1 else c2
      | _ => 1
    if c < m then c else m) d.margin
  { d with mags := mags, margin := margin }

def binDiag (op : BinOp) (x y : Operand) (mx my : List Rat) (d : Diag) : Diag :=
  binDiagSelf (dispatchSelfIsLeft x y) op x y mx my d

def powDiag (x y : Operand) (mx : List Rat) (r : Operand) (d : Diag) : Diag :=
  match x, y, r with
  | .val _, .num e, .val _ | .num _, .num e, .num _ =>
    let a := bget x.values 0
    let ma := bget mx 0
    let rv := bget r.values 0
    if e.den = 1 then
      let n := e.num
      let mag := if n ≥ 0 then ma ^ n.toNat
                 else if a = 0 then 0 else ma ^ n.natAbs / (a ^ n.natAbs * a ^ n.natAbs)
      let d := if n < 0 then d.withMargin (if ma = 0 then 1 else rabs a / ma) else d
      { d with mags := [mag], zerodiv := d.zerodiv || (a == 0 && n < 0) }
    else
      let d := d.withMargin (if ma = 0 then 1 else rabs a / ma)
      { d with mags := [if a = 0 then 0 else rabs rv * (ma / rabs a)], zerodiv := d.zerodiv || (a == 0 && e < 0) }
  | _, _, _ => d

/-- the model's evaluation, with diagnostics -/
def evalD : Expr → Res Operand × Diag
  | .leaf o => (.ok o, ({ mags := o.values.map rabs } : Diag).see o.values)
  | .bin op a b =>
    match evalD a, evalD b with
    | (.ok x, da), (.ok y, db) =>
      let d := binDiag op x y da.mags db.mags (da.merge db)
      match binop op x y with
      | .ok r => (.ok r, d.see r.values)
      | .error e => (.error e, { d with margin := (da.merge db).margin })   -- a node that raises has no discontinuity of its own
    | (.error e, da), (_, db) => (.error e, da.merge db)
    | (_, da), (.error e, db) => (.error e, da.merge db)
  | .pow a b =>
    match evalD a, evalD b with
    | (.ok x, da), (.ok y, db) =>
      let d := da.merge db
      match powOp pyPowApprox x y with
      | .ok r => (.ok r, (powDiag x y da.mags r d).see r.values)
      | .error e => (.error e, powDiag x y da.mags x d)
    | (.error e, da), (_, db) => (.error e, da.merge db)
    | (_, da), (.error e, db) => (.error e, da.merge db)
  | .neg a =>
    match evalD a with
    | (.ok x, d) => (.ok x.neg, d)
    | (.error e, d) => (.error e, d)
  | .abs a =>
    match evalD a with
    | (.ok x, d) => (.ok x.abs, d)
    | (.error e, d) => (.error e, d)
  | .inv a =>
    match evalD a with
    | (.ok x, d) =>
      let vs := x.values
      let d := { d with zerodiv := d.zerodiv || vs.any (· == 0) }
      let d := (List.zip vs d.mags).foldl (fun d (v, m) => d.withMargin (if m = 0 then 1 else rabs v / m)) d
      match x.inv with
      | .ok r => (.ok r, { (d.see r.values) with mags := (List.zip vs d.mags).map fun (v, m) => if v = 0 then 0 else m / (v * v) })
      | .error e => (.error e, d)
    | (.error e, d) => (.error e, d)

def diagFields (d : Diag) : List (String × Json) :=
  [("mag", ratListJson d.mags), ("margin", ratJson d.margin), ("lo", ratJson d.lo), ("hi", ratJson d.hi),
   ("zerodiv", Json.bool d.zerodiv)]

/-- `{"op":"expr","e":{"k":"rbin","op":"sub","a":<tree>,"b":<tree>}}` : the reflected method of `b` called directly,
`b.__rsub__(a)` — `UVal.rdunder` / `UArr.rdunder` applied literally to whatever `a` evaluates to (Python's own dispatch
reaches these methods only for a plain number `a`) -/
def opRExpr (ej : Json) : Except String Json := do
  let op ← getBinOp (← getStr (← field ej "op"))
  let a ← getExpr (← field ej "a")
  let b ← getExpr (← field ej "b")
  match evalD a, evalD b with
  | (.ok x, da), (.ok y, db) =>
    let d := binDiagSelf false op x y da.mags db.mags (da.merge db)
    let r : Res Operand := match y with
      | .val q => q.rdunder op x
      | .arr q => q.rdunder op x
      | .num _ => .error .typeError
    match r with
    | .ok o => return Json.mkObj (("ok", operandJson o) :: diagFields (d.see o.values))
    | .error e => return Json.mkObj (("error", Json.str (errName e)) :: diagFields d)
  | (.error e, da), (_, db) => return Json.mkObj (("error", Json.str (errName e)) :: diagFields (da.merge db))
  | (_, da), (.error e, db) => return Json.mkObj (("error", Json.str (errName e)) :: diagFields (da.merge db))

/-- `{"op":"expr","e":<tree>}` or `{"op":"expr","cmp":"lt","e":<tree>,"b":<tree>}` -/
def opExpr : Handler := fun j => do
  let ej ← field j "e"
  if (← getStr (← field ej "k")) == "rbin" then return ← opRExpr ej
  let a ← getExpr ej
  match fieldOpt j "cmp" with
  | none =>
    let (r, d) := evalD a
    -- the proved `eval` and the diagnostic evaluation are the same function on results
    if r != eval pyPowApprox a then throw "internal: evalD differs from eval" else
    match r with
    | .ok o => return Json.mkObj (("ok", operandJson o) :: diagFields d)
    | .error e => return Json.mkObj (("error", Json.str (errName e)) :: diagFields d)
  | some c =>
    let op ← getCmpOp (← getStr c)
    let b ← getExpr (← field j "b")
    let (ra, da) := evalD a
    let (rb, db) := evalD b
    let d := da.merge db
    match evalCmp pyPowApprox op a b with
    | .error e => return Json.mkObj (("error", Json.str (errName e)) :: diagFields d)
    | .ok res =>
      -- margin of the comparison itself: |a - b'| relative to the magnitudes, scalars only
      let (d, cmargin, exact) := match ra, rb with
        | .ok x, .ok y =>
          if x.isArr || y.isArr then (d, (1 : Rat), false) else
          let selfIsLeft := match x with | .num _ => (match y with | .num _ => true | _ => false) | _ => true
          let (A, MA, FA) := if selfIsLeft then (x.values, da.mags, []) else seenFrom y x da.mags
          let (B, MB, FB) := if selfIsLeft then seenFrom x y db.mags else (y.values, db.mags, [])
          let d := (((d.see A).see B).see FA).see FB
          let a0 := bget A 0; let b0 := bget B 0; let m := bget MA 0 + bget MB 0
          let sameDim := match x.sysDim, y.sysDim with
            | some (_, d1), some (_, d2) => d1 == d2
            | _, _ => true
          if !sameDim then (d, (1 : Rat), false)
          else (d, (if m = 0 then 0 else rabs (a0 - b0) / m), a0 == b0)
        | _, _ => (d, 1, false)
      let rj := match res with
        | .bool bb => Json.mkObj [("t", "bool"), ("b", Json.bool bb)]
        | .excObject => Json.mkObj [("t", "exc")]
      return Json.mkObj (("ok", rj) :: ("cmp_exact", Json.bool exact) :: ("cmp_margin", ratJson cmargin) :: diagFields d)

def unitsArithOps : List (String × Handler) := [("expr", opExpr)]

end Strengths.Driver
