/- Driver operations for reactions and networks (C19, C20). -/
import Strengths.Driver.Json
import Strengths.Model.Network

namespace Strengths.Driver
open Lean

def chars (j : Json) : Except String (List Char) := do return (← getStr j).toList
def charsJson (l : List Char) : Json := Json.str (String.ofList l)

def getScalar (j : Json) : Except String Scalar := do
  match fieldOpt j "num", fieldOpt j "text", fieldOpt j "uval", fieldOpt j "bad" with
  | some n, _, _, _ => return .num (← getRat n)
  | _, some t, _, _ => return .text (← getRat (← field t "v")) (← getStr (← field t "u"))
  | _, _, some x, _ => return .uval (← getUVal x)
  | _, _, _, some _ => return .badText
  | _, _, _, _ => throw s!"bad scalar {j.compress}"

def getKIn (j : Json) : Except String KIn := do
  match fieldOpt j "dict", fieldOpt j "array" with
  | some d, _ =>
    let l ← (← getArr d).mapM fun p => do
      match ← getArr p with
      | [k, v] => return (← getStr k, ← getScalar v)
      | _ => throw "dict entries must be [key, scalar]"
    return .dict l
  | _, some _ => return .array
  | _, _ => return .scalar (← getScalar j)

def optUvalJson : Option UVal → Json
  | none => Json.null
  | some x => uvalJson x

def kvalJson : KVal → Json
  | .scalar x => Json.mkObj [("uval", uvalJson x)]
  | .dict d => Json.mkObj [("dict", Json.arr (d.map fun (k, x) => Json.arr #[Json.str k, uvalJson x]).toArray)]

def kconstJson : KConst → Json
  | .scalar x => Json.mkObj [("scalar", optUvalJson x)]
  | .dict d => Json.mkObj [("dict", Json.arr (d.map fun (k, x) => Json.arr #[Json.str k, optUvalJson x]).toArray)]

def sideJson (d : Side) : Json :=
  Json.arr (d.map fun (l, c) => Json.arr #[charsJson l, intJson c]).toArray

def getSide (j : Json) : Except String Side := do
  (← getArr j).mapM fun p => do
    match ← getArr p with
    | [l, c] => return (← chars l, ← getInt c)
    | _ => throw "side entries must be [label, coef]"

def getOptLabel (j : Json) (k : String) : Except String (Option Label) := do
  match fieldOpt j k with
  | none => return none
  | some v => return some (← chars v)

def reactionJson (r : Reaction) (labels : List Label) : Json :=
  Json.mkObj [
    ("subs", sideJson r.sub), ("prods", sideJson r.prod),
    ("ssto", intListJson (sstoVec r.sub r.prod labels)),
    ("psto", intListJson (pstoVec r.sub r.prod labels)),
    ("dsto", intListJson (dstoVec r.sub r.prod labels)),
    ("order", intJson r.sub.order), ("rorder", intJson r.prod.order),
    ("text", charsJson (eqToString r.sub r.prod)),
    ("kfdim", dimJson (kDim r.sub.order)), ("krdim", dimJson (kDim r.prod.order)),
    ("kf", kvalJson r.kf), ("kr", kvalJson r.kr), ("K", kconstJson r.K)]

/-- `{"op":"reaction","eq":"A + B -> C" | "sto":[[..],[..]],"sys":..,"kf":..,"kr":..,"label":..,"labels":[..]}` -/
def opReaction : Handler := fun j => do
  let sys ← getSys (← field j "sys")
  let kf ← getKIn (← field j "kf")
  let kr ← getKIn (← field j "kr")
  let label ← getOptLabel j "label"
  let labels ← (← getArr (← field j "labels")).mapM chars
  let r ← match fieldOpt j "eq" with
    | some e => pure (mkReaction sys (← chars e) kf kr label)
    | none => do
      match ← getArr (← field j "sto") with
      | [a, b] => pure (mkReactionSides sys (← getSide a) (← getSide b) kf kr label)
      | _ => throw "sto must be [subs, prods]"
  match r with
  | .error e => return Json.mkObj [("error", errName e)]
  | .ok r =>
    let sp : Json := match r.split with
      | .error e => Json.mkObj [("error", errName e)]
      | .ok (f, b) => Json.mkObj [("fwd", reactionJson f labels), ("rev", reactionJson b labels)]
    return Json.mkObj [("ok", (reactionJson r labels).setObjVal! "split" sp)]

/-- `{"op":"parse_equation","eq":".."}` : only the stoichiometry -/
def opParseEquation : Handler := fun j => do
  return resJson (fun (p : Side × Side) => Json.mkObj [("subs", sideJson p.1), ("prods", sideJson p.2)])
    (parseEquation (← chars (← field j "eq")))

/-- `{"op":"network","species":[label|null..],"reactions":[{"label":..,"subs":[..],"prods":[..]}],"environments":[..]}` -/
def opNetwork : Handler := fun j => do
  let species ← (← getArr (← field j "species")).mapM fun v =>
    match v with
    | .null => pure none
    | v => do return some (← chars v)
  let reactions ← (← getArr (← field j "reactions")).mapM fun r => do
    let subs ← (← getArr (← field r "subs")).mapM chars
    let prods ← (← getArr (← field r "prods")).mapM chars
    return (← getOptLabel r "label", subs, prods)
  let envs ← getStrList (← field j "environments")
  let res : Res Unit :=
    match checkEnvironments envs with
    | .error e => .error e
    | .ok () => assertValidity ⟨species, reactions⟩
  return resJson (fun _ => Json.null) res

/-- `{"op":"label","s":".."}` : `assert_string_is_a_valid_label` -/
def opLabel : Handler := fun j => do
  return resJson (fun _ => Json.null) (checkLabel (some (← chars (← field j "s"))))

def networkOps : List (String × Handler) :=
  [("reaction", opReaction), ("parse_equation", opParseEquation), ("network", opNetwork), ("label", opLabel)]

end Strengths.Driver
