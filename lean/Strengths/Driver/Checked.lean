/-
Driver operation for the checked-access engine (C11): one `Iterate()` of the checked model on a marshalled system.

`{"op":"checked_step","eng":<as euler_step>,"x":[species-major],"option":"euler"|"tauleap"|"gillespie","dt":q,
  "draws":[Poisson counts actually drawn],"u1":q,"L":q}`
answers `{"ok":{"x":[species-major state after the step],"complete":bool}}` or `{"error":"oob"|"precondition"|"badPtr"}`.
-/
import Strengths.Driver.Grid
import Strengths.Model.CheckedSim

namespace Strengths.Driver
open Lean

def cerrName : CErr → String
  | .oob => "oob" | .precondition => "precondition" | .badPtr => "badPtr"

def opCheckedStep : Handler := fun j => do
  let e ← field j "eng"
  let ns ← getNat (← field e "ns")
  let nr ← getNat (← field e "nr")
  let nenv ← getNat (← field e "nenv")
  let envL := (← getIntList (← field e "env"))
  let chem := (← getIntList (← field e "chem"))
  let k ← getRatList (← field e "k")
  let sub ← getNatList (← field e "sub")
  let sto ← getIntList (← field e "sto")
  let d ← getRatList (← field e "D")
  let x ← getRatList (← field j "x")
  let dt ← getRat (← field j "dt")
  let optS ← getStr (← field j "option")
  let option := if optS == "euler" then 0 else if optS == "tauleap" then 1 else 2
  let draws := match fieldOpt j "draws" with
    | some v => (getIntList v).toOption.getD []
    | none => []
  let u1 := match fieldOpt j "u1" with
    | some v => (getRat v).toOption.getD 0
    | none => 0
  let l := match fieldOpt j "L" with
    | some v => (getRat v).toOption.getD 0
    | none => 0
  let xs := Vec.ofList x
  let a : EngArgs := {
    ns := ns
    nr := nr
    nenv := nenv
    state := xs
    chstt := Vec.ofList chem
    env := Vec.ofList envL
    k := Vec.ofList k
    sub := Vec.ofList sub
    sto := Vec.ofList sto
    D := Vec.ofList d
    sampleN := 0
    sampleT := Vec.ofList []
    policy := 3
    interval := 1
    tMax := -1
    dt := dt
    option := option
    process := fun v => v }
  let o : Oracles := { pois := fun i => draws.getD i 0, unif := fun _ => u1, logInv := fun _ => l }
  let sp ← field e "space"
  let kind ← getStr (← field sp "kind")
  let setup : CRes CSim ← match kind with
    | "grid" => do
      let g ← getShape sp
      let h ← getRat (← field sp "edge")
      let v ← getRat (← field e "vol")
      pure (setupGridC a g v h)
    | "graph" => do
      let n ← getNat (← field sp "n")
      let es ← (← getArr (← field sp "edges")).mapM fun ej => do
        match ← getArr ej with
        | [p, q, c, dd] => pure ((← getInt p), (← getInt q), (← getRat c), (← getRat dd))
        | _ => throw "edge must be [i,j,sfc,dst]"
      let hs ← getRatList (← field sp "edge")
      let vs ← getRatList (← field e "vol")
      let tbl := vs.zip hs
      let eI : List Int := es.map fun p => p.1
      let eJ : List Int := es.map fun p => p.2.1
      let eS : List Rat := es.map fun p => p.2.2.1
      let eD : List Rat := es.map fun p => p.2.2.2
      let ga : GraphArgs := {
        n := n
        nEdges := es.length
        edgeI := Vec.ofList eI
        edgeJ := Vec.ofList eJ
        edgeSfc := Vec.ofList eS
        edgeDst := Vec.ofList eD
        vol := Vec.ofList vs
        cbrt := fun v => ((tbl.find? fun p => p.1 == v).map fun p => p.2).getD 0 }
      pure (setupGraphC a ga)
    | _ => throw s!"unknown space kind {kind}"
  let res : CRes (List Rat × Bool) :=
    setup >>= fun s => s.iterate o >>= fun r => exportState r.1 (r.1.T.n * r.1.T.ns) >>= fun out =>
      .ok ((List.range out.size).map out.get, r.1.smp.complete)
  match res with
  | .ok (xs', c) => return Json.mkObj [("ok", Json.mkObj [("x", ratListJson xs'), ("complete", c)])]
  | .error er => return Json.mkObj [("error", cerrName er)]

def checkedOps : List (String × Handler) := [("checked_step", opCheckedStep)]

end Strengths.Driver
