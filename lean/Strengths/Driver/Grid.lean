/- Driver operations for grid geometry. -/
import Strengths.Driver.Json
import Strengths.Model.GridGraph

namespace Strengths.Driver
open Lean

def getShape (j : Json) : Except String GridShape := do
  let per (k : String) : Except String Bool := match fieldOpt j k with
    | some v => getBool v
    | none => pure false
  return { w := ← getNat (← field j "w"), h := ← getNat (← field j "h"), d := ← getNat (← field j "d"),
           px := ← per "px", py := ← per "py", pz := ← per "pz" }

def resInt : Res Int → Json := resJson intJson

/-- `{"op":"grid_index","shape":{..},"xyz":[x,y,z]}` / `{"op":"grid_index","shape":..,"p":i}` -/
def opGridIndex : Handler := fun j => do
  let g ← getShape (← field j "shape")
  match fieldOpt j "xyz" with
  | some c =>
    match ← getIntList c with
    | [x, y, z] => return resInt (pyCellIndexOfCoords g x y z)
    | _ => throw "xyz must have three entries"
  | none => return resInt (pyCellIndexOfNum g (← getInt (← field j "p")))

def opGridCoords : Handler := fun j => do
  let g ← getShape (← field j "shape")
  return resJson (fun (x, y, z) => intListJson [x, y, z]) (pyCellCoords g (← getInt (← field j "i")))

/-- the engine's neighbour table of the whole grid: `[[n0..n5] per cell]` -/
def opEngNeighbors : Handler := fun j => do
  let g ← getShape (← field j "shape")
  let tbl := (List.range g.size).map fun i => intListJson ((List.range 6).map fun n => engNeighbor g i n)
  return Json.mkObj [("ok", Json.arr tbl.toArray)]

/-- a position: `{"n": p}` | `{"a": [x,y,z]}` | `{"o": [x,y,z]}` -/
def getPos (j : Json) : Except String Pos := do
  match fieldOpt j "n" with
  | some p => return .num (← getInt p)
  | none =>
    match fieldOpt j "a" with
    | some c =>
      match ← getIntList c with
      | [x, y, z] => return .arr x y z
      | _ => throw "position a must have three entries"
    | none =>
      match ← getIntList (← field j "o") with
      | [x, y, z] => return .obj x y z
      | _ => throw "position o must have three entries"

/-- `null` for a raised error (the correspondence compares raised-or-not only) -/
def resOrNull {α} (f : α → Json) : Res α → Json
  | .ok a => f a
  | .error _ => Json.null

/-- `{"op":"geom_pos","shape":..,"pos":[..]}` → per position `{"within":b,"index":i|null,"coords":[x,y,z]|null}`
(`coords` = `get_cell_coordinates` of a number position; `null` for the other forms) -/
def opGeomPos : Handler := fun j => do
  let g ← getShape (← field j "shape")
  let ps ← (← getArr (← field j "pos")).mapM getPos
  let out := ps.map fun p =>
    Json.mkObj [("within", Json.bool (pyWithinBounds g p)),
                ("index", resOrNull intJson (pyCellIndex g p)),
                ("coords", match p with
                  | .num i => resOrNull (fun (x, y, z) => intListJson [x, y, z]) (pyCoords g i)
                  | _ => Json.null)]
  return Json.mkObj [("ok", Json.arr out.toArray)]

/-- `{"op":"geom_are","shape":..,"pairs":[[p1,p2],..]}` → per pair `true|false|null` -/
def opGeomAre : Handler := fun j => do
  let g ← getShape (← field j "shape")
  let prs ← (← getArr (← field j "pairs")).mapM fun pr => do
    match ← getArr pr with
    | [a, b] => return (← getPos a, ← getPos b)
    | _ => throw "pair must have two positions"
  let out := prs.map fun (a, b) => resOrNull Json.bool (pyAreNeighbors g a b)
  return Json.mkObj [("ok", Json.arr out.toArray)]

/-- `{"op":"geom_nbrs","shape":..}` → all four neighbour relations of the grid, cell by cell:
`are` (n×n matrix of `are_neighbors(i, j)`), `get` (`get_neighbors(i)` in order), `kin` (the cells
`_compute_dspeciesdt_grid` visits, in order), `eng` (the engine's 6-slot table) -/
def opGeomNbrs : Handler := fun j => do
  let g ← getShape (← field j "shape")
  let cells := (List.range g.size).map fun (i : Nat) => (i : Int)
  let are := cells.map fun i => Json.arr (cells.map fun k => resOrNull Json.bool (pyAreNeighbors g (.num i) (.num k))).toArray
  let get := cells.map fun i => resOrNull intListJson (pyGetNeighbors g (.num i))
  let kin := cells.map fun i => resOrNull intListJson (kinNeighbors g (.num i))
  let eng := (List.range g.size).map fun i => intListJson ((List.range 6).map fun n => engNeighbor g i n)
  return Json.mkObj [("ok", Json.mkObj [("are", Json.arr are.toArray), ("get", Json.arr get.toArray),
    ("kin", Json.arr kin.toArray), ("eng", Json.arr eng.toArray)])]

/-- `{"op":"grid_to_graph","shape":..,"a":"p/q","envs":[..]}` → nodes `[vol, env]`, edges `[i, j, S, d]`,
and the graph-side queries on the result: `get_neighbors`, the kinetics enumeration, `get_edge` (position
of the first matching edge, -1 for `None`) -/
def opGridToGraph : Handler := fun j => do
  let g ← getShape (← field j "shape")
  let a ← getRat (← field j "a")
  let envs ← getIntList (← field j "envs")
  match gridToGraph g a envs with
  | .error e => return Json.mkObj [("error", errName e)]
  | .ok gr =>
    let n := gr.nodes.length
    let cells := (List.range n).map fun (i : Nat) => (i : Int)
    let nodes := gr.nodes.map fun nd => Json.arr #[ratJson nd.volume, intJson nd.env]
    let edges := gr.edges.map fun e => Json.arr #[intJson e.i, intJson e.j, ratJson e.surface, ratJson e.distance]
    let gn := cells.map fun i => intListJson (graphGetNeighbors gr.edges i)
    let kin := cells.map fun i => intListJson (kinGraphNeighbors n gr.edges i)
    let ge := cells.map fun i => intListJson (cells.map fun k =>
      match gr.edges.findIdx? (fun e => Gen.edgeMatches e.i e.j i k) with
      | some p => (p : Int)
      | none => -1)
    return Json.mkObj [("ok", Json.mkObj [("nodes", Json.arr nodes.toArray), ("edges", Json.arr edges.toArray),
      ("get_neighbors", Json.arr gn.toArray), ("kin", Json.arr kin.toArray), ("get_edge", Json.arr ge.toArray)])]

def gridOps : List (String × Handler) :=
  [("grid_index", opGridIndex), ("grid_coords", opGridCoords), ("eng_neighbors", opEngNeighbors),
   ("geom_pos", opGeomPos), ("geom_are", opGeomAre), ("geom_nbrs", opGeomNbrs), ("grid_to_graph", opGridToGraph)]

end Strengths.Driver
