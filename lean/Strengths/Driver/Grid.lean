/- Driver operations for grid geometry. -/
import Strengths.Driver.Json
import Strengths.Model.Grid

namespace Strengths.Driver
open Lean

def getShape (j : Json) : Except String GridShape := do
  let per (k : String) : Except String Bool := match fieldOpt j k with
    | some v => getBool v
    | none => pure false
  return { w := ← getNat (← field j "w"), h := ← getNat (← field j "h"), d := ← getNat (← field j "d"),
           px := ← per "px", py := ← per "py", pz := ← per "pz" }

def resInt : Res Int → Json := resJson intJson

/-- `{"op":"grid_index","shape":{..},"xyz":[x,y,z]}` / `{"op":"grid_index","shape":..,"p":i}` -/
def opGridIndex : Handler := fun j => do
  let g ← getShape (← field j "shape")
  match fieldOpt j "xyz" with
  | some c =>
    match ← getIntList c with
    | [x, y, z] => return resInt (pyCellIndexOfCoords g x y z)
    | _ => throw "xyz must have three entries"
  | none => return resInt (pyCellIndexOfNum g (← getInt (← field j "p")))

def opGridCoords : Handler := fun j => do
  let g ← getShape (← field j "shape")
  return resJson (fun (x, y, z) => intListJson [x, y, z]) (pyCellCoords g (← getInt (← field j "i")))

/-- the engine's neighbour table of the whole grid: `[[n0..n5] per cell]` -/
def opEngNeighbors : Handler := fun j => do
  let g ← getShape (← field j "shape")
  let tbl := (List.range g.size).map fun i => intListJson ((List.range 6).map fun n => engNeighbor g i n)
  return Json.mkObj [("ok", Json.arr tbl.toArray)]

def gridOps : List (String × Handler) :=
  [("grid_index", opGridIndex), ("grid_coords", opGridCoords), ("eng_neighbors", opEngNeighbors)]

end Strengths.Driver
