/-
Driver operations for the Python-side kinetics model and the rate Spec.

system object ("sys"), SI values, as read from the constructed `RDSystem`:
  {"ns": N, "envs": [labels], "D": [EV per species],
   "reactions": [{"sub":[N nats], "prod":[N nats], "kf": EV, "kr": EV}],
   "space": {"kind":"grid","w","h","d","px","py","pz","vol": Q, "edge": rat, "env":[…]}
          | {"kind":"graph","nodes":[{"vol": Q, "edge": rat, "env": n}], "edges":[{"i","j","sfc": Q,"dst": Q}]},
   "chem": [ints, species-major]}
  Q  = {"si": rat, "dim": [a,b,c]}          EV = {"q": Q} | {"dict": [[label, Q], …]}
physical system ("phys") of the Spec:
  {"ns","n","reacs":[{"sub":[…],"prod":[…],"kf":[per env],"kr":[per env]}], "env":[…], "vol":[…], "edge":[…],
   "D":[[per env] per species], "space": {"kind":"grid",…} | {"kind":"graph","edges":[[i,j,S,d],…]}}
-/
import Strengths.Driver.Grid
import Strengths.Model.Kinetics
import Strengths.Spec.Rate

namespace Strengths.Driver
open Lean Strengths.Gen

def getQ (j : Json) : Except String Q := do
  return ⟨← getRat (← field j "si"), ← getDim (← field j "dim")⟩

def qJson (q : Q) : Json := Json.mkObj [("si", ratJson q.si), ("dim", dimJson q.dim)]

def getKinEnvVal (j : Json) : Except String EnvVal := do
  match fieldOpt j "q" with
  | some q => return .single (← getQ q)
  | none =>
    let es ← (← getArr (← field j "dict")).mapM fun p => do
      match ← getArr p with
      | [k, v] => pure (← getStr k, ← getQ v)
      | _ => throw "dict entry must be [label, Q]"
    return .dict es

def getPyReaction (j : Json) : Except String PyReaction := do
  return { sub := ← getNatList (← field j "sub"), prod := ← getNatList (← field j "prod"),
           kf := ← getKinEnvVal (← field j "kf"), kr := ← getKinEnvVal (← field j "kr") }

def getPySpace (sp : Json) : Except String PySpace := do
  let kind ← getStr (← field sp "kind")
  match kind with
  | "grid" =>
    return .grid (← getShape sp) (← getQ (← field sp "vol")) (← getRat (← field sp "edge")) (← getNatList (← field sp "env"))
  | "graph" =>
    let nodes ← (← getArr (← field sp "nodes")).mapM fun nj => do
      pure ({ vol := ← getQ (← field nj "vol"), edge := ← getRat (← field nj "edge"), env := ← getNat (← field nj "env") } : PyNode)
    let edges ← (← getArr (← field sp "edges")).mapM fun ej => do
      pure ({ i := ← getNat (← field ej "i"), j := ← getNat (← field ej "j"), sfc := ← getQ (← field ej "sfc"),
              dst := ← getQ (← field ej "dst") } : PyEdge)
    return .graph nodes edges
  | _ => throw s!"unknown space kind {kind}"

def getPySys (j : Json) : Except String PySys := do
  return { nSpecies := ← getNat (← field j "ns")
           dcoef := ← (← getArr (← field j "D")).mapM getKinEnvVal
           reactions := ← (← getArr (← field j "reactions")).mapM getPyReaction
           envs := ← getStrList (← field j "envs")
           space := ← getPySpace (← field j "space")
           chem := ← getIntList (← field j "chem") }

def getPyState (j : Json) : Except String PyState := do
  let d ← match fieldOpt j "xdim" with
    | some dj => getDim dj
    | none => pure Dim.quantity
  return ⟨← getRatList (← field j "x"), d⟩

def resQJson : Res Q → Json
  | .ok q => qJson q
  | .error e => Json.mkObj [("error", errName e)]

/-- `{"op":"dstate","sys":…,"x":[…],"xdim":[0,0,1],"apply_chem":b}` → per entry (species-major) `compute_dspeciesdt`,
and `compute_dstatedt` as a whole -/
def opDstate : Handler := fun j => do
  let sys ← getPySys (← field j "sys")
  let x ← getPyState j
  let ac ← getBool (← field j "apply_chem")
  let entries := (List.range sys.nSpecies).flatMap fun s => (List.range sys.space.size).map fun i =>
    resQJson (pyDspeciesdt sys s i x ac)
  let whole := match pyDstatedt sys x ac with
    | .ok (vs, d) => Json.mkObj [("si", ratListJson vs), ("dim", dimJson d)]
    | .error e => Json.mkObj [("error", errName e)]
  return Json.mkObj [("ok", Json.mkObj [("entries", Json.arr entries.toArray), ("whole", whole)])]

def pairJson : Res (Q × Q) → Json
  | .ok (a, b) => Json.mkObj [("ok", Json.arr #[qJson a, qJson b])]
  | .error e => Json.mkObj [("error", errName e)]

/-- `{"op":"reaction_rates","sys":…,"r":k,"i":cell,"x":[…]}` -/
def opReactionRates : Handler := fun j => do
  let sys ← getPySys (← field j "sys")
  let x ← getPyState j
  let r ← getNat (← field j "r")
  let i ← getNat (← field j "i")
  match sys.reactions[r]? with
  | none => return Json.mkObj [("error", "outOfRange")]
  | some rx => return pairJson (pyReactionRates sys rx i x)

/-- `{"op":"diffusion_rates","sys":…,"s":species,"src":i,"dst":j,"x":[…]}` -/
def opDiffusionRates : Handler := fun j => do
  let sys ← getPySys (← field j "sys")
  let x ← getPyState j
  let s ← getNat (← field j "s")
  let a ← getNat (← field j "src")
  let b ← getNat (← field j "dst")
  if a ≥ sys.space.size ∨ b ≥ sys.space.size ∨ s ≥ sys.nSpecies then return Json.mkObj [("error", "outOfRange")]
  match sys.space with
  | .grid g vol edge _ => return pairJson (pyDiffusionRatesGrid sys g vol edge s a b x)
  | .graph nodes edges => return pairJson (pyDiffusionRatesGraph sys nodes edges s a b x)

/-- `{"op":"dxdtf","sys":…,"U":{…},"x":[numbers in U]}` -/
def opDxdtf : Handler := fun j => do
  let sys ← getPySys (← field j "sys")
  let u ← getSys (← field j "U")
  let x ← getRatList (← field j "x")
  return resJson ratListJson (pyDxdtf sys u x)

/-- `{"op":"apply_reaction","sys":…,"r":k,"i":cell,"n":q,"mol_per_unit":q,"x":[numbers in the state's units]}` -/
def opApplyReaction : Handler := fun j => do
  let sys ← getPySys (← field j "sys")
  let r ← getNat (← field j "r")
  let i ← getNat (← field j "i")
  let n ← getRat (← field j "n")
  let m ← getRat (← field j "mol_per_unit")
  let x ← getRatList (← field j "x")
  match sys.reactions[r]? with
  | none => return Json.mkObj [("error", "outOfRange")]
  | some rx => return resJson ratListJson (pyApplyReaction sys rx i n m x)

/-- `{"op":"marshal","sys":…,"U":{…}}` → the flat tables in engine units -/
def opMarshal : Handler := fun j => do
  let sys ← getPySys (← field j "sys")
  let u ← getSys (← field j "U")
  let a := pyMarshal sys u
  return Json.mkObj [("ok", Json.mkObj [("ns", (a.ns : Nat)), ("nr", (a.nr : Nat)), ("nenv", (a.nenv : Nat)),
    ("k", ratListJson a.k), ("sub", natListJson a.sub), ("sto", intListJson a.sto), ("D", ratListJson a.D),
    ("vol", ratListJson a.vol)])]

/-- `{"op":"marshal_dxdt","sys":…,"U":{…},"edge":[h per cell, in U],"x":[numbers in U, species-major]}` →
`Compute_dxdt` of the Euler engine on the DECODED marshalled arrays (`engOfArraysGrid/Graph (pyMarshal sys U)`), species-major -/
def opMarshalDxdt : Handler := fun j => do
  let sys ← getPySys (← field j "sys")
  let u ← getSys (← field j "U")
  let hs := (← getRatList (← field j "edge")).toArray
  let xa := (← getRatList (← field j "x")).toArray
  let n := sys.space.size
  let x : State := ⟨fun i s => xa.getD (s * n + i) 0⟩
  let chem : Nat → Nat → Bool := fun i s => pyGetChemostat sys s i != 0
  let a := pyMarshal sys u
  let e : EngIn := match sys.space with
    | .grid g _ _ _ => engOfArraysGrid a sys.space.envOf g (hs.getD 0 0) chem
    | .graph _ edges => engOfArraysGraph a sys.space.envOf (edgesInU u edges) (fun i => hs.getD i 0) chem
  return Json.mkObj [("ok", ratListJson ((List.range sys.nSpecies).flatMap fun s =>
    (List.range n).map fun i => eulerDxdt e x i s))]

/-- `{"op":"pysys_dimwf","sys":…}` → does the system satisfy the dimension invariants (`dimWFb`) the any-units theorems assume -/
def opPySysDimWF : Handler := fun j => do
  let sys ← getPySys (← field j "sys")
  return Json.mkObj [("ok", dimWFb sys)]

/-! ### Spec -/

def getPhys (j : Json) : Except String Spec.Phys := do
  let ns ← getNat (← field j "ns")
  let n ← getNat (← field j "n")
  let reacs ← (← getArr (← field j "reacs")).mapM fun rj => do
    let sub := (← getNatList (← field rj "sub")).toArray
    let prod := (← getNatList (← field rj "prod")).toArray
    let kf := (← getRatList (← field rj "kf")).toArray
    let kr := (← getRatList (← field rj "kr")).toArray
    pure ({ sub := fun s => sub.getD s 0, prod := fun s => prod.getD s 0, kf := fun e => kf.getD e 0, kr := fun e => kr.getD e 0 } : Spec.Reac)
  let reacA := reacs.toArray
  let envA := (← getNatList (← field j "env")).toArray
  let volA := (← getRatList (← field j "vol")).toArray
  let edgeA := (← getRatList (← field j "edge")).toArray
  let dA ← (← getArr (← field j "D")).mapM fun dj => do pure (← getRatList dj).toArray
  let dAA := dA.toArray
  let sp ← field j "space"
  let kind ← getStr (← field sp "kind")
  let faces : Nat → List Spec.Face ← match kind with
    | "grid" => do
      let g ← getShape sp
      pure fun i => Spec.gridFaces g.w g.h g.d g.px g.py g.pz (edgeA.getD i 0) i
    | "graph" => do
      let es ← (← getArr (← field sp "edges")).mapM fun ej => do
        match ← getArr ej with
        | [a, b, c, d] => pure (← getNat a, ← getNat b, ← getRat c, ← getRat d)
        | _ => throw "edge must be [i,j,S,d]"
      pure fun i => Spec.graphFaces es i
    | _ => throw s!"unknown space kind {kind}"
  return { nSpecies := ns, nCells := n, nReacs := reacs.length
           reac := fun r => reacA.getD r ⟨fun _ => 0, fun _ => 0, fun _ => 0, fun _ => 0⟩
           env := fun i => envA.getD i 0, vol := fun i => volA.getD i 0, edge := fun i => edgeA.getD i 0
           dcoef := fun s e => (dAA.getD s #[]).getD e 0, faces := faces }

/-- `{"op":"spec_rate","phys":…,"x":[SI, species-major]}` → `rate` of every entry, species-major -/
def opSpecRate : Handler := fun j => do
  let p ← getPhys (← field j "phys")
  let xa := (← getRatList (← field j "x")).toArray
  let x : Spec.St := fun i s => xa.getD (s * p.nCells + i) 0
  return Json.mkObj [("ok", ratListJson ((List.range p.nSpecies).flatMap fun s =>
    (List.range p.nCells).map fun i => Spec.rate p x s i))]

def kineticsOps : List (String × Handler) :=
  [("dstate", opDstate), ("reaction_rates", opReactionRates), ("diffusion_rates", opDiffusionRates),
   ("dxdtf", opDxdtf), ("apply_reaction", opApplyReaction), ("marshal", opMarshal), ("marshal_dxdt", opMarshalDxdt),
   ("spec_rate", opSpecRate), ("pysys_dimwf", opPySysDimWF)]

end Strengths.Driver
