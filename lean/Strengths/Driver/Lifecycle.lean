/-
Driver operations for the sampler / lifecycle model.

`{"op":"lifecycle","scripts":[S…],"calls":[C…]}` where
  S = {"space":0|1,"policy":"on_t_sample"|…,"tsamples":[q…],"interval":q,"tmax":q,"dt":q,
       "clock":[q…] (times after 0,1,2… iterations as observed; may be empty),"stop":n|null,
       "size":N,"raises":bool}
  C = {"obj":0|1,"call":"setup","script":i} | {"obj","call":"iterate"} | {"obj","call":"iterate_n","n":k}
    | {"obj","call":"run","k":k} | "sample" | "get_progress" | "is_complete" | "get_output" | "finalize"
answers `{"ok":[obs…]}`: null | bool | "p/q" | {"t":[…],"steps":[…]} | "garbled" | "raised" | "fault".

`{"op":"script_tmax","tmax":q|null,"tsample":[q…]}` → the value of `RDScript.t_max` or an error.
`{"op":"export_layout","ns","n","k"}` → for k records whose entry (cell i, species s) of record r is the
number r*1000000+i*1000+s: the exported flat buffer (list of numbers).
-/
import Strengths.Driver.Json
import Strengths.Model.Lifecycle

namespace Strengths.Driver
open Lean

def getSetup (j : Json) : Except String (Setup Nat Nat) := do
  let pol ← getStr (← field j "policy")
  let code ← match policyCode pol with
    | some c => pure c
    | none => throw s!"unknown policy {pol}"
  let ts ← getRatList (← field j "tsamples")
  let iv ← getRat (← field j "interval")
  let tmax ← getRat (← field j "tmax")
  let dt ← getRat (← field j "dt")
  let clock ← getRatList (← field j "clock")
  let stop ← match fieldOpt j "stop" with
    | some v => do pure (some (← getNat v))
    | none => pure none
  let ca : ClockAlgo := { dt := dt, clock := clock.toArray, stop := stop }
  return { spaceType := ← getNat (← field j "space"),
           cfg := { policy := code, tSamples := ts, interval := iv, tMax := tmax },
           algo := ca.algo, x0 := 0, stateSize := ← getNat (← field j "size"),
           raises := ← getBool (← field j "raises") }

def getCall (scripts : Array (Setup Nat Nat)) (j : Json) : Except String (Obj × Call Nat Nat) := do
  let o ← getNat (← field j "obj")
  let obj := if o = 0 then Obj.A else Obj.B
  let c ← getStr (← field j "call")
  match c with
  | "setup" =>
    let i ← getNat (← field j "script")
    match scripts[i]? with
    | some sc => return (obj, .setup sc)
    | none => throw "script index out of range"
  | "iterate" => return (obj, .iterate)
  | "iterate_n" => return (obj, .iterateN (← getInt (← field j "n")))
  | "run" => return (obj, .run (← getNat (← field j "k")))
  | "sample" => return (obj, .sample)
  | "get_progress" => return (obj, .getProgress)
  | "is_complete" => return (obj, .isComplete)
  | "get_output" => return (obj, .getOutput)
  | "finalize" => return (obj, .finalize)
  | _ => throw s!"unknown call {c}"

def obsJson : Obs Nat → Json
  | .unit => Json.null
  | .bool b => Json.bool b
  | .num q => ratJson q
  | .output ts d => Json.mkObj [("t", ratListJson ts), ("steps", natListJson d)]
  | .garbled => "garbled"
  | .raised => "raised"
  | .fault => "fault"
  | .hang => "hang"

def opLifecycle : Handler := fun j => do
  let scripts ← (← getArr (← field j "scripts")).mapM getSetup
  let calls ← (← getArr (← field j "calls")).mapM (getCall scripts.toArray)
  let r := World.runHist (World.boot : World Nat Nat) calls
  return Json.mkObj [("ok", Json.arr (r.2.map obsJson).toArray)]

def opScriptTMax : Handler := fun j => do
  let tm ← match fieldOpt j "tmax" with
    | some v => do pure (some (← getRat v))
    | none => pure none
  let ts ← getRatList (← field j "tsample")
  return resJson ratJson (scriptTMax tm ts)

def opExportLayout : Handler := fun j => do
  let ns ← getNat (← field j "ns")
  let n ← getNat (← field j "n")
  let k ← getNat (← field j "k")
  let recs : List (Nat → Nat → Nat) := (List.range k).map fun r => fun i s => r * 1000000 + i * 1000 + s
  return Json.mkObj [("ok", natListJson (exportData ns n recs))]

def lifecycleOps : List (String × Handler) :=
  [("lifecycle", opLifecycle), ("script_tmax", opScriptTMax), ("export_layout", opExportLayout)]

end Strengths.Driver
