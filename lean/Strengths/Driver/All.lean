/- The table of all driver operations.  Each group adds its own list here. -/
import Strengths.Driver.Units
import Strengths.Driver.Grid

namespace Strengths.Driver

def allOps : List (String × Handler) :=
  unitsOps ++ gridOps

end Strengths.Driver
