/- The table of all driver operations.  Each group adds its own list here. -/
import Strengths.Driver.Units
import Strengths.Driver.Grid
import Strengths.Driver.Engine
import Strengths.Driver.Kinetics
import Strengths.Driver.Build

namespace Strengths.Driver

def allOps : List (String × Handler) :=
  unitsOps ++ gridOps ++ engineOps ++ kineticsOps ++ buildOps

end Strengths.Driver
