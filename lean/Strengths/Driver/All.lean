/- The table of all driver operations.  Each group adds its own list here. -/
import Strengths.Driver.Units
import Strengths.Driver.Grid
import Strengths.Driver.Engine
import Strengths.Driver.Kinetics

namespace Strengths.Driver

def allOps : List (String × Handler) :=
  unitsOps ++ gridOps ++ engineOps ++ kineticsOps

end Strengths.Driver
