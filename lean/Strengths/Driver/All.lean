/- The table of all driver operations.  Each group adds its own list here. -/
import Strengths.Driver.Units
import Strengths.Driver.Grid
import Strengths.Driver.Engine
import Strengths.Driver.Lifecycle

namespace Strengths.Driver

def allOps : List (String × Handler) :=
  unitsOps ++ gridOps ++ engineOps ++ lifecycleOps

end Strengths.Driver
