/- The table of all driver operations.  Each group adds its own list here. -/
import Strengths.Driver.Units

namespace Strengths.Driver

def allOps : List (String × Handler) :=
  unitsOps

end Strengths.Driver
