/- The table of all driver operations.  Each group adds its own list here. -/
import Strengths.Driver.Units
import Strengths.Driver.Grid
import Strengths.Driver.Trajectory
import Strengths.Driver.Coarsegrain

namespace Strengths.Driver

def allOps : List (String × Handler) :=
  unitsOps ++ gridOps ++ trajOps ++ coarseOps

end Strengths.Driver
