/-
Driver operations for initial-state processing (C14).

`{"op":"init_state","mode":m,"option":o,"n":N,"ns":S,"x":[species-major flat, as RDSystem.state],
  "draws":[["pois",k] | ["norm","p/q"] | ["unif","p/q"], …]}`
→ `{"ok":{"x":[species-major flat, as sample 0 is exported],"used":k,"means":[…]}}`
 | `{"ok":"needs-more-fuel"}` (draw stream exhausted / wrong kind) | `{"error":"badValue"}` (mode rejected).

The flat arrays are (un)flattened through the GENERATED index formulas, in the order the real code applies
them: `SpeciesFirstToMeshFirstArray` (transposeSrc/Dst), the cell-major subscripts of
`GenerateStochasticDistribution` (gsdIndex), `engineexport_get_trajectory` (exportSrc/Dst).
-/
import Strengths.Driver.Engine
import Strengths.Model.InitState

namespace Strengths.Driver
open Lean Strengths.Gen

def getDraw (j : Json) : Except String Draw := do
  match ← getArr j with
  | [k, v] =>
    match ← getStr k with
    | "pois" => return .pois (← getNat v)
    | "norm" => return .norm (← getRat v)
    | "unif" => return .unif (← getRat v)
    | s => throw s!"unknown draw kind {s}"
  | _ => throw "draw must be [kind, value]"

/-- build a flat array of size `n*ns` with `a[idx s i] = f i s` -/
def scatter (n ns : Nat) (idx : Nat → Nat → Int) (f : Nat → Nat → Rat) : Array Rat := Id.run do
  let mut a : Array Rat := Array.replicate (n * ns) 0
  for s in [0:ns] do
    for i in [0:n] do
      a := a.setIfInBounds (idx s i).toNat (f i s)
  return a

def opInitState : Handler := fun j => do
  let mode ← getStr (← field j "mode")
  let option ← getStr (← field j "option")
  let n ← getNat (← field j "n")
  let ns ← getNat (← field j "ns")
  let inp := (← getRatList (← field j "x")).toArray
  let ds ← (← getArr (← field j "draws")).mapM getDraw
  let tSrc : Nat → Nat → Int := fun s i => transposeSrc ns n s i
  let tDst : Nat → Nat → Int := fun s i => transposeDst ns n s i
  let gIdx : Nat → Nat → Int := fun s i => gsdIndex ns s i
  -- what the loops over the species-major input see as entry (i, s)
  let xin : State := ⟨fun i s => arrGet inp (tSrc s i)⟩
  -- the cell-major array produced by SpeciesFirstToMeshFirstArray, and the state GenerateStochasticDistribution reads in it
  let m := scatter n ns tDst (fun i s => arrGet inp (tSrc s i))
  let xgsd : State := ⟨fun i s => arrGet m (gIdx s i)⟩
  let sel := selectInitMode mode (optionIsStochastic option)
  let x : State := if sel == some .redist then xgsd else if sel == some .none then ⟨fun i s => arrGet m (tDst s i)⟩ else xin
  match scriptInitState mode option x n ns ds with
  | .error e => return Json.mkObj [("error", errName e)]
  | .ok none => return Json.mkObj [("ok", "needs-more-fuel")]
  | .ok (some (r, rest)) =>
    -- cell-major array handed to Init (and sampled at t = 0)
    let stored := if sel == some .redist then scatter n ns gIdx (fun i s => r i s) else scatter n ns tDst (fun i s => r i s)
    let out := scatter n ns (fun s i => exportDst ns n 0 s i) (fun i s => arrGet stored (exportSrc ns n s i))
    let means : List Json :=
      if sel == some .redist then (redistMeans x n ns).map fun (v, nrm) => Json.arr #[ratJson v, Json.bool nrm]
      else if sel == some .poisson then (poissonModeMeans x n ns).map fun v => Json.arr #[ratJson v, Json.bool false]
      else []
    return Json.mkObj [("ok", Json.mkObj [("x", ratListJson out.toList), ("used", (ds.length - rest.length : Nat)),
      ("means", Json.arr means.toArray)])]

def initStateOps : List (String × Handler) := [("init_state", opInitState)]

end Strengths.Driver
