/-
Driver operations for the engine core model.  The engine input travels exactly as the flat arrays
`LibRDEngine._setup_grid/_setup_graph` hand to `engineexport_initialize_*`; they are decoded here
through the *generated* index formulas (`Gen.kIndex`, `Gen.subIndex`, `Gen.dIndex`, `Gen.transposeSrc`, …),
so a changed stride in the C++ changes what the model reads.

engine input object ("eng"):
  {"space": {"kind":"grid","w","h","d","px","py","pz","edge": h}            (vol = h³ is sent as "vol")
          | {"kind":"graph","n": N, "edges": [[i,j,sfc,dst],…], "edge": [h_i…]},
   "ns","nr","nenv", "env":[…], "chem":[species-major flat], "vol": V | [V_i…],
   "k":[…], "sub":[…], "sto":[…], "D":[…]}
states travel species-major flat (`x[s*n+i]`, as `RDSystem.state`).
-/
import Strengths.Driver.Grid
import Strengths.Model.Engine

namespace Strengths.Driver
open Lean Strengths.Gen

def arrGet {α} [Inhabited α] (a : Array α) (i : Int) : α := a.getD i.toNat default

structure EngDecoded where
  e : EngIn
  n : Nat
  ns : Nat

def getEngIn (j : Json) : Except String EngDecoded := do
  let ns ← getNat (← field j "ns")
  let nr ← getNat (← field j "nr")
  let nenv ← getNat (← field j "nenv")
  let envA := (← getNatList (← field j "env")).toArray
  let chemA := (← getIntList (← field j "chem")).toArray
  let kA := (← getRatList (← field j "k")).toArray
  let subA := (← getNatList (← field j "sub")).toArray
  let stoA := (← getIntList (← field j "sto")).toArray
  let dA := (← getRatList (← field j "D")).toArray
  let net : Net := {
    nSpecies := ns, nReact := nr, nEnv := nenv
    k := fun e r => arrGet kA (kIndex nr e r)
    sub := fun s r => arrGet subA (subIndex nr s r)
    sto := fun s r => arrGet stoA (stoIndex nr s r)
    dcoef := fun s e => arrGet dA (dIndex nenv s e) }
  let env : Nat → Nat := fun i => envA.getD i 0
  let sp ← field j "space"
  let kind ← getStr (← field sp "kind")
  match kind with
  | "grid" =>
    let g ← getShape sp
    let h ← getRat (← field sp "edge")
    let v ← getRat (← field j "vol")
    let n := g.size
    -- chem arrives species-major; the engine transposes it to cell-major with SpeciesFirstToMeshFirstArray
    let chem : Nat → Nat → Bool := fun i s => arrGet chemA (transposeSrc ns n s i) != 0
    return { e := { net := net, topo := gridTopo g net env h, env := env, chem := chem, vol := fun _ => v }, n := n, ns := ns }
  | "graph" =>
    let n ← getNat (← field sp "n")
    let es ← (← getArr (← field sp "edges")).mapM fun ej => do
      match ← getArr ej with
      | [a, b, c, d] => pure ({ i := ← getNat a, j := ← getNat b, sfc := ← getRat c, dst := ← getRat d } : GEdge)
      | _ => throw "edge must be [i,j,sfc,dst]"
    let hA := (← getRatList (← field sp "edge")).toArray
    let vA := (← getRatList (← field j "vol")).toArray
    let vol : Nat → Rat := fun i => vA.getD i 0
    let edge : Nat → Rat := fun i => hA.getD i 0
    let chem : Nat → Nat → Bool := fun i s => arrGet chemA (transposeSrc ns n s i) != 0
    return { e := { net := net, topo := graphTopo n es net env vol edge, env := env, chem := chem, vol := vol }, n := n, ns := ns }
  | _ => throw s!"unknown space kind {kind}"

/-- species-major flat list → State -/
def getState (d : EngDecoded) (j : Json) : Except String State := do
  let a := (← getRatList j).toArray
  return ⟨fun i s => arrGet a (transposeSrc d.ns d.n s i)⟩

/-- State → species-major flat list -/
def stateJson (d : EngDecoded) (x : State) : Json :=
  ratListJson ((List.range d.ns).flatMap fun s => (List.range d.n).map fun i => x i s)

def eventJson : Event → Json
  | .reaction c r => Json.mkObj [("kind", "reaction"), ("cell", (c : Nat)), ("r", (r : Nat))]
  | .diffusion c s n => Json.mkObj [("kind", "diffusion"), ("cell", (c : Nat)), ("s", (s : Nat)), ("slot", (n : Nat))]

/-- `{"op":"euler_step","eng":…,"x":[…],"dt":q}` → next state, derivative and magnitude per entry -/
def opEulerStep : Handler := fun j => do
  let d ← getEngIn (← field j "eng")
  let x ← getState d (← field j "x")
  let dt ← getRat (← field j "dt")
  let dx : State := ⟨fun i s => eulerDxdt d.e x i s⟩
  return Json.mkObj [("ok", Json.mkObj [("x", stateJson d (eulerStep d.e dt x)), ("dxdt", stateJson d dx)])]

/-- `{"op":"tauleap_means","eng":…,"x":[…],"dt":q}` → the Poisson means in call order -/
def opTauLeapMeans : Handler := fun j => do
  let d ← getEngIn (← field j "eng")
  let x ← getState d (← field j "x")
  let dt ← getRat (← field j "dt")
  return Json.mkObj [("ok", ratListJson (tauLeapMeans d.e dt x))]

/-- `{"op":"tauleap_step","eng":…,"x":[…],"counts":[…]}` → next state for the drawn counts (call order) -/
def opTauLeapStep : Handler := fun j => do
  let d ← getEngIn (← field j "eng")
  let x ← getState d (← field j "x")
  let cs ← match fieldOpt j "counts" with
    | some c => getIntList c
    | none => do
      -- "draws": only the counts actually drawn (means > 0), "dt" needed to recompute the means
      let ds ← getIntList (← field j "draws")
      let dt ← getRat (← field j "dt")
      match poissonCounts (tauLeapMeans d.e dt x) ds with
      | some cs => pure cs
      | none => throw "number of draws does not match the number of positive means"
  match countsOfDraws d.e cs with
  | none => return Json.mkObj [("error", "badValue")]
  | some c => return Json.mkObj [("ok", stateJson d (tauLeapApply d.e c x))]

/-- `{"op":"gillespie_step","eng":…,"x":[…],"u1":q,"L":q}` → a0, chosen event, next state, dt·a0 -/
def opGillespieStep : Handler := fun j => do
  let d ← getEngIn (← field j "eng")
  let x ← getState d (← field j "x")
  let u1 ← getRat (← field j "u1")
  let l ← getRat (← field j "L")
  let a := a0 d.e x
  match gillespieStep d.e x u1 l with
  | none => return Json.mkObj [("ok", Json.mkObj [("a0", ratJson a), ("complete", true)])]
  | some g =>
    return Json.mkObj [("ok", Json.mkObj [("a0", ratJson a), ("complete", false), ("x", stateJson d g.x),
      ("dt", ratJson g.dt), ("event", match g.event with | some ev => eventJson ev | none => Json.null)])]

/-- `{"op":"eng_tables","eng":…}` → kr[i][r], kout/kin/nbr per cell, species, slot (debugging aid) -/
def opEngTables : Handler := fun j => do
  let d ← getEngIn (← field j "eng")
  let e := d.e
  let kr := (List.range d.n).map fun i => ratListJson ((List.range e.net.nReact).map fun r => meshKr e i r)
  let slots := (List.range d.n).map fun i =>
    Json.arr ((List.range (e.topo.nSlots i)).map fun n =>
      Json.mkObj [("nbr", match e.topo.nbr i n with | some k => Json.num ⟨(k : Int), 0⟩ | none => Json.null),
                  ("kout", ratListJson ((List.range d.ns).map fun s => e.topo.kout i s n)),
                  ("kin", ratListJson ((List.range d.ns).map fun s => e.topo.kin i s n))]).toArray
  return Json.mkObj [("ok", Json.mkObj [("kr", Json.arr kr.toArray), ("slots", Json.arr slots.toArray)])]

def engineOps : List (String × Handler) :=
  [("euler_step", opEulerStep), ("tauleap_means", opTauLeapMeans), ("tauleap_step", opTauLeapStep),
   ("gillespie_step", opGillespieStep), ("eng_tables", opEngTables)]

end Strengths.Driver
