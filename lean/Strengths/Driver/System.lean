/- Driver operation for the RDSystem default state / chemostat map / per-entry accessors (C13). -/
import Strengths.Driver.Grid
import Strengths.Model.SystemState

namespace Strengths.Driver
open Lean Strengths.RDS

def getQIn (j : Json) : Except String QIn := do
  match fieldOpt j "num" with
  | some v => return .num (← getRat v)
  | none => return .uval (← getUVal (← field j "uval"))

def getEnvVal {α} (f : Json → Except String α) (j : Json) : Except String (EnvVal α) := do
  match fieldOpt j "single" with
  | some v => return .single (← f v)
  | none =>
    let items ← (← getArr (← field j "dict")).mapM fun kv => do
      match ← getArr kv with
      | [k, v] => return (← getStr k, ← f v)
      | _ => throw "dict item must be [key, value]"
    return .dict items

def getSpRef (j : Json) : Except String SpRef := do
  match fieldOpt j "idx" with
  | some v => return .idx (← getInt v)
  | none =>
    match fieldOpt j "label" with
    | some v => return .label (← getStr v)
    | none => return .obj (← getStr (← field j "obj"))

/-- `Species(label, density=…, chstt=…, units_system=…)` -/
def getSpecies (j : Json) : Except String (Res Species) := do
  let sys ← getSys (← field j "sys")
  let dens ← getEnvVal getQIn (← field j "density")
  let ch ← getEnvVal getInt (← field j "chstt")
  let label ← getStr (← field j "label")
  match processUnitVar sys Dim.density dens with
  | .error e => return .error e
  | .ok d => return .ok ⟨label, d, ch⟩

def optFieldS {α} (j : Json) (k : String) (f : Json → Except String α) : Except String (Option α) :=
  match fieldOpt j k with
  | some v => do return some (← f v)
  | none => pure none

/-- a space description; every constructor argument may be omitted (then the generated constructor default applies) -/
def getSpace (j : Json) : Except String (Res Space) := do
  let sys ← getSys (← field j "sys")
  if (← getStr (← field j "kind")) == "grid" then
    let sh := (fieldOpt j "shape").getD (Json.mkObj [])
    let w ← optFieldS sh "w" getNat
    let h ← optFieldS sh "h" getNat
    let d ← optFieldS sh "d" getNat
    let px ← optFieldS sh "px" getBool
    let py ← optFieldS sh "py" getBool
    let pz ← optFieldS sh "pz" getBool
    let env ← optFieldS j "cell_env" getIntList
    let vol ← optFieldS j "cell_vol" getQIn
    return mkGridSpace w h d px py pz vol env sys
  else
    let nodes ← (← getArr (← field j "nodes")).mapM fun nd => do
      let nsys ← getSys (← field nd "sys")
      return mkGraphNode (← optFieldS nd "vol" getQIn) (← optFieldS nd "env" getInt) nsys
    match seqRes nodes with
    | .error e => return .error e
    | .ok l => return .ok (.graph l sys)

def uarrJsonR (x : UArr) : Json := uarrJson x

/-- one accessor / mutator call; returns the JSON result and the new system -/
def runCall (s : System) (c : Json) : Except String (Json × System) := do
  let k ← getStr (← field c "k")
  let spPos : Except String (SpRef × Pos) := do
    return (← getSpRef (← field c "sp"), ← getPos (← field c "pos"))
  match k with
  | "get_state" =>
    let (sp, pos) ← spPos
    return (resJson uvalJson (s.getState sp pos), s)
  | "get_chem" =>
    let (sp, pos) ← spPos
    return (resJson intJson (s.getChem sp pos), s)
  | "get_state_index" =>
    let (sp, pos) ← spPos
    return (resJson intJson (s.stateIndex sp pos), s)
  | "set_state" =>
    let (sp, pos) ← spPos
    match s.setState sp pos (← getQIn (← field c "value")) with
    | .ok s' => return (Json.mkObj [("ok", Json.null)], s')
    | .error e => return (Json.mkObj [("error", errName e)], s)
  | "set_chem" =>
    let (sp, pos) ← spPos
    match s.setChem sp pos (← getInt (← field c "value")) with
    | .ok s' => return (Json.mkObj [("ok", Json.null)], s')
    | .error e => return (Json.mkObj [("error", errName e)], s)
  | "set_default_state" =>
    match s.setDefaultState with
    | .ok s' => return (Json.mkObj [("ok", Json.null)], s')
    | .error e => return (Json.mkObj [("error", errName e)], s)
  | "set_default_chem" =>
    match s.setDefaultChem with
    | .ok s' => return (Json.mkObj [("ok", Json.null)], s')
    | .error e => return (Json.mkObj [("error", errName e)], s)
  | "edit_density" =>
    let i ← getNat (← field c "species")
    match s.net.species[i]? with
    | none => throw "edit_density: bad species position"
    | some sp =>
      let sys ← getSys (← field c "sys")
      match processUnitVar sys Dim.density (← getEnvVal getQIn (← field c "density")) with
      | .error e => return (Json.mkObj [("error", errName e)], s)
      | .ok d =>
        let net' := { s.net with species := s.net.species.set i { sp with density := d } }
        return (Json.mkObj [("ok", Json.null)], { s with net := net' })
  | "edit_chstt" =>
    let i ← getNat (← field c "species")
    match s.net.species[i]? with
    | none => throw "edit_chstt: bad species position"
    | some sp =>
      let ch ← getEnvVal getInt (← field c "chstt")
      let net' := { s.net with species := s.net.species.set i { sp with chstt := ch } }
      return (Json.mkObj [("ok", Json.null)], { s with net := net' })
  | "assign_species" =>
    let order ← (← getArr (← field c "order")).mapM getNat
    match s.assignSpeciesOrder order with
    | .ok s' => return (Json.mkObj [("ok", Json.null)], s')
    | .error e => return (Json.mkObj [("error", errName e)], s)
  | "assign_envs" =>
    return (Json.mkObj [("ok", Json.null)], s.assignEnvs (← getStrList (← field c "envs")))
  | _ => throw s!"unknown call {k}"

/-- `{"op":"rdsystem","net":…,"space":…,"sys":…,"calls":[…]}` -/
def opRdSystem : Handler := fun j => do
  let nj ← field j "net"
  let species ← (← getArr (← field nj "species")).mapM getSpecies
  let space ← getSpace (← field j "space")
  let sysUnits ← getSys (← field j "sys")
  let envs ← getStrList (← field nj "envs")
  let nsys ← getSys (← field nj "sys")
  match seqRes species, space with
  | .error e, _ => return Json.mkObj [("error", errName e)]
  | _, .error e => return Json.mkObj [("error", errName e)]
  | .ok sps, .ok spc =>
    -- explicit `state=[…]` (numbers, in the system's units) / `chemostats=[…]` replace the generated defaults
    let net : Network := ⟨sps, envs, nsys⟩
    let st : Res UArr ← match fieldOpt j "state_override" with
      | some v => do pure (.ok (⟨← getRatList v, ⟨sysUnits, Dim.quantity⟩⟩ : UArr))
      | none => pure (systemState net spc (defaultStateSys net sysUnits))
    let ch : Res (List Int) ← match fieldOpt j "chem_override" with
      | some v => do pure (.ok (← getIntList v))
      | none => pure (systemChem net spc)
    match (match st, ch with
      | _, _ => if !spaceAccepted net spc then (.error .badValue : Res System) else
        match st, ch with
      | .error e, _ => (.error e : Res System)
      | _, .error e => .error e
      | .ok a, .ok b => .ok ⟨net, spc, sysUnits, a, b⟩) with
    | .error e => return Json.mkObj [("error", errName e)]
    | .ok s0 =>
      let calls ← getArr (← field j "calls")
      let mut s := s0
      let mut results : Array Json := #[]
      for c in calls do
        let (r, s') ← runCall s c
        results := results.push r
        s := s'
      return Json.mkObj [("ok", Json.mkObj [("state0", uarrJsonR s0.state), ("chem0", intListJson s0.chem),
        ("results", Json.arr results), ("state", uarrJsonR s.state), ("chem", intListJson s.chem)])]

def systemOps : List (String × Handler) := [("rdsystem", opRdSystem)]

end Strengths.Driver
