/- Driver operations for the dictionary model (C12): `from_dict` (reader + writer of every kind), `process_keys`. -/
import Strengths.Driver.Json
import Strengths.Model.Dict

namespace Strengths.Driver
open Lean
open Strengths.Dict (Val Obj KV)

/-- wire form → model JSON.  `{"$n": "p/q"}` number, `{"$q": "p/q", "$u": text}` quantity text,
`{"$eq": [[[label, n]…], [[label, n]…]]}` equation text -/
partial def toModelJson (j : Json) : Except String Dict.Json := do
  match j with
  | .null => return .null
  | .bool b => return .bool b
  | .num _ => return .num (← getRat j)
  | .str s => return .str s
  | .arr a => return .arr (← a.toList.mapM toModelJson)
  | .obj _ =>
    match fieldOpt j "$n", fieldOpt j "$q", fieldOpt j "$eq" with
    | some n, _, _ => return .num (← getRat n)
    | _, some q, _ => return .qty (← getRat q) (← getStr (← field j "$u"))
    | _, _, some e =>
      let side (x : Json) : Except String (List (String × Int)) := do
        (← getArr x).mapM fun p => do
          match ← getArr p with
          | [l, n] => return (← getStr l, ← getInt n)
          | _ => throw "bad equation side"
      match ← getArr e with
      | [s, p] => return .eqn (← side s) (← side p)
      | _ => throw "bad $eq"
    | _, _, _ =>
      let o ← match j.getObj? with | .ok o => pure o | .error e => throw e
      -- keep the insertion order sent by the harness under "$order" when present
      return .obj (← o.toList.mapM fun (k, v) => do return (k, ← toModelJson v))

/-- objects travel as `{"$obj": [[key, value], …]}` to keep the insertion order -/
partial def toModelJsonOrdered (j : Json) : Except String Dict.Json := do
  match j with
  | .arr a => return .arr (← a.toList.mapM toModelJsonOrdered)
  | .obj _ =>
    match fieldOpt j "$obj" with
    | some l =>
      return .obj (← (← getArr l).mapM fun p => do
        match ← getArr p with
        | [k, v] => return (← getStr k, ← toModelJsonOrdered v)
        | _ => throw "bad $obj entry")
    | none => toModelJson j
  | _ => toModelJson j

partial def ofModelJson : Dict.Json → Json
  | .null => .null
  | .bool b => .bool b
  | .num q => Json.mkObj [("$n", ratJson q)]
  | .str s => .str s
  | .qty v t => Json.mkObj [("$q", ratJson v), ("$u", .str t)]
  | .eqn s p =>
    let side (l : List (String × Int)) : Json := .arr (l.map fun (a, n) => Json.arr #[.str a, intJson n]).toArray
    Json.mkObj [("$eq", .arr #[side s, side p])]
  | .arr l => .arr (l.map ofModelJson).toArray
  | .obj kv => Json.mkObj (kv.map fun (k, v) => (k, ofModelJson v))

def sysTriple (s : Sys) : Json := .arr #[.str s.space, .str s.time, .str s.qty]
def qtyJson (x : UVal) : Json :=
  Json.mkObj [("v", ratJson x.v), ("sys", sysTriple x.u.sys), ("dim", dimJson x.u.dim)]

def valJson {χ} (wc : χ → Json) : Val χ → Json
  | .none => .null
  | .bool b => .bool b
  | .int n => intJson n
  | .str s => .str s
  | .qty x => qtyJson x
  | .envQty m => Json.mkObj [("env", .arr (m.map fun (k, x) => Json.arr #[.str k, qtyJson x]).toArray)]
  | .raw j => Json.mkObj [("raw", ofModelJson j)]
  | .arr x => Json.mkObj [("vs", ratListJson x.vs), ("sys", sysTriple x.u.sys), ("dim", dimJson x.u.dim)]
  | .ints l => intListJson l
  | .strs l => .arr (l.map Json.str).toArray
  | .sys s => sysTriple s
  | .stoich s p =>
    let side (l : List (String × Int)) : Json := .arr (l.map fun (a, n) => Json.arr #[.str a, intJson n]).toArray
    Json.mkObj [("sub", side s), ("prod", side p)]
  | .child c => wc c
  | .children l => .arr (l.map wc).toArray

def objJson {χ} (wc : χ → Json) (o : Obj χ) : Json := Json.mkObj (o.map fun (k, v) => (k, valJson wc v))

def obj0 : Dict.L0 → Json := objJson (fun (e : Empty) => nomatch e)
def obj1 : Dict.L1 → Json := objJson obj0
def obj2 : Dict.L2 → Json := objJson obj1
def obj3 : Dict.L3 → Json := objJson obj2

def opFromDict : Handler := fun j => do
  let kind ← getStr (← field j "kind")
  let d ← toModelJsonOrdered (← field j "d")
  let parent ← match fieldOpt j "parent" with | some p => getSys p | none => pure Sys.default
  let base ← match fieldOpt j "base" with | some b => (some <$> getStr b) | none => pure none
  let files : List (String × Dict.Json) ← match fieldOpt j "files" with
    | some f => do
      let o ← match f.getObj? with | .ok o => pure o | .error e => throw e
      o.toList.mapM fun (k, v) => do return (k, ← toModelJsonOrdered v)
    | none => pure []
  let fs : Dict.FS := fun p => files.lookup p
  let out {α} (r : Res α) (view : α → Json) (w : α → Dict.Json) : Json :=
    match r with
    | .ok o => Json.mkObj [("ok", Json.mkObj [("obj", view o), ("dict", ofModelJson (w o))])]
    | .error e => Json.mkObj [("error", errName e)]
  match kind with
  | "species" => return out (Dict.speciesFromDict parent d) obj0 Dict.speciesToDict
  | "reaction" => return out (Dict.reactionFromDict parent d) obj0 Dict.reactionToDict
  | "network" => return out (Dict.networkFromDict parent base fs d) obj1 Dict.networkToDict
  | "space" => return out (Dict.spaceFromDict parent base fs d) obj1 Dict.spaceToDict
  | "system" => return out (Dict.systemFromDict parent base fs d) obj2 Dict.systemToDict
  | "script" => return out (Dict.scriptFromDict base fs d) obj3 Dict.scriptToDict
  | "units" =>
    match d with
    | .obj kv => return out (Dict.sysOfJson kv) sysTriple Dict.sysToJson
    | _ => return Json.mkObj [("error", "typeError")]
  | _ => throw s!"unknown kind {kind}"

/-- `process_input_dict_keys` alone: the processed dictionary (key order included) -/
def opProcessKeys : Handler := fun j => do
  let syn ← (← getArr (← field j "synonyms")).mapM getStrList
  match ← toModelJsonOrdered (← field j "d") with
  | .obj kv =>
    match Dict.processKeys syn kv with
    | .ok d => return Json.mkObj [("ok", .arr (d.map fun (k, v) => Json.arr #[.str k, ofModelJson v]).toArray)]
    | .error e => return Json.mkObj [("error", errName e)]
  | _ => throw "process_keys needs an object"

def opPathWithBase : Handler := fun j => do
  let p ← getStr (← field j "path")
  let base ← match fieldOpt j "base" with | some b => (some <$> getStr b) | none => pure none
  return Json.mkObj [("ok", Json.str (Dict.pathWithBase p base)), ("parent", Json.str (Dict.basePath (Dict.pathWithBase p base)))]

def arrJson (x : UArr) : Json := Json.mkObj [("vs", ratListJson x.vs), ("sys", sysTriple x.u.sys), ("dim", dimJson x.u.dim)]

/-- `load_rdtrajectory` on the virtual file system; also what `save_rdtrajectory` would write for the result -/
def opTrajLoad : Handler := fun j => do
  let dir ← getStr (← field j "dir")
  let file ← getStr (← field j "file")
  let files : List (String × Dict.Json) ← do
    let o ← match (← field j "files").getObj? with | .ok o => pure o | .error e => throw e
    o.toList.mapM fun (k, v) => do return (k, ← toModelJsonOrdered v)
  let dataRef : Option String ← match fieldOpt j "data_ref" with | some r => (some <$> getStr r) | none => pure none
  let fs : Dict.FS := fun p => files.lookup p
  match Dict.loadTrajectory fs dir file with
  | .error e => return Json.mkObj [("error", errName e)]
  | .ok tr =>
    let optS : Option String → Json := fun o => match o with | some s => .str s | none => .null
    return Json.mkObj [("ok", Json.mkObj [
      ("obj", Json.mkObj [("data", arrJson tr.data), ("t", arrJson tr.t), ("system", obj2 tr.system),
        ("script", match tr.script with | some s => obj3 s | none => .null),
        ("engine_description", optS tr.engineDescription), ("engine_option", optS tr.engineOption),
        ("cgmap", match tr.cgmap with | some l => intListJson l | none => .null)]),
      ("dict", ofModelJson (Dict.trajToDict tr dataRef))])]

def dictOps : List (String × Handler) :=
  [("from_dict", opFromDict), ("process_keys", opProcessKeys), ("path_with_base", opPathWithBase),
   ("traj_load", opTrajLoad)]

end Strengths.Driver
