/-
Driver operations of the stochastic-engine checks (C07 / C02).

`{"op":"gillespie_step_m","eng":…,"x":[…],"u1":q,"L":q}` → like `gillespie_step`, plus
  "margin": min_k |u1·a0 − prefix_k| / a0 over the cumulative sums of the channel propensities in scan order
  (distance of the selection to its nearest discontinuity), "nchan": number of channels with positive propensity.
`{"op":"tauleap_full","eng":…,"x":[…],"dt":q,"draws":[…]}` → means in call order + next state for the drawn counts.
`{"op":"cons_totals","eng":…,"x":[…],"c":[[…],…]}` → `total c x` for each vector c (C02).
-/
import Strengths.Driver.Engine

namespace Strengths.Driver
open Lean Strengths.Gen

/-- channel propensities in the engine's scan order -/
def scanWeights (e : EngIn) (x : State) : List Rat :=
  (List.range e.topo.nCells).flatMap fun i =>
    ((List.range e.net.nReact).map fun r => reactionProp e x i r) ++
    ((speciesSlots e i).map fun p => diffPropSlot e x i p.1 p.2)

def absRat (q : Rat) : Rat := if q < 0 then -q else q

def opGillespieStepM : Handler := fun j => do
  let d ← getEngIn (← field j "eng")
  let x ← getState d (← field j "x")
  let u1 ← getRat (← field j "u1")
  let l ← getRat (← field j "L")
  let a := a0 d.e x
  match gillespieStep d.e x u1 l with
  | none => return Json.mkObj [("ok", Json.mkObj [("a0", ratJson a), ("complete", true)])]
  | some g =>
    let ws := scanWeights d.e x
    let r := u1 * a
    let (_, margin) := ws.foldl (fun (acc : Rat × Rat) w =>
      let cum := acc.1 + w
      (cum, if absRat (r - cum) < acc.2 then absRat (r - cum) else acc.2)) ((0 : Rat), absRat r + a)
    let npos := (ws.filter (· > 0)).length
    return Json.mkObj [("ok", Json.mkObj [("a0", ratJson a), ("complete", false), ("x", stateJson d g.x),
      ("dt", ratJson g.dt), ("event", match g.event with | some ev => eventJson ev | none => Json.null),
      ("margin", ratJson (margin / a)), ("nchan", (npos : Nat))])]

def opTauLeapFull : Handler := fun j => do
  let d ← getEngIn (← field j "eng")
  let x ← getState d (← field j "x")
  let dt ← getRat (← field j "dt")
  let ds ← getIntList (← field j "draws")
  let means := tauLeapMeans d.e dt x
  match poissonCounts means ds with
  | none => return Json.mkObj [("ok", Json.mkObj [("means", ratListJson means), ("x", Json.null)])]
  | some cs =>
    match countsOfDraws d.e cs with
    | none => return Json.mkObj [("error", "badValue")]
    | some c => return Json.mkObj [("ok", Json.mkObj [("means", ratListJson means), ("x", stateJson d (tauLeapApply d.e c x))])]

def opConsTotals : Handler := fun j => do
  let d ← getEngIn (← field j "eng")
  let x ← getState d (← field j "x")
  let cs ← (← getArr (← field j "c")).mapM getRatList
  let tot := cs.map fun c =>
    (List.range d.n).foldl (fun acc i =>
      (List.range d.ns).foldl (fun acc s => acc + c.getD s 0 * x i s) acc) (0 : Rat)
  return Json.mkObj [("ok", ratListJson tot)]

def stochOps : List (String × Handler) :=
  [("gillespie_step_m", opGillespieStepM), ("tauleap_full", opTauLeapFull), ("cons_totals", opConsTotals)]

end Strengths.Driver
