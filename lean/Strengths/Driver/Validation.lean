/- Driver operations for the input checks (C20): `{"op":"validate","kind":..}`. -/
import Strengths.Driver.Network
import Strengths.Driver.Grid
import Strengths.Model.Validation

namespace Strengths.Driver
open Lean

def getVSpace (j : Json) : Except String VSpace := do
  match fieldOpt j "grid", fieldOpt j "graph" with
  | some g, _ => return .grid (← getShape g)
  | _, some n => return .graph (← getNat n)
  | _, _ => throw "space must be {grid:shape} or {graph:n}"

def getVPos (j : Json) : Except String VPos := do
  match fieldOpt j "p", fieldOpt j "xyz", fieldOpt j "obj" with
  | some p, _, _ => return .num (← getInt p)
  | _, some c, _ =>
    match ← getIntList c with
    | [x, y, z] => return .xyz x y z
    | _ => throw "xyz must have three entries"
  | _, _, some c =>
    match ← getIntList c with
    | [x, y, z] => return .obj x y z
    | _ => throw "obj must have three entries"
  | _, _, _ => throw "pos must be {p:i}, {xyz:[x,y,z]} or {obj:[x,y,z]}"

def getSpeciesRef (j : Json) : Except String SpeciesRef := do
  match fieldOpt j "idx", fieldOpt j "label" with
  | some i, _ => return .idx (← getInt i)
  | _, some l => return .label (← chars l)
  | _, _ => throw "species must be {idx:i} or {label:l}"

def getOptLabels (j : Json) : Except String (List (Option Label)) := do
  (← getArr j).mapM fun v =>
    match v with
    | .null => pure none
    | v => do return some (← chars v)

/-- a list of Python values: JSON integers, `null` for anything that is not an `int` -/
def getOptInts (j : Json) : Except String (List (Option Int)) := do
  (← getArr j).mapM fun v =>
    match v with
    | .null => pure none
    | v => do return some (← getInt v)

def pairsJson (l : List (String × String)) : Json :=
  Json.arr (l.map fun (a, b) => Json.arr #[Json.str a, Json.str b]).toArray

def unitJson : Unit → Json := fun _ => Json.null

def opValidate : Handler := fun j => do
  let kind ← getStr (← field j "kind")
  match kind with
  | "keys" => return resJson unitJson (fromDictKeys (← getStr (← field j "fn")) (← getStrList (← field j "keys")))
  | "units_keyword" => return resJson unitJson (unitsKeyword (← getStr (← field j "v")))
  | "boundary" =>
    let bc ← (← getArr (← field j "bc")).mapM fun p => do
      match ← getArr p with
      | [a, c] => return (← getStr a, ← getStr c)
      | _ => throw "bc entries must be [axis, condition]"
    let cur ← match fieldOpt j "cur" with
      | some c => (← getArr c).mapM fun p => do
        match ← getArr p with
        | [a, c] => return (← getStr a, ← getStr c)
        | _ => throw "cur entries must be [axis, condition]"
      | none => pure Gen.pyBoundaryDefaults
    let (r, st) := setBoundaryConditions cur bc
    match r with
    | .ok () => return Json.mkObj [("ok", Json.null), ("state", pairsJson st)]
    | .error e => return Json.mkObj [("error", errName e), ("state", pairsJson st)]
  | "engine_option" =>
    return resJson unitJson (engineSetupOption (← getBool (← field j "graph")) (← getStr (← field j "v")))
  | "policy" => return resJson unitJson (setSamplingPolicy (← getStr (← field j "v")))
  | "mode" => return resJson unitJson (setInitStateProcessing (← getStr (← field j "v")))
  | "grid_ctor" =>
    let e ← field j "env"
    let ce ← match fieldOpt e "num", fieldOpt e "arr" with
      | some n, _ => pure (CellEnvIn.num (← getInt n))
      | _, some a => pure (CellEnvIn.arr (← getIntList a))
      | _, _ => throw "env must be {num:e} or {arr:[..]}"
    return resJson intListJson (mkGridEnv (← getInt (← field j "w")) (← getInt (← field j "h")) (← getInt (← field j "d")) ce)
  | "env_map" =>
    let given (k : String) : Except String Bool := match fieldOpt j k with
      | some v => getBool v
      | none => pure false
    return resJson unitJson (systemEnvCheck (← given "state_given") (← given "chem_given") (← getNat (← field j "nspecies"))
      (← getNat (← field j "nenv")) (← getIntList (← field j "cell_env")))
  | "accessor" =>
    return resJson (fun (o : Option Int) => match o with | some i => intJson i | none => Json.null)
      ((← getVSpace (← field j "space")).accessorCheck (← getStr (← field j "accessor")) (← getVPos (← field j "pos")))
  | "cell_index" => return resJson intJson ((← getVSpace (← field j "space")).cellIndex (← getVPos (← field j "pos")))
  | "state_index" =>
    return resJson intJson (stateIndexOf (← getOptLabels (← field j "labels")) (← getVSpace (← field j "space"))
      (← getSpeciesRef (← field j "species")) (← getVPos (← field j "pos")))
  | "set_entry" =>
    return resJson ratListJson (setEntry (← getRatList (← field j "arr")) (← getOptLabels (← field j "labels"))
      (← getVSpace (← field j "space")) (← getSpeciesRef (← field j "species")) (← getVPos (← field j "pos")) (← getRat (← field j "v")))
  | "get_entry" =>
    return resJson ratJson (getEntry (← getRatList (← field j "arr")) (← getOptLabels (← field j "labels"))
      (← getVSpace (← field j "space")) (← getSpeciesRef (← field j "species")) (← getVPos (← field j "pos")))
  | "field" =>
    return resJson uvalJson (setField (← getStr (← field j "field")) (← getSys (← field j "sys")) (← getScalar (← field j "v")))
  | "field_dim" =>
    return resJson uvalJson (processScalar (← getSys (← field j "sys")) (← getDim (← field j "dim")) (← getScalar (← field j "v")))
  | "array_text" =>
    return resJson unitJson (arrayTextElement (← getStr (← field j "field")) (← getSys (← field j "sys")) (← getRat (← field j "v"))
      (← getStr (← field j "u")))
  | "sys" =>
    return resJson sysJson (mkSys (← getStr (← field j "space")) (← getStr (← field j "time")) (← getStr (← field j "quantity")))
  | "index_map" => return resJson unitJson (vCheckIndexMap (← getOptInts (← field j "im")) (← getIntList (← field j "env")))
  | "environments" => return resJson unitJson (checkEnvironments (← getStrList (← field j "envs")))
  | _ => throw s!"unknown validate kind {kind}"

def validationOps : List (String × Handler) := [("validate", opValidate)]

end Strengths.Driver
