/-
JSON-lines protocol helpers (DESIGN §5.4).  Rationals travel as "p/q" strings (or JSON integers).
-/
import Lean.Data.Json
import Strengths.Model.Units

namespace Strengths.Driver
open Lean

abbrev Handler := Json → Except String Json

def parseRatStr (s : String) : Except String Rat :=
  match s.splitOn "/" with
  | [p] => match p.trimAscii.toString.toInt? with
    | some n => .ok (n : Rat)
    | none => .error s!"bad rational {s}"
  | [p, q] => match p.trimAscii.toString.toInt?, q.trimAscii.toString.toNat? with
    | some n, some d => if d == 0 then .error s!"zero denominator {s}" else .ok ((n : Rat) / (d : Rat))
    | _, _ => .error s!"bad rational {s}"
  | _ => .error s!"bad rational {s}"

def getRat (j : Json) : Except String Rat :=
  match j with
  | .str s => parseRatStr s
  | .num n => if n.exponent == 0 then .ok (n.mantissa : Rat) else
      .ok ((n.mantissa : Rat) / ((10 : Rat) ^ n.exponent))
  | _ => .error s!"expected rational, got {j.compress}"

def ratJson (r : Rat) : Json :=
  if r.den == 1 then .str (toString r.num) else .str s!"{r.num}/{r.den}"

def getInt (j : Json) : Except String Int :=
  match j.getInt? with
  | .ok n => .ok n
  | .error e => .error e

def getNat (j : Json) : Except String Nat :=
  match j.getNat? with
  | .ok n => .ok n
  | .error e => .error e

def getStr (j : Json) : Except String String :=
  match j.getStr? with
  | .ok s => .ok s
  | .error e => .error e

def getBool (j : Json) : Except String Bool :=
  match j.getBool? with
  | .ok s => .ok s
  | .error e => .error e

def getArr (j : Json) : Except String (List Json) :=
  match j.getArr? with
  | .ok a => .ok a.toList
  | .error e => .error e

def field (j : Json) (k : String) : Except String Json :=
  match j.getObjVal? k with
  | .ok v => .ok v
  | .error e => .error e

def fieldOpt (j : Json) (k : String) : Option Json :=
  match j.getObjVal? k with
  | .ok .null => none
  | .ok v => some v
  | .error _ => none

def getRatList (j : Json) : Except String (List Rat) := do (← getArr j).mapM getRat
def getIntList (j : Json) : Except String (List Int) := do (← getArr j).mapM getInt
def getNatList (j : Json) : Except String (List Nat) := do (← getArr j).mapM getNat
def getStrList (j : Json) : Except String (List String) := do (← getArr j).mapM getStr

def ratListJson (l : List Rat) : Json := .arr (l.map ratJson).toArray
def intListJson (l : List Int) : Json := .arr (l.map (fun (n : Int) => Json.num ⟨n, 0⟩)).toArray
def natListJson (l : List Nat) : Json := .arr (l.map (fun (n : Nat) => Json.num ⟨(n : Int), 0⟩)).toArray
def intJson (n : Int) : Json := Json.num ⟨n, 0⟩

def getSys (j : Json) : Except String Sys := do
  return ⟨← getStr (← field j "space"), ← getStr (← field j "time"), ← getStr (← field j "quantity")⟩

def getDim (j : Json) : Except String Dim := do
  match ← getIntList j with
  | [a, b, c] => return ⟨a, b, c⟩
  | _ => throw "dim must be [space,time,quantity]"

def getUnits (j : Json) : Except String Units := do
  return ⟨← getSys (← field j "sys"), ← getDim (← field j "dim")⟩

def sysJson (s : Sys) : Json := Json.mkObj [("space", s.space), ("time", s.time), ("quantity", s.qty)]
def dimJson (d : Dim) : Json := intListJson [d.space, d.time, d.qty]
def unitsJson (u : Units) : Json := Json.mkObj [("sys", sysJson u.sys), ("dim", dimJson u.dim)]

def getUVal (j : Json) : Except String UVal := do
  return ⟨← getRat (← field j "v"), ← getUnits (← field j "u")⟩
def getUArr (j : Json) : Except String UArr := do
  return ⟨← getRatList (← field j "vs"), ← getUnits (← field j "u")⟩
def uvalJson (x : UVal) : Json := Json.mkObj [("v", ratJson x.v), ("u", unitsJson x.u)]
def uarrJson (x : UArr) : Json := Json.mkObj [("vs", ratListJson x.vs), ("u", unitsJson x.u)]

def errName : Err → String
  | .dimMismatch => "dimMismatch" | .badUnit => "badUnit" | .badSyntax => "badSyntax"
  | .badKey => "badKey" | .badValue => "badValue" | .outOfRange => "outOfRange"
  | .notImplemented => "notImplemented" | .typeError => "typeError"

/-- a model-level result: `{"ok": …}` or `{"error": "<enum>"}` -/
def resJson {α} (f : α → Json) : Res α → Json
  | .ok a => Json.mkObj [("ok", f a)]
  | .error e => Json.mkObj [("error", errName e)]

end Strengths.Driver
