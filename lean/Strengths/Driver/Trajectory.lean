/- Driver operations for the trajectory accessors (C17). -/
import Strengths.Driver.Json
import Strengths.Driver.Grid
import Strengths.Model.Trajectory

namespace Strengths.Driver
open Lean

def getSpeciesArg (j : Json) : Except String SpeciesArg := do
  match fieldOpt j "idx", fieldOpt j "label", fieldOpt j "obj" with
  | some i, _, _ => return .idx (← getInt i)
  | _, some s, _ => return .label (← getStr s)
  | _, _, some s => return .obj (← getStr s)
  | _, _, _ => throw "species arg needs idx | label | obj"

def getPosArg (j : Json) : Except String PosArg := do
  match fieldOpt j "idx", fieldOpt j "coords", fieldOpt j "obj" with
  | some i, _, _ => return .idx (← getInt i)
  | _, some c, _ => match ← getIntList c with
    | [x, y, z] => return .coords x y z
    | _ => throw "coords must have three entries"
  | _, _, some c => match ← getIntList c with
    | [x, y, z] => return .obj x y z
    | _ => throw "obj must have three entries"
  | _, _, _ => throw "position arg needs idx | coords | obj"

def getTimeArg (j : Json) : Except String TimeArg := do
  match fieldOpt j "num", fieldOpt j "uval", fieldOpt j "str" with
  | some v, _, _ => return .num (← getRat v)
  | _, some x, _ => return .uval (← getUVal x)
  | _, _, some x => return .str (← getRat (← field x "v")) (← getStr (← field x "units"))
  | _, _, _ => return .other

def getSpaceKind (j : Json) : Except String SpaceKind := do
  match ← getStr (← field j "kind") with
  | "grid" => return .grid (← getShape (← field j "shape"))
  | "graph" => return .graph (← getNat (← field j "size"))
  | k => throw s!"unknown space kind {k}"

def valuesJson (r : Res (List Rat × Units)) : Json :=
  match r with
  | .ok (v, u) => Json.mkObj [("ok", ratListJson v), ("units", unitsJson u)]
  | .error e => Json.mkObj [("error", errName e)]

def trajQuery (cx : TrajCtx) (q : Json) : Except String Json := do
  match ← getStr (← field q "q") with
  | "point" =>
    let r := cx.getPoint (← getSpeciesArg (← field q "sp")) (← getInt (← field q "k")) (← getPosArg (← field q "pos"))
    return match r with
      | .ok (v, u) => Json.mkObj [("ok", ratJson v), ("units", unitsJson u)]
      | .error e => Json.mkObj [("error", errName e)]
  | "state" =>
    let sp ← match fieldOpt q "sp" with
      | some s => pure (some (← getSpeciesArg s))
      | none => pure none
    return valuesJson (cx.getState sp (← getInt (← field q "k")))
  | "traj" =>
    return valuesJson (cx.getTrajectory (← getSpeciesArg (← field q "sp")) (← getPosArg (← field q "pos"))
      (← getBool (← field q "merge")))
  | "index" =>
    let r := cx.tr.sampleIndex (← getTimeArg (← field q "t")) (← getStr (← field q "policy"))
    return resJson (fun o => match o with | some n => Json.num ⟨(n : Int), 0⟩ | none => Json.null) r
  | k => throw s!"unknown trajectory query {k}"

def getTrajEdit (j : Json) : Except String TrajEdit := do
  match fieldOpt j "data", fieldOpt j "ts", fieldOpt j "du" with
  | some d, _, _ => return .data (← getRatList d)
  | _, some t, _ => return .times (← getRatList t)
  | _, _, some u => return .dataUnits (← getUnits u)
  | _, _, _ => throw "trajectory edit needs data | ts | du"

/-- `{"op":"traj","ns":..,"nc":..,"ts":[..],"tu":units,"data":[..],"du":units,"labels":[..],"space":{..},"queries":[..]}`;
optional `"edits":[{"data":[..]} | {"ts":[..]} | {"du":units}, …]` = edits made after construction (and after earlier reads),
oldest first; the queries are answered on the edited trajectory -/
def opTraj : Handler := fun j => do
  let tr0 : Traj := { ns := ← getNat (← field j "ns"), nc := ← getNat (← field j "nc"),
                      ts := ← getRatList (← field j "ts"), tu := ← getUnits (← field j "tu"),
                      data := ← getRatList (← field j "data"), du := ← getUnits (← field j "du") }
  let es ← match fieldOpt j "edits" with
    | some e => (← getArr e).mapM getTrajEdit
    | none => pure []
  let tr := tr0.edits es
  let cx : TrajCtx := { tr := tr, labels := ← getStrList (← field j "labels"), space := ← getSpaceKind (← field j "space") }
  let rs ← (← getArr (← field j "queries")).mapM (trajQuery cx)
  return Json.mkObj [("ok", Json.arr rs.toArray)]

def trajOps : List (String × Handler) := [("traj", opTraj)]

end Strengths.Driver
