/-
JSON-lines driver of the executable model (DESIGN §5.4).
  lake env lean --run Driver.lean < ops.jsonl > results.jsonl
One JSON object per input line with an "op" field; one JSON line out per input line:
  {"ok": …} | {"error": "<enum>"}   model-level answer
  {"fail": "<message>"}             the driver could not read the operation (harness bug)
-/
import Strengths.Driver.All
open Lean Strengths.Driver

def answer (line : String) : String :=
  match Json.parse line with
  | .error e => (Json.mkObj [("fail", s!"json: {e}")]).compress
  | .ok j =>
    match j.getObjVal? "op" >>= Json.getStr? with
    | .error e => (Json.mkObj [("fail", s!"op: {e}")]).compress
    | .ok op =>
      match allOps.lookup op with
      | none => (Json.mkObj [("fail", s!"unknown op {op}")]).compress
      | some h =>
        match h j with
        | .ok r => r.compress
        | .error e => (Json.mkObj [("fail", e)]).compress

partial def loop (h : IO.FS.Stream) (out : IO.FS.Stream) : IO Unit := do
  let line ← h.getLine
  if line.isEmpty then return ()
  let l := line.trimAscii.toString
  if l.isEmpty then out.putStrLn "{\"fail\":\"empty line\"}" else out.putStrLn (answer l)
  loop h out

def main : IO Unit := do
  let out ← IO.getStdout
  loop (← IO.getStdin) out
  out.flush
