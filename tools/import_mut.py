#!/usr/bin/env python3
"""Import mutations written by independent sub-agents (/tmp/mutout_<ID>/m<k>/) into seeded/<ID>_m<k>/ after
confirming, in a scratch worktree of /repo: the patch applies; the demonstration exits 0 on the clean tree and
non-zero on the changed tree; the repository's own suite still gives the 118 baseline passes on the changed tree.
usage: tools/import_mut.py C06 [C05 …]
"""
import json, os, re, shutil, subprocess, sys
ROOT = os.path.dirname(os.path.dirname(os.path.abspath(__file__)))
ENG_DIR = "src/strengths/engines/strengths_engine"


def sh(cmd, **kw):
    return subprocess.run(cmd, stdout=subprocess.PIPE, stderr=subprocess.STDOUT, text=True, **kw)


def build_engine(wt):
    src = os.path.join(wt, ENG_DIR, "src")
    out = os.path.join(wt, ENG_DIR, "engine.cpython-312-x86_64-linux-gnu.so")
    r = sh(["g++", "-std=c++11", "-O1", "-fPIC", "-shared", "-ffp-contract=off", "-I", src, os.path.join(src, "engine.cpp"), "-o", out])
    return r.returncode == 0, r.stdout[-500:]


def run_demo(wt, demo):
    env = dict(os.environ, PYTHONPATH=os.path.join(wt, "src"))
    try:
        r = sh(["/venv/bin/python", demo], env=env, cwd=wt, timeout=900)
        return r.returncode, r.stdout[-600:]
    except subprocess.TimeoutExpired:
        return 124, "timeout"


def run_suite(wt):
    env = dict(os.environ, PYTHONPATH=os.path.join(wt, "src"))
    r = sh(["/venv/bin/python", "-m", "pytest", "-q", "-p", "no:cacheprovider", "--timeout=900", "--continue-on-collection-errors"],
           env=env, cwd=wt, timeout=1800)
    m = re.search(r"(\d+) failed, (\d+) passed", r.stdout) or re.search(r"(\d+) passed", r.stdout)
    return r.stdout.strip().splitlines()[-1] if r.stdout.strip() else "", r.stdout


def main():
    args = sys.argv[1:]
    prefix, tag = "mutout", "m"
    if args and args[0] == "--round2":
        prefix, tag, args = "mutout2", "n", args[1:]
    elif args and args[0] == "--round3":
        prefix, tag, args = "mutout3", "p", args[1:]
    elif args and args[0] == "--round4":
        prefix, tag, args = "mutout4", "q", args[1:]
    elif args and args[0] == "--round5":
        prefix, tag, args = "mutout5", "r", args[1:]
    elif args and args[0] == "--round6":
        prefix, tag, args = "mutout6", "s", args[1:]
    elif args and args[0] == "--round7":
        prefix, tag, args = "mutout7", "t", args[1:]
    elif args and args[0] == "--round8":
        prefix, tag, args = "mutout8", "u", args[1:]
    elif args and args[0] == "--round9":
        prefix, tag, args = "mutout9", "v", args[1:]
    elif args and args[0] == "--round10":
        prefix, tag, args = "mutout10", "w", args[1:]
    for pid in args:
        base = "/tmp/%s_%s" % (prefix, pid)
        if not os.path.isdir(base):
            print(pid, "no output dir")
            continue
        for mk in sorted(os.listdir(base)):
            d = os.path.join(base, mk)
            if not os.path.exists(os.path.join(d, "patch.diff")):
                continue
            name = "%s_%s" % (pid, mk.replace("m", tag, 1))
            wt = "/tmp/impwt_%s" % name
            sh(["git", "-C", "/repo", "worktree", "remove", "--force", wt])
            sh(["git", "-C", "/repo", "worktree", "add", "--detach", wt, "HEAD"])
            rec = {}
            try:
                ok, log = build_engine(wt)
                rec["clean_engine_build"] = ok
                rc0, out0 = run_demo(wt, os.path.join(d, "demo.py"))
                rec["demo_clean_rc"] = rc0
                r = sh(["git", "-C", wt, "apply", "--whitespace=nowarn", os.path.join(d, "patch.diff")])
                rec["applies"] = r.returncode == 0
                if rec["applies"]:
                    ok, log = build_engine(wt)
                    rec["mutated_engine_build"] = ok
                    rc1, out1 = run_demo(wt, os.path.join(d, "demo.py"))
                    rec["demo_mutated_rc"] = rc1
                    rec["demo_mutated_tail"] = out1[-300:]
                    rec["suite_mutated"], _ = run_suite(wt)
            finally:
                sh(["git", "-C", "/repo", "worktree", "remove", "--force", wt])
            good = rec.get("applies") and rec.get("demo_clean_rc") == 0 and rec.get("demo_mutated_rc") not in (0, None, 124) \
                and "118 passed" in rec.get("suite_mutated", "") and rec.get("mutated_engine_build")
            print(name, "CONFIRMED" if good else "REJECTED", {k: v for k, v in rec.items() if k != "demo_mutated_tail"})
            if good:
                dst = os.path.join(ROOT, "seeded", name)
                os.makedirs(dst, exist_ok=True)
                shutil.copy(os.path.join(d, "patch.diff"), dst)
                shutil.copy(os.path.join(d, "demo.py"), dst)
                try:
                    meta = json.load(open(os.path.join(d, "meta.json")))
                except Exception:
                    meta = {}
                meta["breaks"] = [pid]
                meta["origin"] = "independent sub-agent given only the property text and a scratch worktree of /repo"
                meta["confirmed_by_me"] = rec
                meta.setdefault("caught_by", [])
                json.dump(meta, open(os.path.join(dst, "meta.json"), "w"), indent=1, ensure_ascii=False)


if __name__ == "__main__":
    main()
