#!/usr/bin/env python3
"""Run every registered check (MANIFEST.json) once; usage: tools/run_all.py [--tier quick] [--seed N] [--jobs 4] [ids…]"""
import argparse, json, os, subprocess, sys, time, concurrent.futures as cf
ROOT = os.path.dirname(os.path.dirname(os.path.abspath(__file__)))


def main():
    ap = argparse.ArgumentParser()
    ap.add_argument("ids", nargs="*")
    ap.add_argument("--tier", default="quick")
    ap.add_argument("--seed", default="0")
    ap.add_argument("--jobs", type=int, default=4)
    a = ap.parse_args()
    man = json.load(open(os.path.join(ROOT, "MANIFEST.json")))
    ids = a.ids or [c["property_id"] for c in man["checks"]]

    def one(pid):
        t = time.time()
        env = dict(os.environ, VERIF_SEED=a.seed, VERIF_TIER=a.tier)
        try:
            r = subprocess.run([os.path.join(ROOT, "check"), pid, "--tier", a.tier], stdout=subprocess.PIPE, stderr=subprocess.STDOUT,
                               text=True, env=env, timeout=3600)
            rc, out = r.returncode, r.stdout
        except subprocess.TimeoutExpired:
            rc, out = 2, "timeout"
        return pid, rc, time.time() - t, out.strip().splitlines()[-3:]
    bad = 0
    with cf.ThreadPoolExecutor(max_workers=a.jobs) as ex:
        for pid, rc, dt, tail in ex.map(one, ids):
            print("%s rc=%d %.0fs  %s" % (pid, rc, dt, " | ".join(tail)[:300]), flush=True)
            bad += rc != 0
    return 1 if bad else 0


if __name__ == "__main__":
    sys.exit(main())
