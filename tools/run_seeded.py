#!/usr/bin/env python3
"""Run the registered checks against the seeded changes in seeded/<name>/ (patch.diff + meta.json).

For every seeded change: a scratch worktree of /repo is created under /tmp, the patch applied, and the quick check of
every property listed in meta["breaks"] is run with VERIF_REPO pointing at the worktree, VERIF_LEAN_DIR at a private
copy of lean/ (so the committed Gen files and the main build are not disturbed) and VERIF_OUT_DIR at a temp dir.
Outcome per (change, property): caught-with-input | caught-no-input | MISSED | broken(exit 2).
usage: tools/run_seeded.py [names…] [--props C01,C02] [--jobs N] [--tier quick]
Writes seeded/RESULTS.json and prints a table.
"""
import argparse, json, os, shutil, subprocess, sys, tempfile, concurrent.futures as cf
ROOT = os.path.dirname(os.path.dirname(os.path.abspath(__file__)))


def sh(cmd, **kw):
    return subprocess.run(cmd, stdout=subprocess.PIPE, stderr=subprocess.STDOUT, text=True, **kw)


def registered():
    man = json.load(open(os.path.join(ROOT, "MANIFEST.json")))
    return {c["property_id"] for c in man["checks"]}


def run_one(name, props, tier, slot):
    d = os.path.join(ROOT, "seeded", name)
    meta = json.load(open(os.path.join(d, "meta.json")))
    wt = "/tmp/seedrepo_%d_%d" % (os.getpid(), slot)
    lean = "/tmp/seedlean_%d_%d" % (os.getpid(), slot)
    out = tempfile.mkdtemp(prefix="seedout_")
    res = {}
    import time
    for attempt in range(6):     # concurrent `git worktree add` calls can collide on the repository lock
        sh(["git", "-C", "/repo", "worktree", "remove", "--force", wt])
        shutil.rmtree(wt, ignore_errors=True)
        sh(["git", "-C", "/repo", "worktree", "prune"])
        r = sh(["git", "-C", "/repo", "worktree", "add", "--detach", wt, "HEAD"])
        if r.returncode == 0 and os.path.isdir(os.path.join(wt, "src")):
            break
        time.sleep(1 + attempt)
    else:
        return name, {p: {"outcome": "scratch-worktree-failed", "log": r.stdout[-300:]} for p in props}
    try:
        r = sh(["git", "-C", wt, "apply", "--whitespace=nowarn", os.path.join(d, "patch.diff")])
        if r.returncode != 0:
            return name, {p: {"outcome": "patch-does-not-apply", "log": r.stdout[-300:]} for p in props}
        if not os.path.exists(lean):
            shutil.copytree(os.path.join(ROOT, "lean"), lean, symlinks=True)
        else:
            # refresh sources (keep .lake build cache)
            sh(["rsync", "-a", "--delete", "--exclude", ".lake", os.path.join(ROOT, "lean") + "/", lean + "/"])
        for p in props:
            env = dict(os.environ, VERIF_REPO=wt, VERIF_LEAN_DIR=lean, VERIF_OUT_DIR=out, VERIF_TIER=tier)
            try:
                r = sh([os.path.join(ROOT, "check"), p, "--tier", tier], env=env, timeout=1800)
                rc, log = r.returncode, r.stdout
            except subprocess.TimeoutExpired:
                rc, log = 2, "timeout"
            vio = [l for l in log.splitlines() if l.startswith("VIOLATION")]
            fi = [l for l in log.splitlines() if l.startswith("FAILING-INPUT") or l.startswith("BROKEN")]
            if rc == 1 and vio:
                outcome = "caught-no-input" if "no-failing-input-found" in vio[0] else "caught-with-input"
            elif rc == 0:
                outcome = "MISSED"
            else:
                outcome = "broken(exit %d)" % rc
            res[p] = {"outcome": outcome, "detail": (fi[:2] or log.splitlines()[-2:])}
    finally:
        sh(["git", "-C", "/repo", "worktree", "remove", "--force", wt])
        shutil.rmtree(out, ignore_errors=True)
    return name, res


def main():
    ap = argparse.ArgumentParser()
    ap.add_argument("names", nargs="*")
    ap.add_argument("--props", default="")
    ap.add_argument("--jobs", type=int, default=4)
    ap.add_argument("--tier", default="quick")
    a = ap.parse_args()
    reg = registered()
    names = a.names or sorted(n for n in os.listdir(os.path.join(ROOT, "seeded")) if os.path.exists(os.path.join(ROOT, "seeded", n, "patch.diff")))
    only = set(a.props.split(",")) if a.props else None
    jobs = []
    for n in names:
        meta = json.load(open(os.path.join(ROOT, "seeded", n, "meta.json")))
        props = [p for p in meta.get("breaks", []) if p in reg and (only is None or p in only)]
        if props:
            jobs.append((n, props))
    results = {}
    path = os.path.join(ROOT, "seeded", "RESULTS.json")
    if os.path.exists(path):
        results = json.load(open(path))
    # one slot = one scratch repo + lean copy; jobs are distributed over slots sequentially per slot
    slots = [[] for _ in range(max(1, a.jobs))]
    for k, j in enumerate(jobs):
        slots[k % len(slots)].append(j)

    def work(slot_idx):
        out = []
        for n, props in slots[slot_idx]:
            out.append(run_one(n, props, a.tier, slot_idx))
            print("done", out[-1][0], {p: v["outcome"] for p, v in out[-1][1].items()}, flush=True)
        return out
    with cf.ThreadPoolExecutor(max_workers=len(slots)) as ex:
        for lst in ex.map(work, range(len(slots))):
            for n, res in lst:
                results.setdefault(n, {}).update(res)
    for s in range(len(slots)):
        shutil.rmtree("/tmp/seedlean_%d_%d" % (os.getpid(), s), ignore_errors=True)
    json.dump(results, open(path, "w"), indent=1, sort_keys=True)
    print("\n%-14s %-5s %s" % ("change", "prop", "outcome"))
    for n in sorted(results):
        for p, v in sorted(results[n].items()):
            print("%-14s %-5s %s" % (n, p, v["outcome"]))
    return 0


if __name__ == "__main__":
    sys.exit(main())
