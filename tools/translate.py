#!/usr/bin/env python3
"""Translator entry point: /repo sources -> lean/Strengths/Gen/*.lean  (DESIGN.md §5.1).

usage: translate.py [--repo /repo] [--out /verif/lean/Strengths/Gen]
Files are rewritten only when their content changes (so an unchanged tree costs a no-op build).
Prints a JSON status line {"lost": [...], "written": [...], "unchanged": [...]} and stores it in
Gen/_status.json.
"""
import json, os, sys
HERE = os.path.dirname(os.path.abspath(__file__))
sys.path.insert(0, HERE)
from trlib import AnchorLost, HEADER, GROUPS, DEFAULT_OUT  # noqa: E402
import gen_groups  # noqa: E402,F401  (registers the groups)

def main():
    import argparse
    ap = argparse.ArgumentParser()
    ap.add_argument("--repo", default=os.environ.get("VERIF_REPO", "/repo"))
    ap.add_argument("--out", default=DEFAULT_OUT)
    args = ap.parse_args()
    os.makedirs(args.out, exist_ok=True)
    status = {"lost": [], "written": [], "unchanged": []}
    for g in GROUPS:
        fname = g.__name__.replace("gen_", "") + ".lean"
        name = fname[:-5]
        try:
            body = g(args.repo)
            text = HEADER + body
        except AnchorLost as e:
            status["lost"].append({"group": name, "anchor": str(e)})
            text = HEADER + "-- ANCHOR LOST: %s\n-- (definitions intentionally absent so that dependants fail to build)\n" % str(e).replace("\n", " ")
        except (SyntaxError, FileNotFoundError, UnicodeDecodeError) as e:
            status["lost"].append({"group": name, "anchor": "source unreadable: %r" % (e,)})
            text = HEADER + "-- SOURCE UNREADABLE\n"
        path = os.path.join(args.out, fname)
        old = None
        if os.path.exists(path):
            with open(path, encoding="utf-8") as f:
                old = f.read()
        if old != text:
            with open(path, "w", encoding="utf-8") as f:
                f.write(text)
            status["written"].append(name)
        else:
            status["unchanged"].append(name)
    with open(os.path.join(args.out, "_status.json"), "w") as f:
        json.dump(status, f, indent=1)
    print(json.dumps(status))
    return 0


if __name__ == "__main__":
    sys.exit(main())
