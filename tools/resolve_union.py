#!/usr/bin/env python3
"""resolve git conflict markers in the given files by keeping BOTH sides (ours first) — for append-only files"""
import re, sys
for p in sys.argv[1:]:
    s = open(p, encoding="utf-8").read()
    out, n = [], 0
    state = None
    for line in s.splitlines(keepends=True):
        if line.startswith("<<<<<<< "):
            state = "ours"; n += 1; continue
        if line.startswith("=======") and state == "ours":
            state = "theirs"; continue
        if line.startswith(">>>>>>> ") and state == "theirs":
            state = None; continue
        if line.startswith("||||||| "):
            state = "base"; continue
        if state == "base":
            continue
        out.append(line)
    open(p, "w", encoding="utf-8").write("".join(out))
    print(p, n, "conflict blocks united")
