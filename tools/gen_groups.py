"""Generation groups of the translator (one Lean file per group).  See DESIGN.md §5.1 (G1..G8)."""
import ast, os, re
from fractions import Fraction
from trlib import (AnchorLost, PySrc, ExprTr, CppExpr, const_number, const_str, str_list, lean_str,
                   lean_rat, lean_list, group, cpp_function_body, strip_cpp_comments)

ENGINE_SRC = "src/strengths/engines/strengths_engine/src"


# =============================================================================================
# G1 + G2 : unit tables, scales, defaults, derived-unit decomposition, u->µ substitutions
# =============================================================================================
@group
def gen_Units(repo):
    consts = PySrc(repo, "src/strengths/constants.py")
    fn = consts.func("avogadro_number")
    avo = None
    for n in ast.walk(fn):
        if isinstance(n, ast.Return):
            avo = const_number(consts, n.value, {})
    if avo is None:
        raise AnchorLost("constants.py:avogadro_number return literal")
    units = PySrc(repo, "src/strengths/units.py")
    env = {"avogadro_number": avo}

    labels = units.toplevel_assign("_units_labels_dict")
    if not isinstance(labels, ast.Dict):
        raise AnchorLost("units.py:_units_labels_dict literal")
    lab = {const_str(k): str_list(v) for k, v in zip(labels.keys, labels.values)}
    for k in ("space", "time", "quantity", "density", "volume"):
        if k not in lab:
            raise AnchorLost("units.py:_units_labels_dict[%s]" % k)
    label_key_order = [const_str(k) for k in labels.keys]

    conv = units.toplevel_assign("_units_conversion_dict")
    if not isinstance(conv, ast.Dict):
        raise AnchorLost("units.py:_units_conversion_dict literal")
    scale = {}
    for k, v in zip(conv.keys, conv.values):
        if not isinstance(v, ast.Dict):
            raise AnchorLost("units.py:_units_conversion_dict inner literal")
        scale[const_str(k)] = [(const_str(kk), const_number(units, vv, env)) for kk, vv in zip(v.keys, v.values)]
    for k in ("space", "time", "quantity"):
        if k not in scale:
            raise AnchorLost("units.py:_units_conversion_dict[%s]" % k)

    dflt = units.toplevel_assign("_default_units_system_dict")
    dfl = {const_str(k): const_str(v) for k, v in zip(dflt.keys, dflt.values)}

    # compute_conversion_factor: f *= (tbl[k][src[k]] / tbl[k][dst[k]]) ** sdim[k]
    ccf = units.func("compute_conversion_factor")
    ok = False
    for n in ast.walk(ccf):
        if isinstance(n, ast.AugAssign) and isinstance(n.op, ast.Mult):
            txt = re.sub(r"\s+", "", units.seg(n.value))
            if txt == "(_units_conversion_dict[k][su_src[k]]/_units_conversion_dict[k][su_dst[k]])**sdim[k]":
                ok = True
    if not ok:
        raise AnchorLost("units.py:compute_conversion_factor product formula")

    pu = units.func("parse_units")
    # the s.replace(a, b) chain, in order
    subst = []
    for n in pu.body:
        if isinstance(n, ast.Assign) and isinstance(n.value, ast.Call) and isinstance(n.value.func, ast.Attribute) \
                and n.value.func.attr == "replace" and len(n.value.args) == 2:
            subst.append((const_str(n.value.args[0]), const_str(n.value.args[1])))
    if not subst:
        raise AnchorLost("units.py:parse_units replace chain")

    def chain(fname):
        f = units.nested_func(pu, fname)
        out = []
        node = f.body[0]
        while isinstance(node, ast.If):
            t = node.test
            if not (isinstance(t, ast.Compare) and len(t.ops) == 1 and isinstance(t.ops[0], ast.Eq)):
                raise AnchorLost("units.py:parse_units.%s chain test" % fname)
            key = const_str(t.comparators[0])
            ret = node.body[0]
            if not isinstance(ret, ast.Return):
                raise AnchorLost("units.py:parse_units.%s chain return" % fname)
            if isinstance(ret.value, ast.Tuple):
                val = tuple(const_str(e) for e in ret.value.elts)
            else:
                val = (const_str(ret.value),)
            out.append((key, val))
            node = node.orelse[0] if node.orelse else None
        if not out:
            raise AnchorLost("units.py:parse_units.%s chain" % fname)
        return out

    volbase = chain("get_volume_fundamental_unit")
    concbase = chain("get_concentration_fundamental_units")

    # exponent characters and separators in the character loop
    expchars, seps = None, None
    for n in ast.walk(pu):
        if isinstance(n, ast.Compare) and len(n.ops) == 1 and isinstance(n.ops[0], ast.In) \
                and isinstance(n.comparators[0], ast.List) and isinstance(n.left, ast.Name):
            try:
                cand = str_list(n.comparators[0])
            except AnchorLost:
                continue
            if "-" in cand and "0" in cand:
                expchars = cand
        if isinstance(n, ast.BoolOp) and isinstance(n.op, ast.Or):
            try:
                vals = [const_str(v.comparators[0]) for v in n.values
                        if isinstance(v, ast.Compare) and isinstance(v.ops[0], ast.Eq)]
            except AnchorLost:
                continue
            if len(vals) == len(n.values) and all(len(v) == 1 for v in vals) and "." in vals:
                seps = vals
    if expchars is None or seps is None:
        raise AnchorLost("units.py:parse_units exponent chars / separators")
    # multipliers used for derived units in addunit calls: volume -> b[2]*3 ; density -> b[2]*-3 and b[2]
    mults = {}
    for n in ast.walk(pu):
        if isinstance(n, ast.If) and isinstance(n.test, ast.Compare) and isinstance(n.test.left, ast.Name) \
                and n.test.left.id == "unittype" and isinstance(n.test.comparators[0], ast.Constant) \
                and isinstance(n.test.comparators[0].value, str):
            kind = const_str(n.test.comparators[0])
            calls = []
            for c in n.body:
                if isinstance(c, ast.Expr) and isinstance(c.value, ast.Call) and getattr(c.value.func, "id", "") == "addunit":
                    a = c.value.args
                    field = const_str(a[0])
                    e = re.sub(r"\s+", "", units.seg(a[2]))
                    m = re.fullmatch(r"b\[2\](?:\*(-?\d+))?", e)
                    if not m:
                        raise AnchorLost("units.py:parse_units addunit exponent " + e)
                    calls.append((field, int(m.group(1) or 1)))
            mults[kind] = calls
    want = {"space": [("space", 1)], "time": [("time", 1)], "quantity": [("quantity", 1)]}
    for k in ("space", "time", "quantity", "volume", "density"):
        if k not in mults:
            raise AnchorLost("units.py:parse_units addunit branch " + k)

    def pairs(lst):
        return "[" + ", ".join("(%s, %s)" % (lean_str(a), lean_rat(b)) for a, b in lst) + "]"

    L = []
    L.append("namespace Strengths.Gen\n")
    L.append("/-- `constants.avogadro_number()` (exact decimal value of the literal) -/")
    L.append("def avogadro : Rat := %s\n" % lean_rat(avo))
    L.append("/-- key order of `_units_labels_dict` (lookup order of `get_unit_type`) -/")
    L.append("def unitTypeOrder : List String := %s\n" % lean_list([lean_str(k) for k in label_key_order]))
    for k, nm in (("space", "spaceSyms"), ("time", "timeSyms"), ("quantity", "qtySyms"), ("density", "densitySyms"),
                  ("volume", "volumeSyms")):
        L.append("def %s : List String := %s" % (nm, lean_list([lean_str(s) for s in lab[k]])))
    L.append("")
    for k, nm in (("space", "spaceScale"), ("time", "timeScale"), ("quantity", "qtyScale")):
        L.append("def %s : List (String × Rat) := %s" % (nm, pairs(scale[k])))
    L.append("")
    L.append("def defaultSpace : String := %s" % lean_str(dfl["space"]))
    L.append("def defaultTime : String := %s" % lean_str(dfl["time"]))
    L.append("def defaultQty : String := %s\n" % lean_str(dfl["quantity"]))
    L.append("/-- the `s.replace(a, b)` chain at the top of `parse_units`, in order -/")
    L.append("def uSubst : List (String × String) := %s\n" %
             lean_list(["(%s, %s)" % (lean_str(a), lean_str(b)) for a, b in subst]))
    L.append("/-- `get_volume_fundamental_unit` -/")
    L.append("def volBase : List (String × String) := %s" %
             lean_list(["(%s, %s)" % (lean_str(a), lean_str(b[0])) for a, b in volbase]))
    L.append("/-- `get_concentration_fundamental_units` : symbol ↦ (quantity unit, space unit) -/")
    L.append("def concBase : List (String × String × String) := %s\n" %
             lean_list(["(%s, %s, %s)" % (lean_str(a), lean_str(b[0]), lean_str(b[1])) for a, b in concbase]))
    L.append("def expChars : List Char := %s" % lean_list(["'%s'" % c for c in expchars]))
    L.append("def sepChars : List Char := %s\n" % lean_list(["'%s'" % c for c in seps]))
    L.append("/-- exponent multipliers of the `addunit` calls per unit type: (field, multiplier) -/")
    for k in ("space", "time", "quantity", "volume", "density"):
        L.append("def addUnit_%s : List (String × Int) := %s" %
                 (k, lean_list(["(%s, (%d : Int))" % (lean_str(f), m) for f, m in mults[k]])))
    L.append("\nend Strengths.Gen")
    return "\n".join(L) + "\n"


# =============================================================================================
# G5 + G6 (Python side): index formulas and range predicates
# =============================================================================================
def _find_return_in_branch(src, fn, test_pred):
    """the `return` expression inside the first `if/elif` of fn whose test satisfies test_pred (on source text),
    or, when test_pred is None, the last top-level return"""
    def visit_if(node):
        while isinstance(node, ast.If):
            if test_pred is not None and test_pred(re.sub(r"\s+", "", src.seg(node.test))):
                for s in node.body:
                    if isinstance(s, ast.Return):
                        return s.value
            if len(node.orelse) == 1 and isinstance(node.orelse[0], ast.If):
                node = node.orelse[0]
            else:
                if test_pred is not None and test_pred("else"):
                    for s in node.orelse:
                        if isinstance(s, ast.Return):
                            return s.value
                return None
        return None
    for st in fn.body:
        if isinstance(st, ast.If):
            r = visit_if(st)
            if r is not None:
                return r
    if test_pred is None:
        for st in reversed(fn.body):
            if isinstance(st, ast.Return):
                return st.value
    raise AnchorLost("%s:%s return pattern" % (src.rel, fn.name))


def _assign_value(src, fn, name):
    for n in ast.walk(fn):
        if isinstance(n, ast.Assign) and len(n.targets) == 1 and isinstance(n.targets[0], ast.Name) and n.targets[0].id == name:
            return n.value
    raise AnchorLost("%s:%s assignment to %s" % (src.rel, fn.name, name))


@group
def gen_IndexPy(repo):
    grid = PySrc(repo, "src/strengths/rdgridspace.py")
    names_arr = {"position[0]": "x", "position[1]": "y", "position[2]": "z", "self.w": "w", "self.h": "h", "self.d": "d"}
    names_obj = {"position.x": "x", "position.y": "y", "position.z": "z", "self.w": "w", "self.h": "h", "self.d": "d"}
    gci = grid.func("get_cell_index", "RDGridSpace")
    e_arr = _find_return_in_branch(grid, gci, lambda t: t == "isarray(position)")
    e_obj = _find_return_in_branch(grid, gci, lambda t: t == "else")
    e_num = _find_return_in_branch(grid, gci, lambda t: t == "isnumber(position)")
    idx_arr = ExprTr(grid, names_arr).tr(e_arr)
    idx_obj = ExprTr(grid, names_obj).tr(e_obj)
    idx_num = ExprTr(grid, {"position": "p"}).tr(e_num)
    # the guard at the top of get_cell_index / get_cell_coordinates: `if not self.is_within_bounds(..): raise`
    def has_guard(fn, arg):
        for st in fn.body:
            if isinstance(st, ast.If) and re.sub(r"\s+", "", grid.seg(st.test)) == "notself.is_within_bounds(%s)" % arg \
                    and any(isinstance(b, ast.Raise) for b in st.body):
                return True
        return False
    gcc = grid.func("get_cell_coordinates", "RDGridSpace")
    guard_idx = has_guard(gci, "position")
    guard_coord = has_guard(gcc, "cell_index")
    names_c = {"cell_index": "i", "self.w": "w", "self.h": "h", "self.d": "d"}
    cx = ExprTr(grid, names_c).tr(_assign_value(grid, gcc, "x"))
    cy = ExprTr(grid, names_c).tr(_assign_value(grid, gcc, "y"))
    cz = ExprTr(grid, names_c).tr(_assign_value(grid, gcc, "z"))
    iwb = grid.func("is_within_bounds", "RDGridSpace")
    b_num = ExprTr(grid, {"position": "p", "self.size()": "size"}).tr(
        _find_return_in_branch(grid, iwb, lambda t: t == "isnumber(position)"))
    b_arr = ExprTr(grid, names_arr).tr(_find_return_in_branch(grid, iwb, lambda t: t == "isarray(position)"))
    b_obj = ExprTr(grid, names_obj).tr(_find_return_in_branch(grid, iwb, lambda t: t == "else"))
    size = grid.func("size", "RDGridSpace")
    size_e = ExprTr(grid, {"self.w": "w", "self.h": "h", "self.d": "d"}).tr(size.body[-1].value)

    rds = PySrc(repo, "src/strengths/rdsystem.py")
    gsi = rds.func("get_state_index", "RDSystem")
    st_e = ExprTr(rds, {"species_index": "s", "self.space.size()": "n", "cell_index": "c"}).tr(
        _find_return_in_branch(rds, gsi, None))
    ssz = rds.func("state_size", "RDSystem")
    ssz_e = ExprTr(rds, {"self.space.size()": "n", "self.network.nspecies()": "ns"}).tr(ssz.body[-1].value)

    out = PySrc(repo, "src/strengths/rdoutput.py")
    gtp = out.func("get_trajectory_point", "RDTrajectory")
    tp_e = None
    for n in ast.walk(gtp):
        if isinstance(n, ast.Return) and isinstance(n.value, ast.Call) and getattr(n.value.func, "attr", "") == "get_at":
            tp_e = ExprTr(out, {"sample_index": "k", "self.nspecies()": "ns", "self.ncells()": "n", "species_index": "s",
                                "cell_index": "c"}).tr(n.value.args[0])
    if tp_e is None:
        raise AnchorLost("rdoutput.py:get_trajectory_point data.get_at(index)")
    # reshape tuples used by get_trajectory / get_state
    def reshape_args(fn):
        res = []
        for n in ast.walk(fn):
            if isinstance(n, ast.Call) and getattr(n.func, "attr", "") == "reshape" and len(n.args) == 1 and isinstance(n.args[0], ast.Tuple):
                res.append([re.sub(r"\s+", "", out.seg(e)) for e in n.args[0].elts])
        return res
    rs_traj = reshape_args(out.func("get_trajectory", "RDTrajectory"))
    rs_state = reshape_args(out.func("get_state", "RDTrajectory"))
    if not rs_traj or not rs_state:
        raise AnchorLost("rdoutput.py:reshape tuples")

    graph = PySrc(repo, "src/strengths/rdgraphspace.py")
    L = ["namespace Strengths.Gen\n"]
    L.append("/-- `RDGridSpace.size` -/\ndef gridSize (w h d : Int) : Int := %s\n" % size_e)
    L.append("/-- `RDGridSpace.get_cell_index`, tuple/list branch -/\ndef cellIndexArr (w h x y z : Int) : Int := %s" % idx_arr)
    L.append("/-- `RDGridSpace.get_cell_index`, object-with-x,y,z branch -/\ndef cellIndexObj (w h x y z : Int) : Int := %s" % idx_obj)
    L.append("/-- `RDGridSpace.get_cell_index`, number branch -/\ndef cellIndexNum (p : Int) : Int := %s" % idx_num)
    L.append("/-- both accessors start with `if not self.is_within_bounds(..) : raise` -/")
    L.append("def cellIndexGuarded : Bool := %s" % ("true" if guard_idx else "false"))
    L.append("def cellCoordsGuarded : Bool := %s\n" % ("true" if guard_coord else "false"))
    L.append("/-- `RDGridSpace.get_cell_coordinates` -/")
    L.append("def cellCoordX (w h i : Int) : Int := %s" % cx)
    L.append("def cellCoordY (w h i : Int) : Int := %s" % cy)
    L.append("def cellCoordZ (w h i : Int) : Int := %s\n" % cz)
    L.append("/-- `RDGridSpace.is_within_bounds`, the three position forms -/")
    L.append("def withinBoundsNum (size p : Int) : Bool := %s" % b_num)
    L.append("def withinBoundsArr (w h d x y z : Int) : Bool := %s" % b_arr)
    L.append("def withinBoundsObj (w h d x y z : Int) : Bool := %s\n" % b_obj)
    L.append("/-- `RDSystem.get_state_index` (s = species index, n = number of cells, c = cell index) -/")
    L.append("def stateIndex (n s c : Int) : Int := %s" % st_e)
    L.append("/-- `RDSystem.state_size` -/\ndef stateSize (n ns : Int) : Int := %s\n" % ssz_e)
    L.append("/-- `RDTrajectory.get_trajectory_point` flat index (k = sample, ns = #species, n = #cells) -/")
    L.append("def trajPointIndex (ns n k s c : Int) : Int := %s" % tp_e)
    L.append("/-- reshape tuples of `get_trajectory` and `get_state` -/")
    L.append("def reshapeTrajectory : List (List String) := %s" %
             lean_list([lean_list([lean_str(x) for x in t]) for t in rs_traj]))
    L.append("def reshapeState : List (List String) := %s" %
             lean_list([lean_list([lean_str(x) for x in t]) for t in rs_state]))
    L.append("\nend Strengths.Gen")
    return "\n".join(L) + "\n"


# =============================================================================================
# G5 + G7 (C++ side): neighbour tables, wrap lines, index formulas, conditions, call orders
# =============================================================================================
def _cpp(repo, name):
    path = os.path.join(repo, ENGINE_SRC, name)
    try:
        with open(path, encoding="utf-8", errors="replace") as f:
            return strip_cpp_comments(f.read())
    except OSError:
        raise AnchorLost("missing " + name)


def _subscripts(text):
    """every `ident[expr]` occurrence (balanced brackets), normalised (blanks removed)"""
    out = []
    for m in re.finditer(r"([A-Za-z_][A-Za-z_0-9]*)\s*\[", text):
        i = m.end() - 1
        depth, j = 0, i
        while j < len(text):
            if text[j] == "[":
                depth += 1
            elif text[j] == "]":
                depth -= 1
                if depth == 0:
                    break
            j += 1
        expr = re.sub(r"\s+", "", text[i + 1:j])
        # chained subscripts a[i][j]: record the second level against a[i]
        name = m.group(1)
        out.append((name, expr))
        k = j + 1
        while k < len(text) and text[k] == "[":
            depth, j2 = 0, k
            while j2 < len(text):
                if text[j2] == "[":
                    depth += 1
                elif text[j2] == "]":
                    depth -= 1
                    if depth == 0:
                        break
                j2 += 1
            out.append((name + "[" + expr + "]", re.sub(r"\s+", "", text[k + 1:j2])))
            expr = expr + "][" + re.sub(r"\s+", "", text[k + 1:j2])
            k = j2 + 1
    return out


def _iterate_order(text, cls):
    m = re.search(r"class\s+%s\b" % cls, text)
    if not m:
        raise AnchorLost("class " + cls)
    body = cpp_function_body(text[m.start():], r"virtual\s+bool\s+Iterate\s*\(\s*\)\s*")
    stmts = []
    depth = 0
    cur = ""
    for ch in body:
        if ch in "{}":
            if cur.strip():
                stmts.append(re.sub(r"\s+", "", cur))
            cur = ""
            stmts.append(ch)
            continue
        if ch == ";":
            stmts.append(re.sub(r"\s+", "", cur))
            cur = ""
        else:
            cur += ch
    if cur.strip():
        stmts.append(re.sub(r"\s+", "", cur))
    return [s for s in stmts if s]


@group
def gen_EngineCpp(repo):
    base3 = _cpp(repo, "SimulationAlgorithm3DBase.hpp")
    baseg = _cpp(repo, "SimulationAlgorithmGraphBase.hpp")
    eng = _cpp(repo, "engine.cpp")
    L = ["namespace Strengths.Gen\n"]

    # ---- GetNeighborIndex
    body = cpp_function_body(base3, r"int\s+GetNeighborIndex\s*\([^)]*\)\s*")
    deltas = []
    for m in re.finditer(r"case\s+(\d+)\s*:\s*([xyz])n\s*([-+])=\s*(\d+)\s*;\s*break\s*;", body):
        deltas.append((int(m.group(1)), "xyz".index(m.group(2)), int(m.group(3) + m.group(4))))
    if len(deltas) != len(re.findall(r"\bcase\b", body)) or not deltas:
        raise AnchorLost("GetNeighborIndex switch cases")
    wraps = {}
    for m in re.finditer(r"if\s*\(\s*boundary_conditions\[(\d)\]\s*==\s*(\d+)\s*\)\s*([xyz])n\s*=\s*([^;]+);", body):
        ax = int(m.group(1))
        if "xyz"[ax] != m.group(3):
            raise AnchorLost("GetNeighborIndex wrap line axis mismatch")
        size = "whd"[ax]
        wraps[ax] = (int(m.group(2)), CppExpr(m.group(4), {size: "n", m.group(3) + "n": "c"}).parse())
    if sorted(wraps) != [0, 1, 2]:
        raise AnchorLost("GetNeighborIndex wrap lines")
    m = re.search(r"if\s*\(([^;{}]*?)\)\s*return\s+([^;]+);\s*else\s+return\s+(-?\d+)\s*;", body, flags=re.S)
    if not m:
        raise AnchorLost("GetNeighborIndex range test / return")
    nm = {"xn": "x", "yn": "y", "zn": "z", "w": "w", "h": "h", "d": "d"}
    inrange = CppExpr(m.group(1), nm).parse()
    retidx = CppExpr(m.group(2), nm).parse()
    L.append("/-- `GetNeighborIndex`: (direction, axis 0/1/2, delta) of the switch -/")
    L.append("def dirDelta : List (Nat × Nat × Int) := %s" % lean_list(["(%d, %d, (%d : Int))" % t for t in sorted(deltas)]))
    L.append("/-- value of `boundary_conditions[axis]` that enables wrapping, per axis -/")
    L.append("def wrapFlag : List Int := %s" % lean_list(["(%d : Int)" % wraps[a][0] for a in range(3)]))
    for a in range(3):
        L.append("/-- wrap line of axis %d: new coordinate from size `n` and shifted coordinate `c` -/" % a)
        L.append("def wrapAxis%d (n c : Int) : Int := %s" % (a, wraps[a][1]))
    L.append("def nbrInRange (w h d x y z : Int) : Bool := %s" % inrange)
    L.append("def nbrIndex (w h x y z : Int) : Int := %s" % retidx)
    L.append("def nbrNone : Int := (%s : Int)\n" % m.group(3))

    # ---- BuildMeshNeighbors coordinate extraction and table subscript
    body = cpp_function_body(base3, r"void\s+BuildMeshNeighbors\s*\(\s*\)\s*")
    cm = {}
    for m in re.finditer(r"int\s+([xyz])coord\s*=\s*([^;]+);", body):
        cm[m.group(1)] = CppExpr(m.group(2), {"i": "i", "w": "w", "h": "h"}).parse()
    if sorted(cm) != ["x", "y", "z"]:
        raise AnchorLost("BuildMeshNeighbors coordinates")
    m = re.search(r"mesh_neighbors\[([^\]]+)\]\s*=\s*GetNeighborIndex\(\s*xcoord\s*,\s*ycoord\s*,\s*zcoord\s*,\s*n\s*\)", body)
    if not m:
        raise AnchorLost("BuildMeshNeighbors table store")
    L.append("/-- `BuildMeshNeighbors`: coordinates of mesh i and slot of (i, direction n) -/")
    L.append("def meshX (w h i : Int) : Int := %s" % cm["x"])
    L.append("def meshY (w h i : Int) : Int := %s" % cm["y"])
    L.append("def meshZ (w h i : Int) : Int := %s" % cm["z"])
    L.append("def nbrSlot (i n : Int) : Int := %s\n" % CppExpr(m.group(1), {"i": "i", "n": "n"}).parse())

    # ---- opposed_direction
    m = re.search(r"opposed_direction\s*=\s*std::vector<int>\s*\{([^}]*)\}", base3)
    if not m:
        raise AnchorLost("opposed_direction table")
    opp = [int(x) for x in m.group(1).split(",")]
    L.append("def oppDir : List Nat := %s\n" % lean_list([str(x) for x in opp]))

    # ---- sampling / completion conditions (both base classes must agree textually)
    def sampling(text, which):
        res = {}
        b = cpp_function_body(text, r"void\s+CheckTMax\s*\(\s*\)\s*")
        m = re.search(r"if\s*\((.*?)\)\s*\{", b, flags=re.S)
        if not m:
            raise AnchorLost(which + " CheckTMax condition")
        res["tmax"] = re.sub(r"\s+", "", m.group(1))
        b = cpp_function_body(text, r"void\s+SampleOnTSample\s*\(\s*\)\s*")
        m = re.search(r"while\s*\((.*?)\)\s*\{(.*?)\}", b, flags=re.S)
        if not m:
            raise AnchorLost(which + " SampleOnTSample loop")
        res["tsample_conds"] = [re.sub(r"\s+", "", c) for c in m.group(1).split("&&")]
        res["tsample_body"] = [re.sub(r"\s+", "", s) for s in m.group(2).split(";") if s.strip()]
        b = cpp_function_body(text, r"void\s+SampleOnInterval\s*\(\s*\)\s*")
        m = re.search(r"double\s+tsi_ratio\s*=\s*([^;]+);\s*if\s*\((.*?)\)\s*\{(.*?)\}", b, flags=re.S)
        if not m:
            raise AnchorLost(which + " SampleOnInterval")
        res["interval_ratio"] = re.sub(r"\s+", "", m.group(1))
        res["interval_cond"] = re.sub(r"\s+", "", m.group(2))
        res["interval_body"] = [re.sub(r"\s+", "", s) for s in m.group(3).split(";") if s.strip()]
        b = cpp_function_body(text, r"void\s+SamplingStep\s*\(\s*\)\s*")
        res["dispatch"] = [(int(a), re.sub(r"\s+", "", c)) for a, c in re.findall(r"case\s+(\d+)\s*:\s*(.*?)break\s*;", b, flags=re.S)]
        b = cpp_function_body(text, r"void\s+Sample\s*\(\s*\)\s*")
        m = re.search(r"if\s*\((.*?)\)\s*\{(.*?)\}", b, flags=re.S)
        if not m:
            raise AnchorLost(which + " Sample")
        res["sample_cond"] = re.sub(r"\s+", "", m.group(1))
        res["sample_body"] = [re.sub(r"\s+", "", s) for s in m.group(2).split(";") if s.strip()]
        b = cpp_function_body(text, r"double\s+GetProgress\s*\(\s*\)\s*")
        res["progress"] = re.sub(r"\s+", "", b)
        return res
    s3, sg = sampling(base3, "3DBase"), sampling(baseg, "GraphBase")

    def strs(l):
        return lean_list([lean_str(x) for x in l])
    for tag, s in (("Grid", s3), ("Graph", sg)):
        L.append("def tMaxCond%s : String := %s" % (tag, lean_str(s["tmax"])))
        L.append("def tSampleLoopConds%s : List String := %s" % (tag, strs(s["tsample_conds"])))
        L.append("def tSampleLoopBody%s : List String := %s" % (tag, strs(s["tsample_body"])))
        L.append("def intervalRatio%s : String := %s" % (tag, lean_str(s["interval_ratio"])))
        L.append("def intervalCond%s : String := %s" % (tag, lean_str(s["interval_cond"])))
        L.append("def intervalBody%s : List String := %s" % (tag, strs(s["interval_body"])))
        L.append("def samplingDispatch%s : List (Nat × String) := %s" %
                 (tag, lean_list(["(%d, %s)" % (a, lean_str(c)) for a, c in s["dispatch"]])))
        L.append("def sampleCond%s : String := %s" % (tag, lean_str(s["sample_cond"])))
        L.append("def sampleBody%s : List String := %s" % (tag, strs(s["sample_body"])))
        L.append("def progressBody%s : String := %s\n" % (tag, lean_str(s["progress"])))

    # ---- Iterate bodies of the six algorithms
    for fname, cls in (("Euler3D.hpp", "Euler3D"), ("TauLeap3D.hpp", "TauLeap3D"), ("Gillespie3D.hpp", "Gillespie3D"),
                       ("EulerGraph.hpp", "EulerGraph"), ("TauLeapGraph.hpp", "TauLeapGraph"), ("GillespieGraph.hpp", "GillespieGraph")):
        L.append("def iterate%s : List String := %s" % (cls, strs(_iterate_order(_cpp(repo, fname), cls))))
    L.append("")

    # ---- engine.cpp: accepted strings and codes
    def chain(fn_regex, var):
        b = cpp_function_body(eng, fn_regex)
        return re.findall(r"CompareStr\(\s*%s\s*,\s*\"([^\"]*)\"\s*\)\)?\s*(?:\{?\s*)?(\w+(?:\[\d\])?)\s*=\s*(?:new\s+)?(\w+)" % var, b)
    for tag, fr in (("Grid", r"int\s+engineexport_initialize_grid\s*\("), ("Graph", r"int\s+engineexport_initialize_graph\s*\(")):
        pol = chain(fr, "sampling_policy")
        if not pol:
            raise AnchorLost("engine.cpp sampling policy chain " + tag)
        L.append("def cppPolicies%s : List (String × Nat) := %s" %
                 (tag, lean_list(["(%s, %s)" % (lean_str(a), c) for a, _, c in pol])))
        opt = chain(fr, "option")
        if not opt:
            raise AnchorLost("engine.cpp option chain " + tag)
        L.append("def cppOptions%s : List (String × String) := %s" %
                 (tag, lean_list(["(%s, %s)" % (lean_str(a), lean_str(c)) for a, _, c in opt])))
        b = cpp_function_body(eng, fr)
        modes = re.findall(r"CompareStr\(\s*init_state_processing\s*,\s*\"([^\"]*)\"\s*\)", b)
        L.append("def cppModes%s : List String := %s" % (tag, strs(modes)))
        # the processing branches, as normalised condition text in order
        conds = [re.sub(r"\s+", "", c) for c in re.findall(r"(?:else\s+)?if\s*\(\s*(CompareStr\(\s*init_state_processing.*?)\)\s*\{", b, flags=re.S)]
        L.append("def cppModeConds%s : List String := %s" % (tag, strs(conds)))
        # which branches transpose the species-major input
        branches = re.split(r"(?:else\s+)?if\s*\(\s*CompareStr\(\s*init_state_processing", b)[1:]
        tr = []
        for br in branches:
            head = br.split("{", 1)[1] if "{" in br else br
            blk = head.split("}", 1)[0]
            tr.append("SpeciesFirstToMeshFirstArray" in blk)
        L.append("def cppModeTransposes%s : List Bool := %s" % (tag, lean_list(["true" if t else "false" for t in tr])))
    bc = re.findall(r"CompareStr\(\s*boundary_conditions_x\s*,\s*\"([^\"]*)\"\s*\)\)\s*boundary_conditions\[0\]\s*=\s*(\d+)", eng)
    if not bc:
        raise AnchorLost("engine.cpp boundary condition chain")
    L.append("def cppBoundary : List (String × Int) := %s\n" % lean_list(["(%s, (%s : Int))" % (lean_str(a), c) for a, c in bc]))

    # ---- transposition and export formulas
    b = cpp_function_body(eng, r"SpeciesFirstToMeshFirstArray\s*\([^)]*\)\s*")
    m = re.search(r"mesh_first_array\[([^\]]+)\]\s*=\s*species_first_array\[([^\]]+)\]", b)
    if not m:
        raise AnchorLost("SpeciesFirstToMeshFirstArray assignment")
    nm = {"i": "i", "s": "s", "n_species": "ns", "n_meshes": "n"}
    L.append("/-- `SpeciesFirstToMeshFirstArray`: dst[dstIdx] = src[srcIdx] -/")
    L.append("def transposeDst (ns n s i : Int) : Int := %s" % CppExpr(m.group(1), nm).parse())
    L.append("def transposeSrc (ns n s i : Int) : Int := %s" % CppExpr(m.group(2), nm).parse())
    b = cpp_function_body(eng, r"int\s+engineexport_get_trajectory\s*\([^)]*\)\s*")
    ms = re.findall(r"trajectory_data\[([^\]]+)\]\s*=\s*trajectory_data_vec\[n\]\[([^\]]+)\]", b)
    if len(ms) != 2 or ms[0] != ms[1]:
        raise AnchorLost("engineexport_get_trajectory assignments (grid and graph branch must agree)")
    nm2 = {"i": "i", "s": "s", "n": "k", "n_species": "ns", "n_meshes": "n"}
    L.append("/-- `engineexport_get_trajectory`: out[exportDst] = sample_k[exportSrc] -/")
    L.append("def exportDst (ns n k s i : Int) : Int := %s" % CppExpr(ms[0][0], nm2).parse())
    L.append("def exportSrc (ns n s i : Int) : Int := %s" % CppExpr(ms[0][1], nm2).parse())
    b = cpp_function_body(eng, r"int\s+engineexport_get_state\s*\([^)]*\)\s*")
    ms = re.findall(r"state_data\[([^\]]+)\]\s*=\s*state_data_vec\[([^\]]+)\]", b)
    if len(ms) != 2 or ms[0] != ms[1]:
        raise AnchorLost("engineexport_get_state assignments")
    L.append("def stateExportDst (ns n s i : Int) : Int := %s" % CppExpr(ms[0][0], nm2).parse())
    L.append("def stateExportSrc (ns n s i : Int) : Int := %s\n" % CppExpr(ms[0][1], nm2).parse())

    # ---- finalize / run / iterate_n skeletons (normalised statement text)
    for fn in ("engineexport_finalize", "engineexport_iterate", "engineexport_iterate_n", "engineexport_run", "engineexport_sample"):
        b = cpp_function_body(eng, r"%s\s*\([^)]*\)\s*" % fn)
        L.append("def body_%s : String := %s" % (fn, lean_str(re.sub(r"\s+", "", b))))
    gl = re.findall(r"^(?:[A-Za-z_][\w:<>]*\s*\*?\s+\*?\s*)(global_\w+)\s*(?:=\s*([^;]+))?;", eng, flags=re.M)
    L.append("def engineGlobals : List (String × String) := %s\n" %
             lean_list(["(%s, %s)" % (lean_str(a), lean_str(b.strip())) for a, b in gl]))

    # ---- index formulas of the flattened tables the algorithms read (must agree across all read sites)
    def table_formula(vec, names, files):
        forms = set()
        for fname in files:
            for name, expr in _subscripts(_cpp(repo, fname)):
                if name == vec:
                    forms.add(CppExpr(expr, names).parse())
        if len(forms) != 1:
            raise AnchorLost("index formula of %s is not unique across its read sites: %s" % (vec, sorted(forms)))
        return forms.pop()
    algo_files = ["SimulationAlgorithm3DBase.hpp", "SimulationAlgorithmGraphBase.hpp", "Euler3D.hpp", "EulerGraph.hpp",
                  "TauLeap3D.hpp", "TauLeapGraph.hpp", "Gillespie3D.hpp", "GillespieGraph.hpp"]
    nm3 = {"mesh_env[i]": "e", "mesh_env[j]": "e", "n_reactions": "nr", "n_species": "ns", "n_env": "ne", "r": "r", "s": "s",
           "j": "s", "reaction_index": "r", "i": "i", "mesh_index": "i", "species_index": "s", "n": "n", "direction": "n"}
    L.append("/-- flattened-table index formulas as read by the algorithms (identical at every read site) -/")
    L.append("def kIndex (nr e r : Int) : Int := %s" % table_formula("k", nm3, algo_files))
    L.append("def subIndex (nr s r : Int) : Int := %s" % table_formula("sub", nm3, algo_files))
    nm_sto = dict(nm3)
    L.append("def stoIndex (nr s r : Int) : Int := %s" % table_formula("sto", nm_sto, algo_files))
    L.append("def dIndex (ne s e : Int) : Int := %s" % table_formula("D", nm3, algo_files))
    L.append("def krIndex (nr i r : Int) : Int := %s" % table_formula("mesh_kr", nm3, algo_files))
    L.append("def kdIndexGrid (ns i s n : Int) : Int := %s" % table_formula("mesh_kd", nm3, ["SimulationAlgorithm3DBase.hpp"]))
    L.append("")

    # ---- subscript inventory (G5): every vec[expr] in every engine source file
    inv = []
    for fname in ("SimulationAlgorithm3DBase.hpp", "SimulationAlgorithmGraphBase.hpp", "Euler3D.hpp", "EulerGraph.hpp",
                  "TauLeap3D.hpp", "TauLeapGraph.hpp", "Gillespie3D.hpp", "GillespieGraph.hpp", "engine.cpp"):
        for name, expr in sorted(set(_subscripts(_cpp(repo, fname)))):
            inv.append((fname, name, expr))
    L.append("/-- every `vector[index]` occurrence in the engine sources: (file, vector, index expression) -/")
    L.append("def subscripts : List (String × String × String) := [")
    L.append(",\n".join("  (%s, %s, %s)" % (lean_str(a), lean_str(b), lean_str(c)) for a, b, c in inv))
    L.append("]")
    L.append("\nend Strengths.Gen")
    return "\n".join(L) + "\n"


# =============================================================================================
# Stoch (builder "stoch": C07, C02, C14): the statement lists of the stochastic / Euler step functions of
# the six algorithms and the two base classes, GenerateStochasticDistribution, the init-state dispatch
# of engine.cpp, the Poisson/normal switch, and the Python-side accepted modes / default.
# =============================================================================================
def _cpp_stmts(body):
    """normalised statement list of a C++ block: blanks removed, split at ';', '{', '}' (kept)"""
    stmts, cur, par = [], "", 0
    for ch in body:
        if ch == "(":
            par += 1
        elif ch == ")":
            par -= 1
        if ch in "{}" and par == 0:
            if cur.strip():
                stmts.append(re.sub(r"\s+", "", cur))
            cur = ""
            stmts.append(ch)
        elif ch == ";" and par == 0:
            stmts.append(re.sub(r"\s+", "", cur))
            cur = ""
        else:
            cur += ch
    if cur.strip():
        stmts.append(re.sub(r"\s+", "", cur))
    return [s for s in stmts if s]


def _balanced(text, i):
    """text[i] == '{' -> index of the matching '}'"""
    depth, j = 0, i
    while j < len(text):
        if text[j] == "{":
            depth += 1
        elif text[j] == "}":
            depth -= 1
            if depth == 0:
                return j
        j += 1
    raise AnchorLost("unbalanced braces")


@group
def gen_Stoch(repo):
    def strs(l):
        return lean_list([lean_str(x) for x in l])
    L = ["namespace Strengths.Gen\n"]
    eng = _cpp(repo, "engine.cpp")

    # ---- GenerateStochasticDistribution
    body = cpp_function_body(eng, r"GenerateStochasticDistribution\s*\([^)]*\)\s*")
    stm = _cpp_stmts(body)
    m = re.search(r"if\s*\(\s*mesh_x\[i\]\s*<\s*([0-9.eE+-]+)\s*\)", body)
    if not m:
        raise AnchorLost("GenerateStochasticDistribution Poisson/normal switch")
    L.append("/-- `GenerateStochasticDistribution`: below this amount an entry is a Poisson draw, from it on a floored normal draw -/")
    L.append("def poissonNormalSwitch : Rat := %s" % lean_rat(Fraction(m.group(1))))
    L.append("/-- `GenerateStochasticDistribution`, whole body as a normalised statement list -/")
    L.append("def gsdBody : List String := %s" % strs(stm))
    # the draw target and the scan of the correction loop
    m = re.search(r"double\s+target\s*=\s*([^;]+);", body)
    if not m:
        raise AnchorLost("GenerateStochasticDistribution target")
    L.append("def gsdTarget : String := %s" % lean_str(re.sub(r"\s+", "", m.group(1))))
    m = re.search(r"cumul\s*\+=\s*mesh_x\[([^\]]+)\]\s*;\s*if\s*\(([^)]*)\)", body)
    if not m:
        raise AnchorLost("GenerateStochasticDistribution scan")
    nm = {"i": "i", "s": "s", "n_species": "ns"}
    L.append("/-- index of entry (cell i, species s) in the cell-major arrays of `GenerateStochasticDistribution` -/")
    L.append("def gsdIndex (ns s i : Int) : Int := %s" % CppExpr(m.group(1), nm).parse())
    L.append("def gsdHitCond : String := %s\n" % lean_str(re.sub(r"\s+", "", m.group(2))))

    # ---- init-state dispatch: (condition, statements of the branch) in order, then the else branch
    for tag, fr in (("Grid", r"int\s+engineexport_initialize_grid\s*\("), ("Graph", r"int\s+engineexport_initialize_graph\s*\(")):
        b = cpp_function_body(eng, fr)
        pos = b.find("is_stochastic")
        if pos < 0:
            raise AnchorLost("engine.cpp is_stochastic " + tag)
        m = re.search(r"bool\s+is_stochastic\s*=\s*([^;]+);", b)
        if not m:
            raise AnchorLost("engine.cpp is_stochastic definition " + tag)
        L.append("def isStochasticDef%s : String := %s" % (tag, lean_str(re.sub(r"\s+", "", m.group(1)))))
        branches = []
        cur = m.end()
        while True:
            mm = re.compile(r"\s*(?:else\s+)?if\s*\(").match(b, cur)
            if not mm:
                break
            # balanced parenthesis of the condition
            i = mm.end() - 1
            depth, j = 0, i
            while True:
                if b[j] == "(":
                    depth += 1
                elif b[j] == ")":
                    depth -= 1
                    if depth == 0:
                        break
                j += 1
            cond = re.sub(r"\s+", "", b[i + 1:j])
            k = b.index("{", j)
            e = _balanced(b, k)
            branches.append((cond, _cpp_stmts(b[k + 1:e])))
            cur = e + 1
        mm = re.compile(r"\s*else\s*\{").match(b, cur)
        if not mm or not branches:
            raise AnchorLost("engine.cpp init_state_processing dispatch " + tag)
        e = _balanced(b, mm.end() - 1)
        branches.append(("else", _cpp_stmts(b[mm.end():e])))
        if not all("init_state_processing" in c for c, _ in branches[:-1]):
            raise AnchorLost("engine.cpp init_state_processing dispatch conditions " + tag)
        L.append("/-- the `init_state_processing` dispatch: (condition, statements) per branch, `else` last -/")
        L.append("def initBranches%s : List (String × List String) := %s" %
                 (tag, lean_list(["(%s, %s)" % (lean_str(c), strs(s)) for c, s in branches])))
        # what Init receives as the state
        mi = re.search(r"global_(?:grid|graph)_algo\s*->\s*Init\s*\(", b)
        if not mi:
            raise AnchorLost("engine.cpp Init call " + tag)
        args = b[mi.end():]
        L.append("def initPassesMeshX%s : Bool := %s" % (tag, "true" if re.search(r"\bmesh_x\s*,", args) else "false"))
    L.append("")

    # ---- step functions of the algorithms (normalised statement lists)
    def fn_stmts(fname, regex):
        return _cpp_stmts(cpp_function_body(_cpp(repo, fname), regex))
    items = [
        ("reactionProp", r"double\s+ReactionProp\s*\([^)]*\)\s*", "SimulationAlgorithm3DBase.hpp", "SimulationAlgorithmGraphBase.hpp"),
        ("diffusionProp", r"double\s+DiffusionProp\s*\([^)]*\)\s*", "SimulationAlgorithm3DBase.hpp", "SimulationAlgorithmGraphBase.hpp"),
        ("diffusionRate", r"double\s+DiffusionRate\s*\([^)]*\)\s*", "SimulationAlgorithm3DBase.hpp", "SimulationAlgorithmGraphBase.hpp"),
        ("diffusionRateDifference", r"double\s+DiffusionRateDifference\s*\([^)]*\)\s*", "SimulationAlgorithm3DBase.hpp", "SimulationAlgorithmGraphBase.hpp"),
        ("reactionRate", r"double\s+ReactionRate\s*\([^)]*\)\s*", "SimulationAlgorithm3DBase.hpp", "SimulationAlgorithmGraphBase.hpp"),
        ("poissonFn", r"int\s+Poisson\s*\([^)]*\)\s*", "SimulationAlgorithm3DBase.hpp", "SimulationAlgorithmGraphBase.hpp"),
        ("buildMeshKr", r"void\s+Build_mesh_kr\s*\([^)]*\)\s*", "SimulationAlgorithm3DBase.hpp", "SimulationAlgorithmGraphBase.hpp"),
        ("buildMeshKd", r"void\s+Build_mesh_kd\s*\([^)]*\)\s*", "SimulationAlgorithm3DBase.hpp", "SimulationAlgorithmGraphBase.hpp"),
        ("computePropensities", r"void\s+ComputePropensities\s*\(\s*\)\s*", "Gillespie3D.hpp", "GillespieGraph.hpp"),
        ("applyReaction", r"void\s+ApplyReaction\s*\([^)]*\)\s*", "Gillespie3D.hpp", "GillespieGraph.hpp"),
        ("applyDiffusion", r"void\s+ApplyDiffusion\s*\([^)]*\)\s*", "Gillespie3D.hpp", "GillespieGraph.hpp"),
        ("drawAndApplyEvent", r"void\s+DrawAndApplyEvent\s*\(\s*\)\s*", "Gillespie3D.hpp", "GillespieGraph.hpp"),
        ("computeNevt", r"void\s+Compute_nevt\s*\(\s*\)\s*", "TauLeap3D.hpp", "TauLeapGraph.hpp"),
        ("applyNevt", r"void\s+Apply_nevt\s*\(\s*\)\s*", "TauLeap3D.hpp", "TauLeapGraph.hpp"),
        ("computeDxdt", r"void\s+Compute_dxdt\s*\(\s*\)\s*", "Euler3D.hpp", "EulerGraph.hpp"),
        ("applyDxdt", r"void\s+Apply_dxdt\s*\(\s*\)\s*", "Euler3D.hpp", "EulerGraph.hpp"),
    ]
    for name, rx, f3, fg in items:
        L.append("def %sGrid : List String := %s" % (name, strs(fn_stmts(f3, rx))))
        L.append("def %sGraph : List String := %s" % (name, strs(fn_stmts(fg, rx))))
    L.append("def setNeighborsGraph : List String := %s" %
             strs(fn_stmts("SimulationAlgorithmGraphBase.hpp", r"void\s+SetNeighbors\s*\([^)]*\)\s*")))
    # rng / uniform set-up in Init (seeded from the argument, uniform on [0,1))
    for tag, fname in (("Grid", "SimulationAlgorithm3DBase.hpp"), ("Graph", "SimulationAlgorithmGraphBase.hpp")):
        t = _cpp(repo, fname)
        m1 = re.search(r"this->rng\s*=\s*([^;]+);", t)
        m2 = re.search(r"this->uiud\s*=\s*([^;]+);", t)
        if not m1 or not m2:
            raise AnchorLost("rng / uiud set-up in Init " + tag)
        L.append("def rngInit%s : List String := %s" % (tag, strs([re.sub(r"\s+", "", m1.group(1)), re.sub(r"\s+", "", m2.group(1))])))
    L.append("")

    # ---- Python side: accepted modes, default, how the mode reaches the engine
    src = PySrc(repo, "src/strengths/rdscript.py")
    setter = None
    for n in ast.walk(src.tree):
        if isinstance(n, ast.FunctionDef) and n.name == "init_state_processing" and len(n.args.args) == 2:
            setter = n
    if setter is None:
        raise AnchorLost("rdscript.py:init_state_processing setter")
    modes = None
    for n in ast.walk(setter):
        if isinstance(n, ast.Compare) and len(n.ops) == 1 and isinstance(n.ops[0], (ast.NotIn, ast.In)) \
                and isinstance(n.comparators[0], (ast.List, ast.Tuple)):
            modes = str_list(n.comparators[0])
            # must be `if not x in [...] : raise`  or  `if x not in [...] : raise`
    if modes is None:
        raise AnchorLost("rdscript.py:init_state_processing accepted list")
    raises = any(isinstance(n, ast.Raise) for n in ast.walk(setter))
    L.append("/-- `RDScript.init_state_processing` setter: accepted values (anything else raises) -/")
    L.append("def pyInitModes : List String := %s" % strs(modes))
    L.append("def pyInitModesGuarded : Bool := %s" % ("true" if raises else "false"))
    init = src.func("__init__", cls="RDScript")
    default = None
    args = init.args
    names = [a.arg for a in args.args]
    defaults = [None] * (len(names) - len(args.defaults)) + list(args.defaults)
    for nme, dflt in zip(names, defaults):
        if nme == "init_state_processing" and dflt is not None:
            default = const_str(dflt)
    if default is None:
        raise AnchorLost("rdscript.py:RDScript.__init__ default of init_state_processing")
    L.append("def pyInitModeDefault : String := %s" % lean_str(default))
    lre = PySrc(repo, "src/strengths/librdengine.py")
    passed = re.findall(r"ctypes\.c_char_p\(\s*script\.init_state_processing\.encode\(\)\s*\)", lre.text)
    L.append("/-- number of `engineexport_initialize_*` calls that pass `script.init_state_processing` unchanged -/")
    L.append("def pyInitModePassed : Nat := %d" % len(passed))
    # engine_collection: which options require molecules (quantity unit forced to 'molecule')
    L.append("\nend Strengths.Gen")
    return "\n".join(L) + "\n"
