"""Generation groups of the translator (one Lean file per group).  See DESIGN.md §5.1 (G1..G8)."""
import ast, os, re
from fractions import Fraction
from trlib import (AnchorLost, PySrc, ExprTr, CppExpr, const_number, const_str, str_list, lean_str,
                   lean_rat, lean_list, group, cpp_function_body, strip_cpp_comments)

ENGINE_SRC = "src/strengths/engines/strengths_engine/src"


# =============================================================================================
# G1 + G2 : unit tables, scales, defaults, derived-unit decomposition, u->µ substitutions
# =============================================================================================
@group
def gen_Units(repo):
    consts = PySrc(repo, "src/strengths/constants.py")
    fn = consts.func("avogadro_number")
    avo = None
    for n in ast.walk(fn):
        if isinstance(n, ast.Return):
            avo = const_number(consts, n.value, {})
    if avo is None:
        raise AnchorLost("constants.py:avogadro_number return literal")
    units = PySrc(repo, "src/strengths/units.py")
    env = {"avogadro_number": avo}

    labels = units.toplevel_assign("_units_labels_dict")
    if not isinstance(labels, ast.Dict):
        raise AnchorLost("units.py:_units_labels_dict literal")
    lab = {const_str(k): str_list(v) for k, v in zip(labels.keys, labels.values)}
    for k in ("space", "time", "quantity", "density", "volume"):
        if k not in lab:
            raise AnchorLost("units.py:_units_labels_dict[%s]" % k)
    label_key_order = [const_str(k) for k in labels.keys]

    conv = units.toplevel_assign("_units_conversion_dict")
    if not isinstance(conv, ast.Dict):
        raise AnchorLost("units.py:_units_conversion_dict literal")
    scale = {}
    for k, v in zip(conv.keys, conv.values):
        if not isinstance(v, ast.Dict):
            raise AnchorLost("units.py:_units_conversion_dict inner literal")
        scale[const_str(k)] = [(const_str(kk), const_number(units, vv, env)) for kk, vv in zip(v.keys, v.values)]
    for k in ("space", "time", "quantity"):
        if k not in scale:
            raise AnchorLost("units.py:_units_conversion_dict[%s]" % k)

    dflt = units.toplevel_assign("_default_units_system_dict")
    dfl = {const_str(k): const_str(v) for k, v in zip(dflt.keys, dflt.values)}

    # compute_conversion_factor: f *= (tbl[k][src[k]] / tbl[k][dst[k]]) ** sdim[k]
    ccf = units.func("compute_conversion_factor")
    ok = False
    for n in ast.walk(ccf):
        if isinstance(n, ast.AugAssign) and isinstance(n.op, ast.Mult):
            txt = re.sub(r"\s+", "", units.seg(n.value))
            if txt == "(_units_conversion_dict[k][su_src[k]]/_units_conversion_dict[k][su_dst[k]])**sdim[k]":
                ok = True
    if not ok:
        raise AnchorLost("units.py:compute_conversion_factor product formula")

    pu = units.func("parse_units")
    # the s.replace(a, b) chain, in order
    subst = []
    for n in pu.body:
        if isinstance(n, ast.Assign) and isinstance(n.value, ast.Call) and isinstance(n.value.func, ast.Attribute) \
                and n.value.func.attr == "replace" and len(n.value.args) == 2:
            subst.append((const_str(n.value.args[0]), const_str(n.value.args[1])))
    if not subst:
        raise AnchorLost("units.py:parse_units replace chain")

    def chain(fname):
        f = units.nested_func(pu, fname)
        out = []
        node = f.body[0]
        while isinstance(node, ast.If):
            t = node.test
            if not (isinstance(t, ast.Compare) and len(t.ops) == 1 and isinstance(t.ops[0], ast.Eq)):
                raise AnchorLost("units.py:parse_units.%s chain test" % fname)
            key = const_str(t.comparators[0])
            ret = node.body[0]
            if not isinstance(ret, ast.Return):
                raise AnchorLost("units.py:parse_units.%s chain return" % fname)
            if isinstance(ret.value, ast.Tuple):
                val = tuple(const_str(e) for e in ret.value.elts)
            else:
                val = (const_str(ret.value),)
            out.append((key, val))
            node = node.orelse[0] if node.orelse else None
        if not out:
            raise AnchorLost("units.py:parse_units.%s chain" % fname)
        return out

    volbase = chain("get_volume_fundamental_unit")
    concbase = chain("get_concentration_fundamental_units")

    # exponent characters and separators in the character loop
    expchars, seps = None, None
    for n in ast.walk(pu):
        if isinstance(n, ast.Compare) and len(n.ops) == 1 and isinstance(n.ops[0], ast.In) \
                and isinstance(n.comparators[0], ast.List) and isinstance(n.left, ast.Name):
            try:
                cand = str_list(n.comparators[0])
            except AnchorLost:
                continue
            if "-" in cand and "0" in cand:
                expchars = cand
        if isinstance(n, ast.BoolOp) and isinstance(n.op, ast.Or):
            try:
                vals = [const_str(v.comparators[0]) for v in n.values
                        if isinstance(v, ast.Compare) and isinstance(v.ops[0], ast.Eq)]
            except AnchorLost:
                continue
            if len(vals) == len(n.values) and all(len(v) == 1 for v in vals) and "." in vals:
                seps = vals
    if expchars is None or seps is None:
        raise AnchorLost("units.py:parse_units exponent chars / separators")
    # multipliers used for derived units in addunit calls: volume -> b[2]*3 ; density -> b[2]*-3 and b[2]
    mults = {}
    for n in ast.walk(pu):
        if isinstance(n, ast.If) and isinstance(n.test, ast.Compare) and isinstance(n.test.left, ast.Name) \
                and n.test.left.id == "unittype" and isinstance(n.test.comparators[0], ast.Constant) \
                and isinstance(n.test.comparators[0].value, str):
            kind = const_str(n.test.comparators[0])
            calls = []
            for c in n.body:
                if isinstance(c, ast.Expr) and isinstance(c.value, ast.Call) and getattr(c.value.func, "id", "") == "addunit":
                    a = c.value.args
                    field = const_str(a[0])
                    e = re.sub(r"\s+", "", units.seg(a[2]))
                    m = re.fullmatch(r"b\[2\](?:\*(-?\d+))?", e)
                    if not m:
                        raise AnchorLost("units.py:parse_units addunit exponent " + e)
                    calls.append((field, int(m.group(1) or 1)))
            mults[kind] = calls
    want = {"space": [("space", 1)], "time": [("time", 1)], "quantity": [("quantity", 1)]}
    for k in ("space", "time", "quantity", "volume", "density"):
        if k not in mults:
            raise AnchorLost("units.py:parse_units addunit branch " + k)

    def pairs(lst):
        return "[" + ", ".join("(%s, %s)" % (lean_str(a), lean_rat(b)) for a, b in lst) + "]"

    L = []
    L.append("namespace Strengths.Gen\n")
    L.append("/-- `constants.avogadro_number()` (exact decimal value of the literal) -/")
    L.append("def avogadro : Rat := %s\n" % lean_rat(avo))
    L.append("/-- key order of `_units_labels_dict` (lookup order of `get_unit_type`) -/")
    L.append("def unitTypeOrder : List String := %s\n" % lean_list([lean_str(k) for k in label_key_order]))
    for k, nm in (("space", "spaceSyms"), ("time", "timeSyms"), ("quantity", "qtySyms"), ("density", "densitySyms"),
                  ("volume", "volumeSyms")):
        L.append("def %s : List String := %s" % (nm, lean_list([lean_str(s) for s in lab[k]])))
    L.append("")
    for k, nm in (("space", "spaceScale"), ("time", "timeScale"), ("quantity", "qtyScale")):
        L.append("def %s : List (String × Rat) := %s" % (nm, pairs(scale[k])))
    L.append("")
    L.append("def defaultSpace : String := %s" % lean_str(dfl["space"]))
    L.append("def defaultTime : String := %s" % lean_str(dfl["time"]))
    L.append("def defaultQty : String := %s\n" % lean_str(dfl["quantity"]))
    L.append("/-- the `s.replace(a, b)` chain at the top of `parse_units`, in order -/")
    L.append("def uSubst : List (String × String) := %s\n" %
             lean_list(["(%s, %s)" % (lean_str(a), lean_str(b)) for a, b in subst]))
    L.append("/-- `get_volume_fundamental_unit` -/")
    L.append("def volBase : List (String × String) := %s" %
             lean_list(["(%s, %s)" % (lean_str(a), lean_str(b[0])) for a, b in volbase]))
    L.append("/-- `get_concentration_fundamental_units` : symbol ↦ (quantity unit, space unit) -/")
    L.append("def concBase : List (String × String × String) := %s\n" %
             lean_list(["(%s, %s, %s)" % (lean_str(a), lean_str(b[0]), lean_str(b[1])) for a, b in concbase]))
    L.append("def expChars : List Char := %s" % lean_list(["'%s'" % c for c in expchars]))
    L.append("def sepChars : List Char := %s\n" % lean_list(["'%s'" % c for c in seps]))
    L.append("/-- exponent multipliers of the `addunit` calls per unit type: (field, multiplier) -/")
    for k in ("space", "time", "quantity", "volume", "density"):
        L.append("def addUnit_%s : List (String × Int) := %s" %
                 (k, lean_list(["(%s, (%d : Int))" % (lean_str(f), m) for f, m in mults[k]])))
    L.append("\nend Strengths.Gen")
    return "\n".join(L) + "\n"


# =============================================================================================
# G5 + G6 (Python side): index formulas and range predicates
# =============================================================================================
def _find_return_in_branch(src, fn, test_pred):
    """the `return` expression inside the first `if/elif` of fn whose test satisfies test_pred (on source text),
    or, when test_pred is None, the last top-level return"""
    def visit_if(node):
        while isinstance(node, ast.If):
            if test_pred is not None and test_pred(re.sub(r"\s+", "", src.seg(node.test))):
                for s in node.body:
                    if isinstance(s, ast.Return):
                        return s.value
            if len(node.orelse) == 1 and isinstance(node.orelse[0], ast.If):
                node = node.orelse[0]
            else:
                if test_pred is not None and test_pred("else"):
                    for s in node.orelse:
                        if isinstance(s, ast.Return):
                            return s.value
                return None
        return None
    for st in fn.body:
        if isinstance(st, ast.If):
            r = visit_if(st)
            if r is not None:
                return r
    if test_pred is None:
        for st in reversed(fn.body):
            if isinstance(st, ast.Return):
                return st.value
    raise AnchorLost("%s:%s return pattern" % (src.rel, fn.name))


def _assign_value(src, fn, name):
    for n in ast.walk(fn):
        if isinstance(n, ast.Assign) and len(n.targets) == 1 and isinstance(n.targets[0], ast.Name) and n.targets[0].id == name:
            return n.value
    raise AnchorLost("%s:%s assignment to %s" % (src.rel, fn.name, name))


@group
def gen_IndexPy(repo):
    grid = PySrc(repo, "src/strengths/rdgridspace.py")
    names_arr = {"position[0]": "x", "position[1]": "y", "position[2]": "z", "self.w": "w", "self.h": "h", "self.d": "d"}
    names_obj = {"position.x": "x", "position.y": "y", "position.z": "z", "self.w": "w", "self.h": "h", "self.d": "d"}
    gci = grid.func("get_cell_index", "RDGridSpace")
    e_arr = _find_return_in_branch(grid, gci, lambda t: t == "isarray(position)")
    e_obj = _find_return_in_branch(grid, gci, lambda t: t == "else")
    e_num = _find_return_in_branch(grid, gci, lambda t: t == "isnumber(position)")
    idx_arr = ExprTr(grid, names_arr).tr(e_arr)
    idx_obj = ExprTr(grid, names_obj).tr(e_obj)
    idx_num = ExprTr(grid, {"position": "p"}).tr(e_num)
    # the guard at the top of get_cell_index / get_cell_coordinates: `if not self.is_within_bounds(..): raise`
    def has_guard(fn, arg):
        for st in fn.body:
            if isinstance(st, ast.If) and re.sub(r"\s+", "", grid.seg(st.test)) == "notself.is_within_bounds(%s)" % arg \
                    and any(isinstance(b, ast.Raise) for b in st.body):
                return True
        return False
    gcc = grid.func("get_cell_coordinates", "RDGridSpace")
    guard_idx = has_guard(gci, "position")
    guard_coord = has_guard(gcc, "cell_index")
    names_c = {"cell_index": "i", "self.w": "w", "self.h": "h", "self.d": "d"}
    cx = ExprTr(grid, names_c).tr(_assign_value(grid, gcc, "x"))
    cy = ExprTr(grid, names_c).tr(_assign_value(grid, gcc, "y"))
    cz = ExprTr(grid, names_c).tr(_assign_value(grid, gcc, "z"))
    iwb = grid.func("is_within_bounds", "RDGridSpace")
    b_num = ExprTr(grid, {"position": "p", "self.size()": "size"}).tr(
        _find_return_in_branch(grid, iwb, lambda t: t == "isnumber(position)"))
    b_arr = ExprTr(grid, names_arr).tr(_find_return_in_branch(grid, iwb, lambda t: t == "isarray(position)"))
    b_obj = ExprTr(grid, names_obj).tr(_find_return_in_branch(grid, iwb, lambda t: t == "else"))
    size = grid.func("size", "RDGridSpace")
    size_e = ExprTr(grid, {"self.w": "w", "self.h": "h", "self.d": "d"}).tr(size.body[-1].value)

    rds = PySrc(repo, "src/strengths/rdsystem.py")
    gsi = rds.func("get_state_index", "RDSystem")
    st_e = ExprTr(rds, {"species_index": "s", "self.space.size()": "n", "cell_index": "c"}).tr(
        _find_return_in_branch(rds, gsi, None))
    ssz = rds.func("state_size", "RDSystem")
    ssz_e = ExprTr(rds, {"self.space.size()": "n", "self.network.nspecies()": "ns"}).tr(ssz.body[-1].value)

    out = PySrc(repo, "src/strengths/rdoutput.py")
    gtp = out.func("get_trajectory_point", "RDTrajectory")
    tp_e = None
    for n in ast.walk(gtp):
        if isinstance(n, ast.Return) and isinstance(n.value, ast.Call) and getattr(n.value.func, "attr", "") == "get_at":
            tp_e = ExprTr(out, {"sample_index": "k", "self.nspecies()": "ns", "self.ncells()": "n", "species_index": "s",
                                "cell_index": "c"}).tr(n.value.args[0])
    if tp_e is None:
        raise AnchorLost("rdoutput.py:get_trajectory_point data.get_at(index)")
    # reshape tuples used by get_trajectory / get_state
    def reshape_args(fn):
        res = []
        for n in ast.walk(fn):
            if isinstance(n, ast.Call) and getattr(n.func, "attr", "") == "reshape" and len(n.args) == 1 and isinstance(n.args[0], ast.Tuple):
                res.append([re.sub(r"\s+", "", out.seg(e)) for e in n.args[0].elts])
        return res
    rs_traj = reshape_args(out.func("get_trajectory", "RDTrajectory"))
    rs_state = reshape_args(out.func("get_state", "RDTrajectory"))
    if not rs_traj or not rs_state:
        raise AnchorLost("rdoutput.py:reshape tuples")

    graph = PySrc(repo, "src/strengths/rdgraphspace.py")
    L = ["namespace Strengths.Gen\n"]
    L.append("/-- `RDGridSpace.size` -/\ndef gridSize (w h d : Int) : Int := %s\n" % size_e)
    L.append("/-- `RDGridSpace.get_cell_index`, tuple/list branch -/\ndef cellIndexArr (w h x y z : Int) : Int := %s" % idx_arr)
    L.append("/-- `RDGridSpace.get_cell_index`, object-with-x,y,z branch -/\ndef cellIndexObj (w h x y z : Int) : Int := %s" % idx_obj)
    L.append("/-- `RDGridSpace.get_cell_index`, number branch -/\ndef cellIndexNum (p : Int) : Int := %s" % idx_num)
    L.append("/-- both accessors start with `if not self.is_within_bounds(..) : raise` -/")
    L.append("def cellIndexGuarded : Bool := %s" % ("true" if guard_idx else "false"))
    L.append("def cellCoordsGuarded : Bool := %s\n" % ("true" if guard_coord else "false"))
    L.append("/-- `RDGridSpace.get_cell_coordinates` -/")
    L.append("def cellCoordX (w h i : Int) : Int := %s" % cx)
    L.append("def cellCoordY (w h i : Int) : Int := %s" % cy)
    L.append("def cellCoordZ (w h i : Int) : Int := %s\n" % cz)
    L.append("/-- `RDGridSpace.is_within_bounds`, the three position forms -/")
    L.append("def withinBoundsNum (size p : Int) : Bool := %s" % b_num)
    L.append("def withinBoundsArr (w h d x y z : Int) : Bool := %s" % b_arr)
    L.append("def withinBoundsObj (w h d x y z : Int) : Bool := %s\n" % b_obj)
    L.append("/-- `RDSystem.get_state_index` (s = species index, n = number of cells, c = cell index) -/")
    L.append("def stateIndex (n s c : Int) : Int := %s" % st_e)
    L.append("/-- `RDSystem.state_size` -/\ndef stateSize (n ns : Int) : Int := %s\n" % ssz_e)
    L.append("/-- `RDTrajectory.get_trajectory_point` flat index (k = sample, ns = #species, n = #cells) -/")
    L.append("def trajPointIndex (ns n k s c : Int) : Int := %s" % tp_e)
    L.append("/-- reshape tuples of `get_trajectory` and `get_state` -/")
    L.append("def reshapeTrajectory : List (List String) := %s" %
             lean_list([lean_list([lean_str(x) for x in t]) for t in rs_traj]))
    L.append("def reshapeState : List (List String) := %s" %
             lean_list([lean_list([lean_str(x) for x in t]) for t in rs_state]))
    L.append("\nend Strengths.Gen")
    return "\n".join(L) + "\n"


# =============================================================================================
# G5 + G7 (C++ side): neighbour tables, wrap lines, index formulas, conditions, call orders
# =============================================================================================
def _cpp(repo, name):
    path = os.path.join(repo, ENGINE_SRC, name)
    try:
        with open(path, encoding="utf-8", errors="replace") as f:
            return strip_cpp_comments(f.read())
    except OSError:
        raise AnchorLost("missing " + name)


def _subscripts(text):
    """every `ident[expr]` occurrence (balanced brackets), normalised (blanks removed)"""
    out = []
    for m in re.finditer(r"([A-Za-z_][A-Za-z_0-9]*)\s*\[", text):
        i = m.end() - 1
        depth, j = 0, i
        while j < len(text):
            if text[j] == "[":
                depth += 1
            elif text[j] == "]":
                depth -= 1
                if depth == 0:
                    break
            j += 1
        expr = re.sub(r"\s+", "", text[i + 1:j])
        # chained subscripts a[i][j]: record the second level against a[i]
        name = m.group(1)
        out.append((name, expr))
        k = j + 1
        while k < len(text) and text[k] == "[":
            depth, j2 = 0, k
            while j2 < len(text):
                if text[j2] == "[":
                    depth += 1
                elif text[j2] == "]":
                    depth -= 1
                    if depth == 0:
                        break
                j2 += 1
            out.append((name + "[" + expr + "]", re.sub(r"\s+", "", text[k + 1:j2])))
            expr = expr + "][" + re.sub(r"\s+", "", text[k + 1:j2])
            k = j2 + 1
    return out


def _iterate_order(text, cls):
    m = re.search(r"class\s+%s\b" % cls, text)
    if not m:
        raise AnchorLost("class " + cls)
    body = cpp_function_body(text[m.start():], r"virtual\s+bool\s+Iterate\s*\(\s*\)\s*")
    stmts = []
    depth = 0
    cur = ""
    for ch in body:
        if ch in "{}":
            if cur.strip():
                stmts.append(re.sub(r"\s+", "", cur))
            cur = ""
            stmts.append(ch)
            continue
        if ch == ";":
            stmts.append(re.sub(r"\s+", "", cur))
            cur = ""
        else:
            cur += ch
    if cur.strip():
        stmts.append(re.sub(r"\s+", "", cur))
    return [s for s in stmts if s]


@group
def gen_EngineCpp(repo):
    base3 = _cpp(repo, "SimulationAlgorithm3DBase.hpp")
    baseg = _cpp(repo, "SimulationAlgorithmGraphBase.hpp")
    eng = _cpp(repo, "engine.cpp")
    L = ["namespace Strengths.Gen\n"]

    # ---- GetNeighborIndex
    body = cpp_function_body(base3, r"int\s+GetNeighborIndex\s*\([^)]*\)\s*")
    deltas = []
    for m in re.finditer(r"case\s+(\d+)\s*:\s*([xyz])n\s*([-+])=\s*(\d+)\s*;\s*break\s*;", body):
        deltas.append((int(m.group(1)), "xyz".index(m.group(2)), int(m.group(3) + m.group(4))))
    if len(deltas) != len(re.findall(r"\bcase\b", body)) or not deltas:
        raise AnchorLost("GetNeighborIndex switch cases")
    wraps = {}
    for m in re.finditer(r"if\s*\(\s*boundary_conditions\[(\d)\]\s*==\s*(\d+)\s*\)\s*([xyz])n\s*=\s*([^;]+);", body):
        ax = int(m.group(1))
        if "xyz"[ax] != m.group(3):
            raise AnchorLost("GetNeighborIndex wrap line axis mismatch")
        size = "whd"[ax]
        wraps[ax] = (int(m.group(2)), CppExpr(m.group(4), {size: "n", m.group(3) + "n": "c"}).parse())
    if sorted(wraps) != [0, 1, 2]:
        raise AnchorLost("GetNeighborIndex wrap lines")
    m = re.search(r"if\s*\(([^;{}]*?)\)\s*return\s+([^;]+);\s*else\s+return\s+(-?\d+)\s*;", body, flags=re.S)
    if not m:
        raise AnchorLost("GetNeighborIndex range test / return")
    nm = {"xn": "x", "yn": "y", "zn": "z", "w": "w", "h": "h", "d": "d"}
    inrange = CppExpr(m.group(1), nm).parse()
    retidx = CppExpr(m.group(2), nm).parse()
    L.append("/-- `GetNeighborIndex`: (direction, axis 0/1/2, delta) of the switch -/")
    L.append("def dirDelta : List (Nat × Nat × Int) := %s" % lean_list(["(%d, %d, (%d : Int))" % t for t in sorted(deltas)]))
    L.append("/-- value of `boundary_conditions[axis]` that enables wrapping, per axis -/")
    L.append("def wrapFlag : List Int := %s" % lean_list(["(%d : Int)" % wraps[a][0] for a in range(3)]))
    for a in range(3):
        L.append("/-- wrap line of axis %d: new coordinate from size `n` and shifted coordinate `c` -/" % a)
        L.append("def wrapAxis%d (n c : Int) : Int := %s" % (a, wraps[a][1]))
    L.append("def nbrInRange (w h d x y z : Int) : Bool := %s" % inrange)
    L.append("def nbrIndex (w h x y z : Int) : Int := %s" % retidx)
    L.append("def nbrNone : Int := (%s : Int)\n" % m.group(3))

    # ---- BuildMeshNeighbors coordinate extraction and table subscript
    body = cpp_function_body(base3, r"void\s+BuildMeshNeighbors\s*\(\s*\)\s*")
    cm = {}
    for m in re.finditer(r"int\s+([xyz])coord\s*=\s*([^;]+);", body):
        cm[m.group(1)] = CppExpr(m.group(2), {"i": "i", "w": "w", "h": "h"}).parse()
    if sorted(cm) != ["x", "y", "z"]:
        raise AnchorLost("BuildMeshNeighbors coordinates")
    m = re.search(r"mesh_neighbors\[([^\]]+)\]\s*=\s*GetNeighborIndex\(\s*xcoord\s*,\s*ycoord\s*,\s*zcoord\s*,\s*n\s*\)", body)
    if not m:
        raise AnchorLost("BuildMeshNeighbors table store")
    L.append("/-- `BuildMeshNeighbors`: coordinates of mesh i and slot of (i, direction n) -/")
    L.append("def meshX (w h i : Int) : Int := %s" % cm["x"])
    L.append("def meshY (w h i : Int) : Int := %s" % cm["y"])
    L.append("def meshZ (w h i : Int) : Int := %s" % cm["z"])
    L.append("def nbrSlot (i n : Int) : Int := %s\n" % CppExpr(m.group(1), {"i": "i", "n": "n"}).parse())

    # ---- opposed_direction
    m = re.search(r"opposed_direction\s*=\s*std::vector<int>\s*\{([^}]*)\}", base3)
    if not m:
        raise AnchorLost("opposed_direction table")
    opp = [int(x) for x in m.group(1).split(",")]
    L.append("def oppDir : List Nat := %s\n" % lean_list([str(x) for x in opp]))

    # ---- sampling / completion conditions (both base classes must agree textually)
    def sampling(text, which):
        res = {}
        b = cpp_function_body(text, r"void\s+CheckTMax\s*\(\s*\)\s*")
        m = re.search(r"if\s*\((.*?)\)\s*\{", b, flags=re.S)
        if not m:
            raise AnchorLost(which + " CheckTMax condition")
        res["tmax"] = re.sub(r"\s+", "", m.group(1))
        b = cpp_function_body(text, r"void\s+SampleOnTSample\s*\(\s*\)\s*")
        m = re.search(r"while\s*\((.*?)\)\s*\{(.*?)\}", b, flags=re.S)
        if not m:
            raise AnchorLost(which + " SampleOnTSample loop")
        res["tsample_conds"] = [re.sub(r"\s+", "", c) for c in m.group(1).split("&&")]
        res["tsample_body"] = [re.sub(r"\s+", "", s) for s in m.group(2).split(";") if s.strip()]
        b = cpp_function_body(text, r"void\s+SampleOnInterval\s*\(\s*\)\s*")
        m = re.search(r"double\s+tsi_ratio\s*=\s*([^;]+);\s*if\s*\((.*?)\)\s*\{(.*?)\}", b, flags=re.S)
        if not m:
            raise AnchorLost(which + " SampleOnInterval")
        res["interval_ratio"] = re.sub(r"\s+", "", m.group(1))
        res["interval_cond"] = re.sub(r"\s+", "", m.group(2))
        res["interval_body"] = [re.sub(r"\s+", "", s) for s in m.group(3).split(";") if s.strip()]
        b = cpp_function_body(text, r"void\s+SamplingStep\s*\(\s*\)\s*")
        res["dispatch"] = [(int(a), re.sub(r"\s+", "", c)) for a, c in re.findall(r"case\s+(\d+)\s*:\s*(.*?)break\s*;", b, flags=re.S)]
        b = cpp_function_body(text, r"void\s+Sample\s*\(\s*\)\s*")
        m = re.search(r"if\s*\((.*?)\)\s*\{(.*?)\}", b, flags=re.S)
        if not m:
            raise AnchorLost(which + " Sample")
        res["sample_cond"] = re.sub(r"\s+", "", m.group(1))
        res["sample_body"] = [re.sub(r"\s+", "", s) for s in m.group(2).split(";") if s.strip()]
        b = cpp_function_body(text, r"double\s+GetProgress\s*\(\s*\)\s*")
        res["progress"] = re.sub(r"\s+", "", b)
        return res
    s3, sg = sampling(base3, "3DBase"), sampling(baseg, "GraphBase")

    def strs(l):
        return lean_list([lean_str(x) for x in l])
    for tag, s in (("Grid", s3), ("Graph", sg)):
        L.append("def tMaxCond%s : String := %s" % (tag, lean_str(s["tmax"])))
        L.append("def tSampleLoopConds%s : List String := %s" % (tag, strs(s["tsample_conds"])))
        L.append("def tSampleLoopBody%s : List String := %s" % (tag, strs(s["tsample_body"])))
        L.append("def intervalRatio%s : String := %s" % (tag, lean_str(s["interval_ratio"])))
        L.append("def intervalCond%s : String := %s" % (tag, lean_str(s["interval_cond"])))
        L.append("def intervalBody%s : List String := %s" % (tag, strs(s["interval_body"])))
        L.append("def samplingDispatch%s : List (Nat × String) := %s" %
                 (tag, lean_list(["(%d, %s)" % (a, lean_str(c)) for a, c in s["dispatch"]])))
        L.append("def sampleCond%s : String := %s" % (tag, lean_str(s["sample_cond"])))
        L.append("def sampleBody%s : List String := %s" % (tag, strs(s["sample_body"])))
        L.append("def progressBody%s : String := %s\n" % (tag, lean_str(s["progress"])))

    # ---- Iterate bodies of the six algorithms
    for fname, cls in (("Euler3D.hpp", "Euler3D"), ("TauLeap3D.hpp", "TauLeap3D"), ("Gillespie3D.hpp", "Gillespie3D"),
                       ("EulerGraph.hpp", "EulerGraph"), ("TauLeapGraph.hpp", "TauLeapGraph"), ("GillespieGraph.hpp", "GillespieGraph")):
        L.append("def iterate%s : List String := %s" % (cls, strs(_iterate_order(_cpp(repo, fname), cls))))
    L.append("")

    # ---- engine.cpp: accepted strings and codes
    def chain(fn_regex, var):
        b = cpp_function_body(eng, fn_regex)
        return re.findall(r"CompareStr\(\s*%s\s*,\s*\"([^\"]*)\"\s*\)\)?\s*(?:\{?\s*)?(\w+(?:\[\d\])?)\s*=\s*(?:new\s+)?(\w+)" % var, b)
    for tag, fr in (("Grid", r"int\s+engineexport_initialize_grid\s*\("), ("Graph", r"int\s+engineexport_initialize_graph\s*\(")):
        pol = chain(fr, "sampling_policy")
        if not pol:
            raise AnchorLost("engine.cpp sampling policy chain " + tag)
        L.append("def cppPolicies%s : List (String × Nat) := %s" %
                 (tag, lean_list(["(%s, %s)" % (lean_str(a), c) for a, _, c in pol])))
        opt = chain(fr, "option")
        if not opt:
            raise AnchorLost("engine.cpp option chain " + tag)
        L.append("def cppOptions%s : List (String × String) := %s" %
                 (tag, lean_list(["(%s, %s)" % (lean_str(a), lean_str(c)) for a, _, c in opt])))
        b = cpp_function_body(eng, fr)
        modes = re.findall(r"CompareStr\(\s*init_state_processing\s*,\s*\"([^\"]*)\"\s*\)", b)
        L.append("def cppModes%s : List String := %s" % (tag, strs(modes)))
        # the processing branches, as normalised condition text in order
        conds = [re.sub(r"\s+", "", c) for c in re.findall(r"(?:else\s+)?if\s*\(\s*(CompareStr\(\s*init_state_processing.*?)\)\s*\{", b, flags=re.S)]
        L.append("def cppModeConds%s : List String := %s" % (tag, strs(conds)))
        # which branches transpose the species-major input
        branches = re.split(r"(?:else\s+)?if\s*\(\s*CompareStr\(\s*init_state_processing", b)[1:]
        tr = []
        for br in branches:
            head = br.split("{", 1)[1] if "{" in br else br
            blk = head.split("}", 1)[0]
            tr.append("SpeciesFirstToMeshFirstArray" in blk)
        L.append("def cppModeTransposes%s : List Bool := %s" % (tag, lean_list(["true" if t else "false" for t in tr])))
    bc = re.findall(r"CompareStr\(\s*boundary_conditions_x\s*,\s*\"([^\"]*)\"\s*\)\)\s*boundary_conditions\[0\]\s*=\s*(\d+)", eng)
    if not bc:
        raise AnchorLost("engine.cpp boundary condition chain")
    L.append("def cppBoundary : List (String × Int) := %s\n" % lean_list(["(%s, (%s : Int))" % (lean_str(a), c) for a, c in bc]))

    # ---- transposition and export formulas
    b = cpp_function_body(eng, r"SpeciesFirstToMeshFirstArray\s*\([^)]*\)\s*")
    m = re.search(r"mesh_first_array\[([^\]]+)\]\s*=\s*species_first_array\[([^\]]+)\]", b)
    if not m:
        raise AnchorLost("SpeciesFirstToMeshFirstArray assignment")
    nm = {"i": "i", "s": "s", "n_species": "ns", "n_meshes": "n"}
    L.append("/-- `SpeciesFirstToMeshFirstArray`: dst[dstIdx] = src[srcIdx] -/")
    L.append("def transposeDst (ns n s i : Int) : Int := %s" % CppExpr(m.group(1), nm).parse())
    L.append("def transposeSrc (ns n s i : Int) : Int := %s" % CppExpr(m.group(2), nm).parse())
    b = cpp_function_body(eng, r"int\s+engineexport_get_trajectory\s*\([^)]*\)\s*")
    ms = re.findall(r"trajectory_data\[([^\]]+)\]\s*=\s*trajectory_data_vec\[n\]\[([^\]]+)\]", b)
    if len(ms) != 2 or ms[0] != ms[1]:
        raise AnchorLost("engineexport_get_trajectory assignments (grid and graph branch must agree)")
    nm2 = {"i": "i", "s": "s", "n": "k", "n_species": "ns", "n_meshes": "n"}
    L.append("/-- `engineexport_get_trajectory`: out[exportDst] = sample_k[exportSrc] -/")
    L.append("def exportDst (ns n k s i : Int) : Int := %s" % CppExpr(ms[0][0], nm2).parse())
    L.append("def exportSrc (ns n s i : Int) : Int := %s" % CppExpr(ms[0][1], nm2).parse())
    b = cpp_function_body(eng, r"int\s+engineexport_get_state\s*\([^)]*\)\s*")
    ms = re.findall(r"state_data\[([^\]]+)\]\s*=\s*state_data_vec\[([^\]]+)\]", b)
    if len(ms) != 2 or ms[0] != ms[1]:
        raise AnchorLost("engineexport_get_state assignments")
    L.append("def stateExportDst (ns n s i : Int) : Int := %s" % CppExpr(ms[0][0], nm2).parse())
    L.append("def stateExportSrc (ns n s i : Int) : Int := %s\n" % CppExpr(ms[0][1], nm2).parse())

    # ---- finalize / run / iterate_n skeletons (normalised statement text)
    for fn in ("engineexport_finalize", "engineexport_iterate", "engineexport_iterate_n", "engineexport_run", "engineexport_sample"):
        b = cpp_function_body(eng, r"%s\s*\([^)]*\)\s*" % fn)
        L.append("def body_%s : String := %s" % (fn, lean_str(re.sub(r"\s+", "", b))))
    gl = re.findall(r"^(?:[A-Za-z_][\w:<>]*\s*\*?\s+\*?\s*)(global_\w+)\s*(?:=\s*([^;]+))?;", eng, flags=re.M)
    L.append("def engineGlobals : List (String × String) := %s\n" %
             lean_list(["(%s, %s)" % (lean_str(a), lean_str(b.strip())) for a, b in gl]))

    # ---- index formulas of the flattened tables the algorithms read (must agree across all read sites)
    def table_formula(vec, names, files):
        forms = set()
        for fname in files:
            for name, expr in _subscripts(_cpp(repo, fname)):
                if name == vec:
                    forms.add(CppExpr(expr, names).parse())
        if len(forms) != 1:
            raise AnchorLost("index formula of %s is not unique across its read sites: %s" % (vec, sorted(forms)))
        return forms.pop()
    algo_files = ["SimulationAlgorithm3DBase.hpp", "SimulationAlgorithmGraphBase.hpp", "Euler3D.hpp", "EulerGraph.hpp",
                  "TauLeap3D.hpp", "TauLeapGraph.hpp", "Gillespie3D.hpp", "GillespieGraph.hpp"]
    nm3 = {"mesh_env[i]": "e", "mesh_env[j]": "e", "n_reactions": "nr", "n_species": "ns", "n_env": "ne", "r": "r", "s": "s",
           "j": "s", "reaction_index": "r", "i": "i", "mesh_index": "i", "species_index": "s", "n": "n", "direction": "n"}
    L.append("/-- flattened-table index formulas as read by the algorithms (identical at every read site) -/")
    L.append("def kIndex (nr e r : Int) : Int := %s" % table_formula("k", nm3, algo_files))
    L.append("def subIndex (nr s r : Int) : Int := %s" % table_formula("sub", nm3, algo_files))
    nm_sto = dict(nm3)
    L.append("def stoIndex (nr s r : Int) : Int := %s" % table_formula("sto", nm_sto, algo_files))
    L.append("def dIndex (ne s e : Int) : Int := %s" % table_formula("D", nm3, algo_files))
    L.append("def krIndex (nr i r : Int) : Int := %s" % table_formula("mesh_kr", nm3, algo_files))
    L.append("def kdIndexGrid (ns i s n : Int) : Int := %s" % table_formula("mesh_kd", nm3, ["SimulationAlgorithm3DBase.hpp"]))
    L.append("")

    # ---- subscript inventory (G5): every vec[expr] in every engine source file
    inv = []
    for fname in ("SimulationAlgorithm3DBase.hpp", "SimulationAlgorithmGraphBase.hpp", "Euler3D.hpp", "EulerGraph.hpp",
                  "TauLeap3D.hpp", "TauLeapGraph.hpp", "Gillespie3D.hpp", "GillespieGraph.hpp", "engine.cpp"):
        for name, expr in sorted(set(_subscripts(_cpp(repo, fname)))):
            inv.append((fname, name, expr))
    L.append("/-- every `vector[index]` occurrence in the engine sources: (file, vector, index expression) -/")
    L.append("def subscripts : List (String × String × String) := [")
    L.append(",\n".join("  (%s, %s, %s)" % (lean_str(a), lean_str(b), lean_str(c)) for a, b, c in inv))
    L.append("]")
    L.append("\nend Strengths.Gen")
    return "\n".join(L) + "\n"


# =============================================================================================
# G3 : dictionary readers / writers / constructors (key tables of every *_from_dict / *_to_dict)
# =============================================================================================
_DK_CLASSES = [
    # (name, module, reader, writer, constructor class (module, class) or None)
    ("species", "rdnetwork.py", "species_from_dict", "species_to_dict", ("rdnetwork.py", "Species")),
    ("reaction", "rdnetwork.py", "reaction_from_dict", "reaction_to_dict", ("rdnetwork.py", "Reaction")),
    ("network", "rdnetwork.py", "rdnetwork_from_dict", "rdnetwork_to_dict", ("rdnetwork.py", "RDNetwork")),
    ("grid", "rdgridspace.py", "rdgridspace_from_dict", "rdgridspace_to_dict", ("rdgridspace.py", "RDGridSpace")),
    ("node", "rdgraphspace.py", "rdgraphspacenode_from_dict", "rdgraphspacenode_to_dict", ("rdgraphspace.py", "RDGraphSpaceNode")),
    ("edge", "rdgraphspace.py", "rdgraphspaceedge_from_dict", "rdgraphspaceedge_to_dict", ("rdgraphspace.py", "RDGraphSpaceEdge")),
    ("graph", "rdgraphspace.py", "rdgraphspace_from_dict", "rdgraphspace_to_dict", ("rdgraphspace.py", "RDGraphSpace")),
    ("system", "rdsystem.py", "rdsystem_from_dict", "rdsystem_to_dict", ("rdsystem.py", "RDSystem")),
    ("script", "rdscript.py", "rdscript_from_dict", "rdscript_to_dict", ("rdscript.py", "RDScript")),
    ("unitsSystem", "units.py", "unitssystem_from_dict", "unitssystem_to_dict", ("units.py", "UnitsSystem")),
    ("unitArray", "units.py", "unitarray_from_dict", "unitarray_to_dict", None),
    ("trajectory", "rdoutput.py", "load_rdtrajectory", "save_rdtrajectory", ("rdoutput.py", "RDTrajectory")),
]


def _dk_is_d_sub(n):
    """`d["k"]` -> k"""
    if isinstance(n, ast.Subscript) and isinstance(n.value, ast.Name) and n.value.id == "d" \
            and isinstance(n.slice, ast.Constant) and isinstance(n.slice.value, str):
        return n.slice.value
    return None


def _dk_is_d_get(n):
    """`d.get("k", default)` -> k"""
    if isinstance(n, ast.Call) and isinstance(n.func, ast.Attribute) and n.func.attr == "get" \
            and isinstance(n.func.value, ast.Name) and n.func.value.id == "d" and n.args \
            and isinstance(n.args[0], ast.Constant) and isinstance(n.args[0].value, str):
        return n.args[0].value
    return None


def _dk_guard_key(test):
    """`"k" in d` -> k ;  `"k" in d and d["k"] is not None` -> k (the caller records that None counts as omitted)"""
    if isinstance(test, ast.BoolOp) and isinstance(test.op, ast.And) and len(test.values) == 2:
        k = _dk_guard_key(test.values[0])
        t = test.values[1]
        if k is not None and isinstance(t, ast.Compare) and len(t.ops) == 1 and isinstance(t.ops[0], ast.IsNot) \
                and _dk_is_d_sub(t.left) == k and isinstance(t.comparators[0], ast.Constant) and t.comparators[0].value is None:
            return k
        return None
    if isinstance(test, ast.Compare) and len(test.ops) == 1 and isinstance(test.ops[0], ast.In) \
            and isinstance(test.left, ast.Constant) and isinstance(test.left.value, str) \
            and isinstance(test.comparators[0], ast.Name) and test.comparators[0].id == "d":
        return test.left.value
    return None


def _dk_reader(src, fn):
    aliases = None
    for n in ast.walk(fn):
        if isinstance(n, ast.Call) and isinstance(n.func, ast.Attribute) and n.func.attr == "process_input_dict_keys":
            if len(n.args) < 2 or not isinstance(n.args[1], ast.List):
                raise AnchorLost("%s:%s process_input_dict_keys synonyms literal" % (src.rel, fn.name))
            aliases = [str_list(g) for g in n.args[1].elts]
            extra = [k.arg for k in n.keywords] + (["policy"] if len(n.args) > 2 else [])
            if extra:
                raise AnchorLost("%s:%s process_input_dict_keys called with a policy" % (src.rel, fn.name))
    wiring, mandatory, optional_get, units_default = [], [], [], None
    none_as_omitted, reader_default = [], []
    varkeys = {}
    # the dictionary of constructor arguments: the name splatted into a call (`Cls(**da)`), whatever it is called
    kw_name = "da"
    for n in ast.walk(fn):
        if isinstance(n, ast.Call):
            for kw in n.keywords:
                if kw.arg is None and isinstance(kw.value, ast.Name) and kw.value.id != "d":
                    kw_name = kw.value.id

    def keys_of(expr):
        ks = []
        for n in ast.walk(expr):
            k = _dk_is_d_sub(n)
            if k is None:
                k = _dk_is_d_get(n)
            if k is not None and k not in ks:
                ks.append(k)
        return ks

    def retrieve_default(expr):
        for n in ast.walk(expr):
            if isinstance(n, ast.Call) and getattr(n.func, "attr", getattr(n.func, "id", "")) == "retrive_units_system_from_dict":
                for kw in n.keywords:
                    if kw.arg == "default":
                        return const_str(kw.value)
                if len(n.args) >= 2:
                    return const_str(n.args[1])
                raise AnchorLost("%s:%s retrive_units_system_from_dict default" % (src.rel, fn.name))
        return None

    def add_wire(k, p):
        if (k, p) not in wiring:
            wiring.append((k, p))

    def visit(stmts, guards):
        nonlocal units_default
        for st in stmts:
            if isinstance(st, ast.If):
                gk = _dk_guard_key(st.test)
                if gk is not None:
                    if isinstance(st.test, ast.BoolOp) and gk not in none_as_omitted:
                        none_as_omitted.append(gk)
                    visit(st.body, guards + [gk])
                    if any(isinstance(x, ast.Raise) for x in st.orelse):
                        if gk not in mandatory:
                            mandatory.append(gk)
                    else:
                        # an else branch that fills the constructor argument itself: the reader's own default
                        for x in st.orelse:
                            if isinstance(x, ast.Assign) and len(x.targets) == 1 and isinstance(x.targets[0], ast.Subscript) \
                                    and isinstance(x.targets[0].value, ast.Name) and x.targets[0].value.id == kw_name:
                                reader_default.append((gk, re.sub(r"\s+", "", src.seg(x.value))))
                        visit(st.orelse, guards)
                else:
                    # unguarded subscripts in the test itself are mandatory reads
                    for k in keys_of(st.test):
                        if k not in guards and not any(_dk_is_d_get(n) == k for n in ast.walk(st.test)) and k not in mandatory:
                            mandatory.append(k)
                    visit(st.body, guards)
                    visit(st.orelse, guards)
                continue
            if isinstance(st, (ast.For, ast.While, ast.With, ast.Try)):
                visit(getattr(st, "body", []), guards)
                continue
            # mandatory: a plain d["k"] outside a guard for k (a `d.get("k", ..)` test in the same statement is a guard)
            got = [_dk_is_d_get(n) for n in ast.walk(st)]
            for n in ast.walk(st):
                k = _dk_is_d_sub(n)
                if k is not None and k not in guards and k not in got and k not in mandatory:
                    mandatory.append(k)
                k = _dk_is_d_get(n)
                if k is not None and k not in optional_get:
                    optional_get.append(k)
            if isinstance(st, ast.Assign) and len(st.targets) == 1:
                tgt = st.targets[0]
                ud = retrieve_default(st.value)
                ks = keys_of(st.value)
                for n in ast.walk(st.value):
                    if isinstance(n, ast.Name) and n.id in varkeys:
                        for k in varkeys[n.id]:
                            if k not in ks:
                                ks.append(k)
                if isinstance(tgt, ast.Name) and tgt.id != "d":
                    if ud is not None:
                        ks = ks + ["units"]
                    if ks:
                        varkeys[tgt.id] = ks
                    elif guards and tgt.id in varkeys:
                        pass
                elif isinstance(tgt, ast.Subscript) and isinstance(tgt.value, ast.Name) and tgt.value.id == kw_name \
                        and isinstance(tgt.slice, ast.Constant):
                    p = tgt.slice.value
                    if ud is not None:
                        units_default = ud
                        add_wire("units", p)
                    else:
                        if guards:
                            add_wire(guards[-1], p)
                        else:
                            for k in ks:
                                add_wire(k, p)
            if isinstance(st, ast.Return) and st.value is not None:
                v = st.value
                if isinstance(v, ast.Call):
                    if any(kw.arg is None and isinstance(kw.value, ast.Name) and kw.value.id == "d" for kw in v.keywords):
                        for g in (aliases or []):          # Cls(**d): every canonical key is its own parameter
                            add_wire(g[0], g[0])
                    for kw in v.keywords:
                        if kw.arg is None:
                            continue
                        ks = keys_of(kw.value)
                        for n in ast.walk(kw.value):
                            if isinstance(n, ast.Name) and n.id in varkeys:
                                ks += [k for k in varkeys[n.id] if k not in ks]
                        for k in ks:
                            add_wire(k, kw.arg)

    visit(fn.body, [])
    return aliases, wiring, mandatory, optional_get, units_default, none_as_omitted, reader_default


def _dk_writer(src, fn):
    emitted, cond = [], []
    lit = None
    for n in ast.walk(fn):
        if isinstance(n, ast.Assign) and len(n.targets) == 1 and isinstance(n.targets[0], ast.Name) \
                and n.targets[0].id == "d" and isinstance(n.value, ast.Dict) and lit is None:
            lit = n.value
        if isinstance(n, ast.Return) and isinstance(n.value, ast.Dict) and lit is None:
            lit = n.value
    if lit is None:
        raise AnchorLost("%s:%s dict literal" % (src.rel, fn.name))
    for k in lit.keys:
        emitted.append(const_str(k))

    def visit(stmts, conditional):
        for st in stmts:
            if isinstance(st, ast.If):
                # a key assigned in both branches of an if/else is unconditional
                def assigned(body):
                    out = []
                    for s in body:
                        if isinstance(s, ast.Assign) and len(s.targets) == 1:
                            k = _dk_is_d_sub(s.targets[0])
                            if k is not None:
                                out.append(k)
                    return out
                a, b = assigned(st.body), assigned(st.orelse)
                for k in a + b:
                    if k in a and k in b and not conditional:
                        if k not in emitted:
                            emitted.append(k)
                    elif k not in emitted and k not in cond:
                        cond.append(k)
                continue
            if isinstance(st, ast.Assign) and len(st.targets) == 1:
                k = _dk_is_d_sub(st.targets[0])
                if k is not None:
                    (cond if conditional else emitted).append(k) if k not in emitted + cond else None
    visit(fn.body, False)
    return emitted, cond


def _dk_ctor(repo, mod, cls):
    src = PySrc(repo, "src/strengths/" + mod)
    init = src.func("__init__", cls)
    a = init.args
    if a.vararg or a.kwarg or a.kwonlyargs:
        raise AnchorLost("%s:%s.__init__ signature shape" % (mod, cls))
    names = [x.arg for x in a.args][1:]
    defaults = [None] * (len(names) - len(a.defaults)) + [re.sub(r"\s+", "", src.seg(d)) for d in a.defaults]
    return list(zip(names, defaults))


@group
def gen_DictKeys(repo):
    def opt(s):
        return "none" if s is None else "(some %s)" % lean_str(s)

    L = ["namespace Strengths.Gen.DictKeys\n",
         "/-- what the source says about one dictionary form: the synonym groups its reader accepts, how the\n"
         "canonical keys are wired to constructor parameters, which keys the reader insists on, the default of the\n"
         "`units` key, the keys its writer emits (always / under a condition) and the constructor signature -/",
         "structure Table where",
         "  name : String",
         "  aliases : List (List String)",
         "  wiring : List (String × String)",
         "  mandatory : List String",
         "  optionalGet : List String",
         "  unitsDefault : Option String",
         "  noneAsOmitted : List String",
         "  readerDefault : List (String × String)",
         "  emitted : List String",
         "  emittedCond : List String",
         "  ctor : List (String × Option String)",
         "  deriving DecidableEq, Repr\n"]
    srcs = {}
    names = []
    for name, mod, reader, writer, ctor in _DK_CLASSES:
        if mod not in srcs:
            srcs[mod] = PySrc(repo, "src/strengths/" + mod)
        src = srcs[mod]
        aliases, wiring, mandatory, optget, udef, none_om, rdef = _dk_reader(src, src.func(reader))
        if aliases is None and name != "trajectory":
            raise AnchorLost("%s:%s process_input_dict_keys call" % (mod, reader))
        if name == "trajectory":
            aliases = [[k] for k in mandatory + [k for k in optget if k not in mandatory]]
        emitted, cond = _dk_writer(src, src.func(writer))
        params = _dk_ctor(repo, *ctor) if ctor else []
        if name == "unitArray":
            # UnitArray(d["value"], d["units"]) : positional wiring onto the data parameters
            wiring = [("value", "value"), ("units", "units")]
            params = [(p, d) for p, d in _dk_ctor(repo, "units.py", "UnitArray") if p in ("value", "units")]
        L.append("/-- `%s` / `%s`%s -/" % (reader, writer, (" / `%s.__init__`" % ctor[1]) if ctor else ""))
        L.append("def %s : Table where" % name)
        L.append("  name := %s" % lean_str(name))
        L.append("  aliases := %s" % lean_list([lean_list([lean_str(k) for k in g]) for g in aliases]))
        L.append("  wiring := %s" % lean_list(["(%s, %s)" % (lean_str(k), lean_str(p)) for k, p in wiring]))
        L.append("  mandatory := %s" % lean_list([lean_str(k) for k in mandatory]))
        L.append("  optionalGet := %s" % lean_list([lean_str(k) for k in optget]))
        L.append("  unitsDefault := %s" % opt(udef))
        L.append("  noneAsOmitted := %s" % lean_list([lean_str(k) for k in none_om]))
        L.append("  readerDefault := %s" % lean_list(["(%s, %s)" % (lean_str(k), lean_str(v)) for k, v in rdef]))
        L.append("  emitted := %s" % lean_list([lean_str(k) for k in emitted]))
        L.append("  emittedCond := %s" % lean_list([lean_str(k) for k in cond]))
        L.append("  ctor := %s\n" % lean_list(["(%s, %s)" % (lean_str(p), opt(d)) for p, d in params]))
        names.append(name)
    L.append("def all : List Table := %s\n" % lean_list(names))

    # ---- accepted-value lists used by the constructors behind the readers
    def not_in_list(src, fn, what):
        for n in ast.walk(fn):
            if isinstance(n, ast.Compare) and len(n.ops) == 1 and isinstance(n.ops[0], (ast.NotIn, ast.In)) \
                    and isinstance(n.comparators[0], ast.List):
                try:
                    return str_list(n.comparators[0])
                except AnchorLost:
                    continue
        raise AnchorLost("%s:%s accepted-value list (%s)" % (src.rel, fn.name, what))

    def setter(src, cls, prop):
        for n in src.tree.body:
            if isinstance(n, ast.ClassDef) and n.name == cls:
                for f in n.body:
                    if isinstance(f, ast.FunctionDef) and f.name == prop and any(
                            isinstance(d, ast.Attribute) and d.attr == "setter" for d in f.decorator_list):
                        return f
        raise AnchorLost("%s:%s.%s setter" % (src.rel, cls, prop))

    scr = srcs["rdscript.py"]
    L.append("/-- accepted values of `RDScript.sampling_policy` / `init_state_processing` -/")
    L.append("def pyPolicies : List String := %s" % lean_list([lean_str(s) for s in not_in_list(scr, setter(scr, "RDScript", "sampling_policy"), "policies")]))
    L.append("def pyModes : List String := %s" % lean_list([lean_str(s) for s in not_in_list(scr, setter(scr, "RDScript", "init_state_processing"), "modes")]))
    grid = srcs["rdgridspace.py"]
    sbc = grid.func("set_boundary_conditions", "RDGridSpace")
    lists = []
    for n in ast.walk(sbc):
        if isinstance(n, ast.Compare) and len(n.ops) == 1 and isinstance(n.ops[0], ast.NotIn) and isinstance(n.comparators[0], ast.List):
            lists.append(str_list(n.comparators[0]))
    if len(lists) != 2:
        raise AnchorLost("rdgridspace.py:set_boundary_conditions axis / condition lists")
    L.append("/-- `set_boundary_conditions`: accepted axes, accepted conditions, initial condition per axis -/")
    L.append("def bcAxes : List String := %s" % lean_list([lean_str(s) for s in lists[0]]))
    L.append("def bcValues : List String := %s" % lean_list([lean_str(s) for s in lists[1]]))
    init_bc = None
    for n in ast.walk(sbc):
        if isinstance(n, ast.Assign) and isinstance(n.value, ast.Dict) and isinstance(n.targets[0], ast.Attribute) \
                and n.targets[0].attr == "_boundary_conditions":
            init_bc = [(const_str(k), const_str(v)) for k, v in zip(n.value.keys, n.value.values)]
    if init_bc is None:
        raise AnchorLost("rdgridspace.py:set_boundary_conditions initial dict")
    L.append("def bcInitial : List (String × String) := %s" % lean_list(["(%s, %s)" % (lean_str(a), lean_str(b)) for a, b in init_bc]))
    # rdspace_from_dict dispatch on "type"
    sp = PySrc(repo, "src/strengths/rdspace.py")
    f = sp.func("rdspace_from_dict")
    types, dflt_type = [], None
    for n in ast.walk(f):
        if isinstance(n, ast.Compare) and len(n.ops) == 1 and isinstance(n.ops[0], ast.Eq) and _dk_is_d_sub(n.left) == "type":
            types.append(const_str(n.comparators[0]))
        if isinstance(n, ast.Assign) and _dk_is_d_sub(n.targets[0]) == "type":
            dflt_type = const_str(n.value)
    if not types or dflt_type is None:
        raise AnchorLost("rdspace.py:rdspace_from_dict type dispatch")
    L.append("/-- `rdspace_from_dict`: dispatch values of \"type\" and the value assumed when the key is absent -/")
    L.append("def spaceTypes : List String := %s" % lean_list([lean_str(s) for s in types]))
    L.append("def spaceTypeDefault : String := %s" % lean_str(dflt_type))
    L.append("\nend Strengths.Gen.DictKeys")
    return "\n".join(L) + "\n"


# =============================================================================================
# C18 : the text pipeline of units.py (parse_units pre/post-processing, parse_unitvalue,
#       Units.__str__, UnitValue.__str__, Units.__eq__)
# =============================================================================================
@group
def gen_UnitsText(repo):
    units = PySrc(repo, "src/strengths/units.py")

    def norm(node):
        return re.sub(r"\s+", "", units.seg(node))

    # ------------------------------------------------------------------ parse_units
    pu = units.func("parse_units")
    top = [n for n in pu.body]
    # order of the top-level preprocessing statements: replace chain, strip, empty test, whitespace guard
    idx_strip = idx_empty = idx_guard = idx_loop = None
    for i, n in enumerate(top):
        if isinstance(n, ast.Assign) and norm(n) == "s=s.strip()":
            idx_strip = i
        if isinstance(n, ast.If) and norm(n.test) == 's==""' and any(isinstance(b, ast.Return) for b in n.body):
            idx_empty = i
        if isinstance(n, ast.If) and norm(n.test) == "any(c.isspace()forcins)" and any(isinstance(b, ast.Raise) for b in n.body):
            idx_guard = i
        if isinstance(n, ast.For) and norm(n.iter) == "s" and idx_loop is None:
            idx_loop = i
    if idx_strip is None or idx_empty is None or idx_loop is None:
        raise AnchorLost("units.py:parse_units strip / empty test / character loop")
    if not (idx_strip < idx_empty < idx_loop):
        raise AnchorLost("units.py:parse_units order of strip, empty test, character loop")
    guard = idx_guard is not None and idx_empty < idx_guard < idx_loop
    if idx_guard is not None and not guard:
        raise AnchorLost("units.py:parse_units whitespace guard position")
    # replace chain must come before the strip
    for i, n in enumerate(top):
        if isinstance(n, ast.Assign) and isinstance(n.value, ast.Call) and isinstance(n.value.func, ast.Attribute) \
                and n.value.func.attr == "replace" and i > idx_strip:
            raise AnchorLost("units.py:parse_units replace after strip")
    # first block
    first_sep = None
    for n in top:
        if isinstance(n, ast.Assign) and norm(n.targets[0]) == "blocks" and isinstance(n.value, ast.List) \
                and len(n.value.elts) == 1 and isinstance(n.value.elts[0], ast.List):
            e = n.value.elts[0].elts
            if len(e) == 3 and const_str(e[1]) == "" and const_str(e[2]) == "":
                first_sep = const_str(e[0])
    if first_sep is None or len(first_sep) != 1:
        raise AnchorLost("units.py:parse_units initial block")
    # second pass over the blocks: default exponent, reader, negation separator
    dflt_exp = reader = neg_sep = None
    for n in top:
        if isinstance(n, ast.For) and norm(n.iter) == "blocks" and norm(n.target) == "b":
            for st in n.body:
                if isinstance(st, ast.If) and norm(st.test) == 'b[2]==""' and len(st.body) == 1 \
                        and isinstance(st.body[0], ast.Assign) and norm(st.body[0].targets[0]) == "b[2]":
                    dflt_exp = const_str(st.body[0].value)
                if isinstance(st, ast.Assign) and norm(st.targets[0]) == "b[2]" and isinstance(st.value, ast.Call) \
                        and isinstance(st.value.func, ast.Name) and norm(st.value.args[0]) == "b[2]" and len(st.value.args) == 1:
                    reader = st.value.func.id
                if isinstance(st, ast.If) and isinstance(st.test, ast.Compare) and norm(st.test.left) == "b[0]" \
                        and isinstance(st.test.ops[0], ast.Eq) and len(st.body) == 1 and norm(st.body[0]) == "b[2]=-b[2]":
                    neg_sep = const_str(st.test.comparators[0])
            if reader is not None:
                break
    if dflt_exp is None or reader is None or neg_sep is None or len(neg_sep) != 1:
        raise AnchorLost("units.py:parse_units exponent pass (default exponent / int() / '/' negation)")
    # addunit: same-base consistency test
    au = units.nested_func(pu, "addunit")
    au_test = None
    for n in au.body:
        if isinstance(n, ast.If):
            au_test = norm(n.test)
            au_else_raises = any(isinstance(b, ast.Raise) for b in n.orelse)
    if au_test is None:
        raise AnchorLost("units.py:parse_units.addunit test")
    # unknown unit: `if unittype == None: raise`
    unk = False
    for n in ast.walk(pu):
        if isinstance(n, ast.If) and norm(n.test) == "unittype==None" and any(isinstance(b, ast.Raise) for b in n.body):
            unk = True

    # ------------------------------------------------------------------ parse_unitvalue
    pv = units.func("parse_unitvalue")
    strips = any(isinstance(n, ast.Assign) and norm(n) == "s=s.strip()" for n in pv.body)
    splitter = None
    for n in pv.body:
        if isinstance(n, ast.Assign) and norm(n.targets[0]) == "tok":
            splitter = norm(n.value)
    if splitter is None:
        raise AnchorLost("units.py:parse_unitvalue tok = s.split()")
    value_reader = join = empty_value = empty_units = None
    units_arg = None
    for n in ast.walk(pv):
        if isinstance(n, ast.Assign) and norm(n.targets[0]) == "value" and isinstance(n.value, ast.Call) \
                and isinstance(n.value.func, ast.Name) and len(n.value.args) == 1:
            value_reader = "%s(%s)" % (n.value.func.id, norm(n.value.args[0]))
        if isinstance(n, ast.Assign) and norm(n.targets[0]) == "value" and isinstance(n.value, ast.Constant):
            empty_value = const_number(units, n.value, {})
        if isinstance(n, ast.Assign) and norm(n.targets[0]) == "us":
            v = n.value
            if isinstance(v, ast.Call) and isinstance(v.func, ast.Attribute) and v.func.attr == "join" \
                    and len(v.args) == 1 and norm(v.args[0]) == "tok[1:]":
                join = const_str(v.func.value)
        if isinstance(n, ast.AugAssign) and norm(n.target) == "us" and isinstance(n.op, ast.Add) and norm(n.value) == "tok[i]" \
                and join is None:
            join = ""    # token concatenation loop (`us += tok[i]`)
        if isinstance(n, ast.Assign) and norm(n.targets[0]) == "units" and isinstance(n.value, ast.Call) \
                and norm(n.value.func) == "parse_units" and len(n.value.args) == 1:
            a = n.value.args[0]
            if isinstance(a, ast.Constant):
                empty_units = const_str(a)
            else:
                units_arg = norm(a)
    if value_reader is None or join is None or empty_value is None or empty_units is None or units_arg is None:
        raise AnchorLost("units.py:parse_unitvalue value / join / empty case")

    # ------------------------------------------------------------------ Units.__str__ / UnitValue.__str__ / Units.__eq__
    us = units.func("__str__", "Units")
    skip = bare = sep = None
    keys = None
    for n in ast.walk(us):
        if isinstance(n, ast.For) and norm(n.iter) == "self.sys.keys()":
            keys = "self.sys.keys()"
        if isinstance(n, ast.If) and isinstance(n.test, ast.Compare) and norm(n.test.left) == "self.dim[k]" \
                and isinstance(n.test.ops[0], ast.NotEq):
            val = const_number(units, n.test.comparators[0], {})
            inner = [b for b in n.body if isinstance(b, ast.If)]
            if inner:
                skip = val
            else:
                bare = val
                if not (len(n.body) == 1 and norm(n.body[0]) == "s.append(self.sys[k]+str(self.dim[k]))"
                        and len(n.orelse) == 1 and norm(n.orelse[0]) == "s.append(self.sys[k])"):
                    raise AnchorLost("units.py:Units.__str__ append statements")
        if isinstance(n, ast.AugAssign) and norm(n.target) == "out" and isinstance(n.value, ast.Constant):
            sep = const_str(n.value)
    if skip is None or bare is None or sep is None or keys is None:
        raise AnchorLost("units.py:Units.__str__ structure")
    kf = units.func("keys", "_UnitsComponentDict")
    key_list = None
    for n in ast.walk(kf):
        if isinstance(n, ast.Return):
            key_list = str_list(n.value)
    if key_list is None:
        raise AnchorLost("units.py:_UnitsComponentDict.keys")
    vs = units.func("__str__", "UnitValue")
    vsep = None
    for n in ast.walk(vs):
        if isinstance(n, ast.Return):
            m = re.fullmatch(r'str\(self\.value\)\+("[^"]*")\+self\.units\.__str__\(\)', norm(n.value))
            if m:
                vsep = ast.literal_eval(m.group(1))
            # note: a blank inside the literal survives `norm` only if quoted text is kept; re-read from the AST
            if isinstance(n.value, ast.BinOp) and isinstance(n.value.left, ast.BinOp) \
                    and isinstance(n.value.left.right, ast.Constant) and isinstance(n.value.left.right.value, str) \
                    and norm(n.value.left.left) == "str(self.value)" and norm(n.value.right) == "self.units.__str__()":
                vsep = n.value.left.right.value
    if vsep is None:
        raise AnchorLost("units.py:UnitValue.__str__ return")
    ue = units.func("__eq__", "Units")
    eq_keys, eq_tests = None, []
    for n in ast.walk(ue):
        if isinstance(n, ast.For) and isinstance(n.iter, (ast.List, ast.Tuple)):
            eq_keys = str_list(n.iter)
            for st in n.body:
                if isinstance(st, ast.If) and len(st.body) == 1 and norm(st.body[0]) == "returnFalse":
                    eq_tests.append(norm(st.test))
    if eq_keys is None or not eq_tests:
        raise AnchorLost("units.py:Units.__eq__ loop")

    L = []
    L.append("namespace Strengths.Gen\n")
    L.append("/-- `parse_units`: the replace chain, then `s = s.strip()`, then `if s == \"\": return` default units,")
    L.append("then (when present) `if any(c.isspace() for c in s): raise`, then the character loop -/")
    L.append("def puRejectsInnerBlank : Bool := %s" % ("true" if guard else "false"))
    L.append("def puFirstBlockSep : Char := '%s'" % first_sep)
    L.append("/-- exponent pass: `if b[2] == \"\": b[2] = <default>`, `b[2] = <reader>(b[2])`, `if b[0] == <sep>: b[2] = -b[2]` -/")
    L.append("def puDefaultExp : String := %s" % lean_str(dflt_exp))
    L.append("def puExpReader : String := %s" % lean_str(reader))
    L.append("def puNegSep : Char := '%s'" % neg_sep)
    L.append("/-- `addunit`: accept test, and whether the else branch raises -/")
    L.append("def puAddUnitTest : String := %s" % lean_str(au_test))
    L.append("def puAddUnitElseRaises : Bool := %s" % ("true" if au_else_raises else "false"))
    L.append("def puUnknownUnitRaises : Bool := %s\n" % ("true" if unk else "false"))
    L.append("/-- `parse_unitvalue` -/")
    L.append("def uvStrips : Bool := %s" % ("true" if strips else "false"))
    L.append("def uvSplitter : String := %s" % lean_str(splitter))
    L.append("def uvValueReader : String := %s" % lean_str(value_reader))
    L.append("def uvUnitTokJoin : String := %s" % lean_str(join))
    L.append("def uvUnitsArg : String := %s" % lean_str(units_arg))
    L.append("def uvEmptyValue : Rat := %s" % lean_rat(empty_value))
    L.append("def uvEmptyUnits : String := %s\n" % lean_str(empty_units))
    L.append("/-- `Units.__str__`: skip exponent, bare-symbol exponent, separator, key order -/")
    L.append("def strSkipExp : Int := %d" % int(skip))
    L.append("def strBareExp : Int := %d" % int(bare))
    L.append("def strSep : String := %s" % lean_str(sep))
    L.append("def strKeys : List String := %s" % lean_list([lean_str(k) for k in key_list]))
    L.append("/-- `UnitValue.__str__` = str(value) + <sep> + str(units) -/")
    L.append("def uvStrSep : String := %s\n" % lean_str(vsep))
    L.append("/-- `Units.__eq__`: keys of the loop and the tests that return False -/")
    L.append("def unitsEqKeys : List String := %s" % lean_list([lean_str(k) for k in eq_keys]))
    L.append("def unitsEqTests : List String := %s" % lean_list([lean_str(k) for k in eq_tests]))
    L.append("\nend Strengths.Gen")
    return "\n".join(L) + "\n"


# =============================================================================================
# UnitsOps : operator wiring of UnitValue / UnitArray (C05) — normalised source text, no evaluation
# =============================================================================================
@group
def gen_UnitsOps(repo):
    units = PySrc(repo, "src/strengths/units.py")

    def norm(node):
        txt = re.sub(r"\s+", "", units.seg(node))
        return re.sub(r"\"[^\"]*\"|'[^']*'", '""', txt)

    def stmt(s):
        if isinstance(s, ast.Expr) and isinstance(s.value, ast.Constant) and isinstance(s.value.value, str):
            return None   # docstring
        if isinstance(s, ast.Return):
            return "return " + (norm(s.value) if s.value is not None else "")
        if isinstance(s, ast.Raise):
            e = s.exc
            name = e.func.id if isinstance(e, ast.Call) and isinstance(e.func, ast.Name) else (e.id if isinstance(e, ast.Name) else None)
            if name is None:
                raise AnchorLost("units.py: raise of an unexpected form: " + units.seg(s)[:60])
            return "raise " + name
        if isinstance(s, ast.If):
            out = "if " + norm(s.test) + ":{" + body(s.body) + "}"
            if s.orelse:
                out += "else:{" + body(s.orelse) + "}"
            return out
        if isinstance(s, (ast.Assign, ast.AugAssign)):
            return norm(s)
        if isinstance(s, ast.For):
            return "for " + norm(s.target) + " in " + norm(s.iter) + ":{" + body(s.body) + "}"
        raise AnchorLost("units.py: statement outside the normalised subset: " + units.seg(s)[:60])

    def body(stmts):
        return ";".join(x for x in (stmt(s) for s in stmts) if x is not None)

    def branches(fn):
        """the top-level if/elif/else chain of a method: [(test, body)]; other statements: ("", stmt)"""
        out = []
        for s in fn.body:
            if isinstance(s, ast.If):
                node = s
                while True:
                    out.append((norm(node.test), body(node.body)))
                    if len(node.orelse) == 1 and isinstance(node.orelse[0], ast.If):
                        node = node.orelse[0]
                    else:
                        if node.orelse:
                            out.append(("else", body(node.orelse)))
                        break
            else:
                t = stmt(s)
                if t is not None:
                    out.append(("", t))
        if not out:
            raise AnchorLost("units.py:%s has no statements" % fn.name)
        return out

    def table(name, rows):
        return "def %s : List (String × String) := %s" % (
            name, lean_list(["(%s, %s)" % (lean_str(a), lean_str(b)) for a, b in rows]))

    L = ["namespace Strengths.Gen\n"]
    dunders = ["__add__", "__radd__", "__sub__", "__rsub__", "__mul__", "__rmul__", "__truediv__", "__rtruediv__",
               "__mod__", "__rmod__", "__neg__", "__abs__", "invert"]
    for cls, pre in (("UnitValue", "uval"), ("UnitArray", "uarr")):
        rows = []
        for m in dunders:
            fn = units.func(m, cls=cls)
            b = branches(fn)
            if len(b) != 1 or b[0][0] != "" or not b[0][1].startswith("return "):
                raise AnchorLost("units.py:%s.%s is not a single return" % (cls, m))
            rows.append((m, b[0][1][len("return "):]))
        L.append("/-- `%s`: the return expression of every operator method (whitespace removed) -/" % cls)
        L.append(table(pre + "Wiring", rows))
        for m in ("_sum", "_product", "_modulo", "_rmodulo"):
            L.append("/-- `%s.%s`: (test, normalised body) per branch -/" % (cls, m))
            L.append(table(pre + m, branches(units.func(m, cls=cls))))
        for m in ("__pow__", "__rpow__"):
            L.append(table(pre + m.strip("_").capitalize(), branches(units.func(m, cls=cls))))
        # comparison methods the class defines (Python derives `!=` from `__eq__` only when `__ne__` is absent)
        cdef = None
        for n in units.tree.body:
            if isinstance(n, ast.ClassDef) and n.name == cls:
                cdef = n
        names = [f.name for f in cdef.body if isinstance(f, ast.FunctionDef)
                 and f.name in ("__eq__", "__ne__", "__neq__", "__gt__", "__ge__", "__lt__", "__le__")]
        L.append("def %sCmpMethods : List String := %s" % (pre, lean_list([lean_str(x) for x in names])))
        L.append("")
    for m in ("__eq__", "__gt__", "__ge__", "__lt__", "__le__"):
        L.append("/-- `UnitValue.%s` -/" % m)
        L.append(table("uvalCmp_" + m.strip("_"), branches(units.func(m, cls="UnitValue"))))
    L.append("")
    for m in ("invert", "multiply", "raiseto"):
        L.append("/-- `Units.%s` -/" % m)
        L.append(table("units_" + m, branches(units.func(m, cls="Units"))))
    for m in ("_neg", "_inv"):
        L.append("/-- module function `%s` -/" % m)
        L.append(table("fn" + m, branches(units.func(m))))
    L.append("\nend Strengths.Gen")
    return "\n".join(L) + "\n"
