"""Generation groups of the translator (one Lean file per group).  See DESIGN.md §5.1 (G1..G8)."""
import ast, os, re
from fractions import Fraction
from trlib import (AnchorLost, PySrc, ExprTr, CppExpr, const_number, const_str, str_list, lean_str,
                   lean_rat, lean_list, group, cpp_function_body, strip_cpp_comments)

ENGINE_SRC = "src/strengths/engines/strengths_engine/src"


# =============================================================================================
# G1 + G2 : unit tables, scales, defaults, derived-unit decomposition, u->µ substitutions
# =============================================================================================
@group
def gen_Units(repo):
    consts = PySrc(repo, "src/strengths/constants.py")
    fn = consts.func("avogadro_number")
    avo = None
    for n in ast.walk(fn):
        if isinstance(n, ast.Return):
            avo = const_number(consts, n.value, {})
    if avo is None:
        raise AnchorLost("constants.py:avogadro_number return literal")
    units = PySrc(repo, "src/strengths/units.py")
    env = {"avogadro_number": avo}

    labels = units.toplevel_assign("_units_labels_dict")
    if not isinstance(labels, ast.Dict):
        raise AnchorLost("units.py:_units_labels_dict literal")
    lab = {const_str(k): str_list(v) for k, v in zip(labels.keys, labels.values)}
    for k in ("space", "time", "quantity", "density", "volume"):
        if k not in lab:
            raise AnchorLost("units.py:_units_labels_dict[%s]" % k)
    label_key_order = [const_str(k) for k in labels.keys]

    conv = units.toplevel_assign("_units_conversion_dict")
    if not isinstance(conv, ast.Dict):
        raise AnchorLost("units.py:_units_conversion_dict literal")
    scale = {}
    for k, v in zip(conv.keys, conv.values):
        if not isinstance(v, ast.Dict):
            raise AnchorLost("units.py:_units_conversion_dict inner literal")
        scale[const_str(k)] = [(const_str(kk), const_number(units, vv, env)) for kk, vv in zip(v.keys, v.values)]
    for k in ("space", "time", "quantity"):
        if k not in scale:
            raise AnchorLost("units.py:_units_conversion_dict[%s]" % k)

    dflt = units.toplevel_assign("_default_units_system_dict")
    dfl = {const_str(k): const_str(v) for k, v in zip(dflt.keys, dflt.values)}

    # compute_conversion_factor: f *= (tbl[k][src[k]] / tbl[k][dst[k]]) ** sdim[k]
    ccf = units.func("compute_conversion_factor")
    ok = False
    for n in ast.walk(ccf):
        if isinstance(n, ast.AugAssign) and isinstance(n.op, ast.Mult):
            txt = re.sub(r"\s+", "", units.seg(n.value))
            if txt == "(_units_conversion_dict[k][su_src[k]]/_units_conversion_dict[k][su_dst[k]])**sdim[k]":
                ok = True
    if not ok:
        raise AnchorLost("units.py:compute_conversion_factor product formula")

    pu = units.func("parse_units")
    # the s.replace(a, b) chain, in order
    subst = []
    for n in pu.body:
        if isinstance(n, ast.Assign) and isinstance(n.value, ast.Call) and isinstance(n.value.func, ast.Attribute) \
                and n.value.func.attr == "replace" and len(n.value.args) == 2:
            subst.append((const_str(n.value.args[0]), const_str(n.value.args[1])))
    if not subst:
        raise AnchorLost("units.py:parse_units replace chain")

    def chain(fname):
        f = units.nested_func(pu, fname)
        out = []
        node = f.body[0]
        while isinstance(node, ast.If):
            t = node.test
            if not (isinstance(t, ast.Compare) and len(t.ops) == 1 and isinstance(t.ops[0], ast.Eq)):
                raise AnchorLost("units.py:parse_units.%s chain test" % fname)
            key = const_str(t.comparators[0])
            ret = node.body[0]
            if not isinstance(ret, ast.Return):
                raise AnchorLost("units.py:parse_units.%s chain return" % fname)
            if isinstance(ret.value, ast.Tuple):
                val = tuple(const_str(e) for e in ret.value.elts)
            else:
                val = (const_str(ret.value),)
            out.append((key, val))
            node = node.orelse[0] if node.orelse else None
        if not out:
            raise AnchorLost("units.py:parse_units.%s chain" % fname)
        return out

    volbase = chain("get_volume_fundamental_unit")
    concbase = chain("get_concentration_fundamental_units")

    # exponent characters and separators in the character loop
    expchars, seps = None, None
    for n in ast.walk(pu):
        if isinstance(n, ast.Compare) and len(n.ops) == 1 and isinstance(n.ops[0], ast.In) \
                and isinstance(n.comparators[0], ast.List) and isinstance(n.left, ast.Name):
            try:
                cand = str_list(n.comparators[0])
            except AnchorLost:
                continue
            if "-" in cand and "0" in cand:
                expchars = cand
        if isinstance(n, ast.BoolOp) and isinstance(n.op, ast.Or):
            try:
                vals = [const_str(v.comparators[0]) for v in n.values
                        if isinstance(v, ast.Compare) and isinstance(v.ops[0], ast.Eq)]
            except AnchorLost:
                continue
            if len(vals) == len(n.values) and all(len(v) == 1 for v in vals) and "." in vals:
                seps = vals
    if expchars is None or seps is None:
        raise AnchorLost("units.py:parse_units exponent chars / separators")
    # multipliers used for derived units in addunit calls: volume -> b[2]*3 ; density -> b[2]*-3 and b[2]
    mults = {}
    for n in ast.walk(pu):
        if isinstance(n, ast.If) and isinstance(n.test, ast.Compare) and isinstance(n.test.left, ast.Name) \
                and n.test.left.id == "unittype" and isinstance(n.test.comparators[0], ast.Constant) \
                and isinstance(n.test.comparators[0].value, str):
            kind = const_str(n.test.comparators[0])
            calls = []
            for c in n.body:
                if isinstance(c, ast.Expr) and isinstance(c.value, ast.Call) and getattr(c.value.func, "id", "") == "addunit":
                    a = c.value.args
                    field = const_str(a[0])
                    e = re.sub(r"\s+", "", units.seg(a[2]))
                    m = re.fullmatch(r"b\[2\](?:\*(-?\d+))?", e)
                    if not m:
                        raise AnchorLost("units.py:parse_units addunit exponent " + e)
                    calls.append((field, int(m.group(1) or 1)))
            mults[kind] = calls
    want = {"space": [("space", 1)], "time": [("time", 1)], "quantity": [("quantity", 1)]}
    for k in ("space", "time", "quantity", "volume", "density"):
        if k not in mults:
            raise AnchorLost("units.py:parse_units addunit branch " + k)

    def pairs(lst):
        return "[" + ", ".join("(%s, %s)" % (lean_str(a), lean_rat(b)) for a, b in lst) + "]"

    L = []
    L.append("namespace Strengths.Gen\n")
    L.append("/-- `constants.avogadro_number()` (exact decimal value of the literal) -/")
    L.append("def avogadro : Rat := %s\n" % lean_rat(avo))
    L.append("/-- key order of `_units_labels_dict` (lookup order of `get_unit_type`) -/")
    L.append("def unitTypeOrder : List String := %s\n" % lean_list([lean_str(k) for k in label_key_order]))
    for k, nm in (("space", "spaceSyms"), ("time", "timeSyms"), ("quantity", "qtySyms"), ("density", "densitySyms"),
                  ("volume", "volumeSyms")):
        L.append("def %s : List String := %s" % (nm, lean_list([lean_str(s) for s in lab[k]])))
    L.append("")
    for k, nm in (("space", "spaceScale"), ("time", "timeScale"), ("quantity", "qtyScale")):
        L.append("def %s : List (String × Rat) := %s" % (nm, pairs(scale[k])))
    L.append("")
    L.append("def defaultSpace : String := %s" % lean_str(dfl["space"]))
    L.append("def defaultTime : String := %s" % lean_str(dfl["time"]))
    L.append("def defaultQty : String := %s\n" % lean_str(dfl["quantity"]))
    L.append("/-- the `s.replace(a, b)` chain at the top of `parse_units`, in order -/")
    L.append("def uSubst : List (String × String) := %s\n" %
             lean_list(["(%s, %s)" % (lean_str(a), lean_str(b)) for a, b in subst]))
    L.append("/-- `get_volume_fundamental_unit` -/")
    L.append("def volBase : List (String × String) := %s" %
             lean_list(["(%s, %s)" % (lean_str(a), lean_str(b[0])) for a, b in volbase]))
    L.append("/-- `get_concentration_fundamental_units` : symbol ↦ (quantity unit, space unit) -/")
    L.append("def concBase : List (String × String × String) := %s\n" %
             lean_list(["(%s, %s, %s)" % (lean_str(a), lean_str(b[0]), lean_str(b[1])) for a, b in concbase]))
    L.append("def expChars : List Char := %s" % lean_list(["'%s'" % c for c in expchars]))
    L.append("def sepChars : List Char := %s\n" % lean_list(["'%s'" % c for c in seps]))
    L.append("/-- exponent multipliers of the `addunit` calls per unit type: (field, multiplier) -/")
    for k in ("space", "time", "quantity", "volume", "density"):
        L.append("def addUnit_%s : List (String × Int) := %s" %
                 (k, lean_list(["(%s, (%d : Int))" % (lean_str(f), m) for f, m in mults[k]])))
    L.append("\nend Strengths.Gen")
    return "\n".join(L) + "\n"


# =============================================================================================
# G5 + G6 (Python side): index formulas and range predicates
# =============================================================================================
def _find_return_in_branch(src, fn, test_pred):
    """the `return` expression inside the first `if/elif` of fn whose test satisfies test_pred (on source text),
    or, when test_pred is None, the last top-level return"""
    def visit_if(node):
        while isinstance(node, ast.If):
            if test_pred is not None and test_pred(re.sub(r"\s+", "", src.seg(node.test))):
                for s in node.body:
                    if isinstance(s, ast.Return):
                        return s.value
            if len(node.orelse) == 1 and isinstance(node.orelse[0], ast.If):
                node = node.orelse[0]
            else:
                if test_pred is not None and test_pred("else"):
                    for s in node.orelse:
                        if isinstance(s, ast.Return):
                            return s.value
                return None
        return None
    for st in fn.body:
        if isinstance(st, ast.If):
            r = visit_if(st)
            if r is not None:
                return r
    if test_pred is None:
        for st in reversed(fn.body):
            if isinstance(st, ast.Return):
                return st.value
    raise AnchorLost("%s:%s return pattern" % (src.rel, fn.name))


def _assign_value(src, fn, name):
    for n in ast.walk(fn):
        if isinstance(n, ast.Assign) and len(n.targets) == 1 and isinstance(n.targets[0], ast.Name) and n.targets[0].id == name:
            return n.value
    raise AnchorLost("%s:%s assignment to %s" % (src.rel, fn.name, name))


@group
def gen_IndexPy(repo):
    grid = PySrc(repo, "src/strengths/rdgridspace.py")
    names_arr = {"position[0]": "x", "position[1]": "y", "position[2]": "z", "self.w": "w", "self.h": "h", "self.d": "d"}
    names_obj = {"position.x": "x", "position.y": "y", "position.z": "z", "self.w": "w", "self.h": "h", "self.d": "d"}
    gci = grid.func("get_cell_index", "RDGridSpace")
    e_arr = _find_return_in_branch(grid, gci, lambda t: t == "isarray(position)")
    e_obj = _find_return_in_branch(grid, gci, lambda t: t == "else")
    e_num = _find_return_in_branch(grid, gci, lambda t: t == "isnumber(position)")
    idx_arr = ExprTr(grid, names_arr).tr(e_arr)
    idx_obj = ExprTr(grid, names_obj).tr(e_obj)
    idx_num = ExprTr(grid, {"position": "p"}).tr(e_num)
    # the guard at the top of get_cell_index / get_cell_coordinates: `if not self.is_within_bounds(..): raise`
    def has_guard(fn, arg):
        for st in fn.body:
            if isinstance(st, ast.If) and re.sub(r"\s+", "", grid.seg(st.test)) == "notself.is_within_bounds(%s)" % arg \
                    and any(isinstance(b, ast.Raise) for b in st.body):
                return True
        return False
    gcc = grid.func("get_cell_coordinates", "RDGridSpace")
    guard_idx = has_guard(gci, "position")
    guard_coord = has_guard(gcc, "cell_index")
    names_c = {"cell_index": "i", "self.w": "w", "self.h": "h", "self.d": "d"}
    cx = ExprTr(grid, names_c).tr(_assign_value(grid, gcc, "x"))
    cy = ExprTr(grid, names_c).tr(_assign_value(grid, gcc, "y"))
    cz = ExprTr(grid, names_c).tr(_assign_value(grid, gcc, "z"))
    iwb = grid.func("is_within_bounds", "RDGridSpace")
    b_num = ExprTr(grid, {"position": "p", "self.size()": "size"}).tr(
        _find_return_in_branch(grid, iwb, lambda t: t == "isnumber(position)"))
    b_arr = ExprTr(grid, names_arr).tr(_find_return_in_branch(grid, iwb, lambda t: t == "isarray(position)"))
    b_obj = ExprTr(grid, names_obj).tr(_find_return_in_branch(grid, iwb, lambda t: t == "else"))
    size = grid.func("size", "RDGridSpace")
    size_e = ExprTr(grid, {"self.w": "w", "self.h": "h", "self.d": "d"}).tr(size.body[-1].value)

    rds = PySrc(repo, "src/strengths/rdsystem.py")
    gsi = rds.func("get_state_index", "RDSystem")
    st_e = ExprTr(rds, {"species_index": "s", "self.space.size()": "n", "cell_index": "c"}).tr(
        _find_return_in_branch(rds, gsi, None))
    ssz = rds.func("state_size", "RDSystem")
    ssz_e = ExprTr(rds, {"self.space.size()": "n", "self.network.nspecies()": "ns"}).tr(ssz.body[-1].value)

    out = PySrc(repo, "src/strengths/rdoutput.py")
    gtp = out.func("get_trajectory_point", "RDTrajectory")
    tp_e = None
    for n in ast.walk(gtp):
        if isinstance(n, ast.Return) and isinstance(n.value, ast.Call) and getattr(n.value.func, "attr", "") == "get_at":
            tp_e = ExprTr(out, {"sample_index": "k", "self.nspecies()": "ns", "self.ncells()": "n", "species_index": "s",
                                "cell_index": "c"}).tr(n.value.args[0])
    if tp_e is None:
        raise AnchorLost("rdoutput.py:get_trajectory_point data.get_at(index)")
    # reshape tuples used by get_trajectory / get_state
    def reshape_args(fn):
        res = []
        for n in ast.walk(fn):
            if isinstance(n, ast.Call) and getattr(n.func, "attr", "") == "reshape" and len(n.args) == 1 and isinstance(n.args[0], ast.Tuple):
                res.append([re.sub(r"\s+", "", out.seg(e)) for e in n.args[0].elts])
        return res
    rs_traj = reshape_args(out.func("get_trajectory", "RDTrajectory"))
    rs_state = reshape_args(out.func("get_state", "RDTrajectory"))
    if not rs_traj or not rs_state:
        raise AnchorLost("rdoutput.py:reshape tuples")

    graph = PySrc(repo, "src/strengths/rdgraphspace.py")
    L = ["namespace Strengths.Gen\n"]
    L.append("/-- `RDGridSpace.size` -/\ndef gridSize (w h d : Int) : Int := %s\n" % size_e)
    L.append("/-- `RDGridSpace.get_cell_index`, tuple/list branch -/\ndef cellIndexArr (w h x y z : Int) : Int := %s" % idx_arr)
    L.append("/-- `RDGridSpace.get_cell_index`, object-with-x,y,z branch -/\ndef cellIndexObj (w h x y z : Int) : Int := %s" % idx_obj)
    L.append("/-- `RDGridSpace.get_cell_index`, number branch -/\ndef cellIndexNum (p : Int) : Int := %s" % idx_num)
    L.append("/-- both accessors start with `if not self.is_within_bounds(..) : raise` -/")
    L.append("def cellIndexGuarded : Bool := %s" % ("true" if guard_idx else "false"))
    L.append("def cellCoordsGuarded : Bool := %s\n" % ("true" if guard_coord else "false"))
    L.append("/-- `RDGridSpace.get_cell_coordinates` -/")
    L.append("def cellCoordX (w h i : Int) : Int := %s" % cx)
    L.append("def cellCoordY (w h i : Int) : Int := %s" % cy)
    L.append("def cellCoordZ (w h i : Int) : Int := %s\n" % cz)
    L.append("/-- `RDGridSpace.is_within_bounds`, the three position forms -/")
    L.append("def withinBoundsNum (size p : Int) : Bool := %s" % b_num)
    L.append("def withinBoundsArr (w h d x y z : Int) : Bool := %s" % b_arr)
    L.append("def withinBoundsObj (w h d x y z : Int) : Bool := %s\n" % b_obj)
    L.append("/-- `RDSystem.get_state_index` (s = species index, n = number of cells, c = cell index) -/")
    L.append("def stateIndex (n s c : Int) : Int := %s" % st_e)
    L.append("/-- `RDSystem.state_size` -/\ndef stateSize (n ns : Int) : Int := %s\n" % ssz_e)
    L.append("/-- `RDTrajectory.get_trajectory_point` flat index (k = sample, ns = #species, n = #cells) -/")
    L.append("def trajPointIndex (ns n k s c : Int) : Int := %s" % tp_e)
    L.append("/-- reshape tuples of `get_trajectory` and `get_state` -/")
    L.append("def reshapeTrajectory : List (List String) := %s" %
             lean_list([lean_list([lean_str(x) for x in t]) for t in rs_traj]))
    L.append("def reshapeState : List (List String) := %s" %
             lean_list([lean_list([lean_str(x) for x in t]) for t in rs_state]))
    L.append("\nend Strengths.Gen")
    return "\n".join(L) + "\n"


# =============================================================================================
# G5 + G7 (C++ side): neighbour tables, wrap lines, index formulas, conditions, call orders
# =============================================================================================
def _cpp(repo, name):
    path = os.path.join(repo, ENGINE_SRC, name)
    try:
        with open(path, encoding="utf-8", errors="replace") as f:
            return strip_cpp_comments(f.read())
    except OSError:
        raise AnchorLost("missing " + name)


def _subscripts(text):
    """every `ident[expr]` occurrence (balanced brackets), normalised (blanks removed)"""
    out = []
    for m in re.finditer(r"([A-Za-z_][A-Za-z_0-9]*)\s*\[", text):
        i = m.end() - 1
        depth, j = 0, i
        while j < len(text):
            if text[j] == "[":
                depth += 1
            elif text[j] == "]":
                depth -= 1
                if depth == 0:
                    break
            j += 1
        expr = re.sub(r"\s+", "", text[i + 1:j])
        # chained subscripts a[i][j]: record the second level against a[i]
        name = m.group(1)
        out.append((name, expr))
        k = j + 1
        while k < len(text) and text[k] == "[":
            depth, j2 = 0, k
            while j2 < len(text):
                if text[j2] == "[":
                    depth += 1
                elif text[j2] == "]":
                    depth -= 1
                    if depth == 0:
                        break
                j2 += 1
            out.append((name + "[" + expr + "]", re.sub(r"\s+", "", text[k + 1:j2])))
            expr = expr + "][" + re.sub(r"\s+", "", text[k + 1:j2])
            k = j2 + 1
    return out


def _iterate_order(text, cls):
    m = re.search(r"class\s+%s\b" % cls, text)
    if not m:
        raise AnchorLost("class " + cls)
    body = cpp_function_body(text[m.start():], r"virtual\s+bool\s+Iterate\s*\(\s*\)\s*")
    stmts = []
    depth = 0
    cur = ""
    for ch in body:
        if ch in "{}":
            if cur.strip():
                stmts.append(re.sub(r"\s+", "", cur))
            cur = ""
            stmts.append(ch)
            continue
        if ch == ";":
            stmts.append(re.sub(r"\s+", "", cur))
            cur = ""
        else:
            cur += ch
    if cur.strip():
        stmts.append(re.sub(r"\s+", "", cur))
    return [s for s in stmts if s]


@group
def gen_EngineCpp(repo):
    base3 = _cpp(repo, "SimulationAlgorithm3DBase.hpp")
    baseg = _cpp(repo, "SimulationAlgorithmGraphBase.hpp")
    eng = _cpp(repo, "engine.cpp")
    L = ["namespace Strengths.Gen\n"]

    # ---- GetNeighborIndex
    body = cpp_function_body(base3, r"int\s+GetNeighborIndex\s*\([^)]*\)\s*")
    deltas = []
    for m in re.finditer(r"case\s+(\d+)\s*:\s*([xyz])n\s*([-+])=\s*(\d+)\s*;\s*break\s*;", body):
        deltas.append((int(m.group(1)), "xyz".index(m.group(2)), int(m.group(3) + m.group(4))))
    if len(deltas) != len(re.findall(r"\bcase\b", body)) or not deltas:
        raise AnchorLost("GetNeighborIndex switch cases")
    wraps = {}
    for m in re.finditer(r"if\s*\(\s*boundary_conditions\[(\d)\]\s*==\s*(\d+)\s*\)\s*([xyz])n\s*=\s*([^;]+);", body):
        ax = int(m.group(1))
        if "xyz"[ax] != m.group(3):
            raise AnchorLost("GetNeighborIndex wrap line axis mismatch")
        size = "whd"[ax]
        wraps[ax] = (int(m.group(2)), CppExpr(m.group(4), {size: "n", m.group(3) + "n": "c"}).parse())
    if sorted(wraps) != [0, 1, 2]:
        raise AnchorLost("GetNeighborIndex wrap lines")
    m = re.search(r"if\s*\(([^;{}]*?)\)\s*return\s+([^;]+);\s*else\s+return\s+(-?\d+)\s*;", body, flags=re.S)
    if not m:
        raise AnchorLost("GetNeighborIndex range test / return")
    nm = {"xn": "x", "yn": "y", "zn": "z", "w": "w", "h": "h", "d": "d"}
    inrange = CppExpr(m.group(1), nm).parse()
    retidx = CppExpr(m.group(2), nm).parse()
    L.append("/-- `GetNeighborIndex`: (direction, axis 0/1/2, delta) of the switch -/")
    L.append("def dirDelta : List (Nat × Nat × Int) := %s" % lean_list(["(%d, %d, (%d : Int))" % t for t in sorted(deltas)]))
    L.append("/-- value of `boundary_conditions[axis]` that enables wrapping, per axis -/")
    L.append("def wrapFlag : List Int := %s" % lean_list(["(%d : Int)" % wraps[a][0] for a in range(3)]))
    for a in range(3):
        L.append("/-- wrap line of axis %d: new coordinate from size `n` and shifted coordinate `c` -/" % a)
        L.append("def wrapAxis%d (n c : Int) : Int := %s" % (a, wraps[a][1]))
    L.append("def nbrInRange (w h d x y z : Int) : Bool := %s" % inrange)
    L.append("def nbrIndex (w h x y z : Int) : Int := %s" % retidx)
    L.append("def nbrNone : Int := (%s : Int)\n" % m.group(3))

    # ---- BuildMeshNeighbors coordinate extraction and table subscript
    body = cpp_function_body(base3, r"void\s+BuildMeshNeighbors\s*\(\s*\)\s*")
    cm = {}
    for m in re.finditer(r"int\s+([xyz])coord\s*=\s*([^;]+);", body):
        cm[m.group(1)] = CppExpr(m.group(2), {"i": "i", "w": "w", "h": "h"}).parse()
    if sorted(cm) != ["x", "y", "z"]:
        raise AnchorLost("BuildMeshNeighbors coordinates")
    m = re.search(r"mesh_neighbors\[([^\]]+)\]\s*=\s*GetNeighborIndex\(\s*xcoord\s*,\s*ycoord\s*,\s*zcoord\s*,\s*n\s*\)", body)
    if not m:
        raise AnchorLost("BuildMeshNeighbors table store")
    L.append("/-- `BuildMeshNeighbors`: coordinates of mesh i and slot of (i, direction n) -/")
    L.append("def meshX (w h i : Int) : Int := %s" % cm["x"])
    L.append("def meshY (w h i : Int) : Int := %s" % cm["y"])
    L.append("def meshZ (w h i : Int) : Int := %s" % cm["z"])
    L.append("def nbrSlot (i n : Int) : Int := %s\n" % CppExpr(m.group(1), {"i": "i", "n": "n"}).parse())

    # ---- opposed_direction
    m = re.search(r"opposed_direction\s*=\s*std::vector<int>\s*\{([^}]*)\}", base3)
    if not m:
        raise AnchorLost("opposed_direction table")
    opp = [int(x) for x in m.group(1).split(",")]
    L.append("def oppDir : List Nat := %s\n" % lean_list([str(x) for x in opp]))

    # ---- sampling / completion conditions (both base classes must agree textually)
    def sampling(text, which):
        res = {}
        b = cpp_function_body(text, r"void\s+CheckTMax\s*\(\s*\)\s*")
        m = re.search(r"if\s*\((.*?)\)\s*\{", b, flags=re.S)
        if not m:
            raise AnchorLost(which + " CheckTMax condition")
        res["tmax"] = re.sub(r"\s+", "", m.group(1))
        b = cpp_function_body(text, r"void\s+SampleOnTSample\s*\(\s*\)\s*")
        m = re.search(r"while\s*\((.*?)\)\s*\{(.*?)\}", b, flags=re.S)
        if not m:
            raise AnchorLost(which + " SampleOnTSample loop")
        res["tsample_conds"] = [re.sub(r"\s+", "", c) for c in m.group(1).split("&&")]
        res["tsample_body"] = [re.sub(r"\s+", "", s) for s in m.group(2).split(";") if s.strip()]
        b = cpp_function_body(text, r"void\s+SampleOnInterval\s*\(\s*\)\s*")
        m = re.search(r"double\s+tsi_ratio\s*=\s*([^;]+);\s*if\s*\((.*?)\)\s*\{(.*?)\}", b, flags=re.S)
        if not m:
            raise AnchorLost(which + " SampleOnInterval")
        res["interval_ratio"] = re.sub(r"\s+", "", m.group(1))
        res["interval_cond"] = re.sub(r"\s+", "", m.group(2))
        res["interval_body"] = [re.sub(r"\s+", "", s) for s in m.group(3).split(";") if s.strip()]
        b = cpp_function_body(text, r"void\s+SamplingStep\s*\(\s*\)\s*")
        res["dispatch"] = [(int(a), re.sub(r"\s+", "", c)) for a, c in re.findall(r"case\s+(\d+)\s*:\s*(.*?)break\s*;", b, flags=re.S)]
        b = cpp_function_body(text, r"void\s+Sample\s*\(\s*\)\s*")
        m = re.search(r"if\s*\((.*?)\)\s*\{(.*?)\}", b, flags=re.S)
        if not m:
            raise AnchorLost(which + " Sample")
        res["sample_cond"] = re.sub(r"\s+", "", m.group(1))
        res["sample_body"] = [re.sub(r"\s+", "", s) for s in m.group(2).split(";") if s.strip()]
        b = cpp_function_body(text, r"double\s+GetProgress\s*\(\s*\)\s*")
        res["progress"] = re.sub(r"\s+", "", b)
        return res
    s3, sg = sampling(base3, "3DBase"), sampling(baseg, "GraphBase")

    def strs(l):
        return lean_list([lean_str(x) for x in l])
    for tag, s in (("Grid", s3), ("Graph", sg)):
        L.append("def tMaxCond%s : String := %s" % (tag, lean_str(s["tmax"])))
        L.append("def tSampleLoopConds%s : List String := %s" % (tag, strs(s["tsample_conds"])))
        L.append("def tSampleLoopBody%s : List String := %s" % (tag, strs(s["tsample_body"])))
        L.append("def intervalRatio%s : String := %s" % (tag, lean_str(s["interval_ratio"])))
        L.append("def intervalCond%s : String := %s" % (tag, lean_str(s["interval_cond"])))
        L.append("def intervalBody%s : List String := %s" % (tag, strs(s["interval_body"])))
        L.append("def samplingDispatch%s : List (Nat × String) := %s" %
                 (tag, lean_list(["(%d, %s)" % (a, lean_str(c)) for a, c in s["dispatch"]])))
        L.append("def sampleCond%s : String := %s" % (tag, lean_str(s["sample_cond"])))
        L.append("def sampleBody%s : List String := %s" % (tag, strs(s["sample_body"])))
        L.append("def progressBody%s : String := %s\n" % (tag, lean_str(s["progress"])))

    # ---- Iterate bodies of the six algorithms
    for fname, cls in (("Euler3D.hpp", "Euler3D"), ("TauLeap3D.hpp", "TauLeap3D"), ("Gillespie3D.hpp", "Gillespie3D"),
                       ("EulerGraph.hpp", "EulerGraph"), ("TauLeapGraph.hpp", "TauLeapGraph"), ("GillespieGraph.hpp", "GillespieGraph")):
        L.append("def iterate%s : List String := %s" % (cls, strs(_iterate_order(_cpp(repo, fname), cls))))
    L.append("")

    # ---- engine.cpp: accepted strings and codes
    def chain(fn_regex, var):
        b = cpp_function_body(eng, fn_regex)
        return re.findall(r"CompareStr\(\s*%s\s*,\s*\"([^\"]*)\"\s*\)\)?\s*(?:\{?\s*)?(\w+(?:\[\d\])?)\s*=\s*(?:new\s+)?(\w+)" % var, b)
    for tag, fr in (("Grid", r"int\s+engineexport_initialize_grid\s*\("), ("Graph", r"int\s+engineexport_initialize_graph\s*\(")):
        pol = chain(fr, "sampling_policy")
        if not pol:
            raise AnchorLost("engine.cpp sampling policy chain " + tag)
        L.append("def cppPolicies%s : List (String × Nat) := %s" %
                 (tag, lean_list(["(%s, %s)" % (lean_str(a), c) for a, _, c in pol])))
        opt = chain(fr, "option")
        if not opt:
            raise AnchorLost("engine.cpp option chain " + tag)
        L.append("def cppOptions%s : List (String × String) := %s" %
                 (tag, lean_list(["(%s, %s)" % (lean_str(a), lean_str(c)) for a, _, c in opt])))
        b = cpp_function_body(eng, fr)
        modes = re.findall(r"CompareStr\(\s*init_state_processing\s*,\s*\"([^\"]*)\"\s*\)", b)
        L.append("def cppModes%s : List String := %s" % (tag, strs(modes)))
        # the processing branches, as normalised condition text in order
        conds = [re.sub(r"\s+", "", c) for c in re.findall(r"(?:else\s+)?if\s*\(\s*(CompareStr\(\s*init_state_processing.*?)\)\s*\{", b, flags=re.S)]
        L.append("def cppModeConds%s : List String := %s" % (tag, strs(conds)))
        # which branches transpose the species-major input
        branches = re.split(r"(?:else\s+)?if\s*\(\s*CompareStr\(\s*init_state_processing", b)[1:]
        tr = []
        for br in branches:
            head = br.split("{", 1)[1] if "{" in br else br
            blk = head.split("}", 1)[0]
            tr.append("SpeciesFirstToMeshFirstArray" in blk)
        L.append("def cppModeTransposes%s : List Bool := %s" % (tag, lean_list(["true" if t else "false" for t in tr])))
    bc = re.findall(r"CompareStr\(\s*boundary_conditions_x\s*,\s*\"([^\"]*)\"\s*\)\)\s*boundary_conditions\[0\]\s*=\s*(\d+)", eng)
    if not bc:
        raise AnchorLost("engine.cpp boundary condition chain")
    L.append("def cppBoundary : List (String × Int) := %s\n" % lean_list(["(%s, (%s : Int))" % (lean_str(a), c) for a, c in bc]))

    # ---- transposition and export formulas
    b = cpp_function_body(eng, r"SpeciesFirstToMeshFirstArray\s*\([^)]*\)\s*")
    m = re.search(r"mesh_first_array\[([^\]]+)\]\s*=\s*species_first_array\[([^\]]+)\]", b)
    if not m:
        raise AnchorLost("SpeciesFirstToMeshFirstArray assignment")
    nm = {"i": "i", "s": "s", "n_species": "ns", "n_meshes": "n"}
    L.append("/-- `SpeciesFirstToMeshFirstArray`: dst[dstIdx] = src[srcIdx] -/")
    L.append("def transposeDst (ns n s i : Int) : Int := %s" % CppExpr(m.group(1), nm).parse())
    L.append("def transposeSrc (ns n s i : Int) : Int := %s" % CppExpr(m.group(2), nm).parse())
    b = cpp_function_body(eng, r"int\s+engineexport_get_trajectory\s*\([^)]*\)\s*")
    ms = re.findall(r"trajectory_data\[([^\]]+)\]\s*=\s*trajectory_data_vec\[n\]\[([^\]]+)\]", b)
    if len(ms) != 2 or ms[0] != ms[1]:
        raise AnchorLost("engineexport_get_trajectory assignments (grid and graph branch must agree)")
    nm2 = {"i": "i", "s": "s", "n": "k", "n_species": "ns", "n_meshes": "n"}
    L.append("/-- `engineexport_get_trajectory`: out[exportDst] = sample_k[exportSrc] -/")
    L.append("def exportDst (ns n k s i : Int) : Int := %s" % CppExpr(ms[0][0], nm2).parse())
    L.append("def exportSrc (ns n s i : Int) : Int := %s" % CppExpr(ms[0][1], nm2).parse())
    b = cpp_function_body(eng, r"int\s+engineexport_get_state\s*\([^)]*\)\s*")
    ms = re.findall(r"state_data\[([^\]]+)\]\s*=\s*state_data_vec\[([^\]]+)\]", b)
    if len(ms) != 2 or ms[0] != ms[1]:
        raise AnchorLost("engineexport_get_state assignments")
    L.append("def stateExportDst (ns n s i : Int) : Int := %s" % CppExpr(ms[0][0], nm2).parse())
    L.append("def stateExportSrc (ns n s i : Int) : Int := %s\n" % CppExpr(ms[0][1], nm2).parse())

    # ---- finalize / run / iterate_n skeletons (normalised statement text)
    for fn in ("engineexport_finalize", "engineexport_iterate", "engineexport_iterate_n", "engineexport_run", "engineexport_sample"):
        b = cpp_function_body(eng, r"%s\s*\([^)]*\)\s*" % fn)
        L.append("def body_%s : String := %s" % (fn, lean_str(re.sub(r"\s+", "", b))))
    gl = re.findall(r"^(?:[A-Za-z_][\w:<>]*\s*\*?\s+\*?\s*)(global_\w+)\s*(?:=\s*([^;]+))?;", eng, flags=re.M)
    L.append("def engineGlobals : List (String × String) := %s\n" %
             lean_list(["(%s, %s)" % (lean_str(a), lean_str(b.strip())) for a, b in gl]))

    # ---- index formulas of the flattened tables the algorithms read (must agree across all read sites)
    def table_formula(vec, names, files):
        forms = set()
        for fname in files:
            for name, expr in _subscripts(_cpp(repo, fname)):
                if name == vec:
                    forms.add(CppExpr(expr, names).parse())
        if len(forms) != 1:
            raise AnchorLost("index formula of %s is not unique across its read sites: %s" % (vec, sorted(forms)))
        return forms.pop()
    algo_files = ["SimulationAlgorithm3DBase.hpp", "SimulationAlgorithmGraphBase.hpp", "Euler3D.hpp", "EulerGraph.hpp",
                  "TauLeap3D.hpp", "TauLeapGraph.hpp", "Gillespie3D.hpp", "GillespieGraph.hpp"]
    nm3 = {"mesh_env[i]": "e", "mesh_env[j]": "e", "n_reactions": "nr", "n_species": "ns", "n_env": "ne", "r": "r", "s": "s",
           "j": "s", "reaction_index": "r", "i": "i", "mesh_index": "i", "species_index": "s", "n": "n", "direction": "n"}
    L.append("/-- flattened-table index formulas as read by the algorithms (identical at every read site) -/")
    L.append("def kIndex (nr e r : Int) : Int := %s" % table_formula("k", nm3, algo_files))
    L.append("def subIndex (nr s r : Int) : Int := %s" % table_formula("sub", nm3, algo_files))
    nm_sto = dict(nm3)
    L.append("def stoIndex (nr s r : Int) : Int := %s" % table_formula("sto", nm_sto, algo_files))
    L.append("def dIndex (ne s e : Int) : Int := %s" % table_formula("D", nm3, algo_files))
    L.append("def krIndex (nr i r : Int) : Int := %s" % table_formula("mesh_kr", nm3, algo_files))
    L.append("def kdIndexGrid (ns i s n : Int) : Int := %s" % table_formula("mesh_kd", nm3, ["SimulationAlgorithm3DBase.hpp"]))
    L.append("")

    # ---- subscript inventory (G5): every vec[expr] in every engine source file
    inv = []
    for fname in ("SimulationAlgorithm3DBase.hpp", "SimulationAlgorithmGraphBase.hpp", "Euler3D.hpp", "EulerGraph.hpp",
                  "TauLeap3D.hpp", "TauLeapGraph.hpp", "Gillespie3D.hpp", "GillespieGraph.hpp", "engine.cpp"):
        for name, expr in sorted(set(_subscripts(_cpp(repo, fname)))):
            inv.append((fname, name, expr))
    L.append("/-- every `vector[index]` occurrence in the engine sources: (file, vector, index expression) -/")
    L.append("def subscripts : List (String × String × String) := [")
    L.append(",\n".join("  (%s, %s, %s)" % (lean_str(a), lean_str(b), lean_str(c)) for a, b, c in inv))
    L.append("]")
    L.append("\nend Strengths.Gen")
    return "\n".join(L) + "\n"


# =============================================================================================
# Python kinetics / marshalling (C01, C03, C04): neighbour enumeration, wrap lines, chemostat lookup,
# rate / diffusion formulas (normalised text), rate-constant dimensions, marshalling subscripts and loop orders
# =============================================================================================
def _norm(src, node):
    return re.sub(r"\s+", "", src.seg(node))


def _stmts(fn):
    """all statements of a function, depth first, in source order"""
    out = []

    def rec(body):
        for st in body:
            out.append(st)
            for fld in ("body", "orelse", "finalbody"):
                sub = getattr(st, fld, None)
                if isinstance(sub, list):
                    rec(sub)
    rec(fn.body)
    return out


def _stmt_texts(src, fn, keep):
    """normalised source text of the simple statements (Assign/AugAssign/Return/Expr) of fn selected by keep(text)"""
    res = []
    for st in _stmts(fn):
        if isinstance(st, (ast.Assign, ast.AugAssign, ast.Return, ast.Expr)):
            if isinstance(st, ast.Expr) and isinstance(st.value, ast.Constant) and isinstance(st.value.value, str):
                continue   # docstring
            t = _norm(src, st)
            if keep(t):
                res.append(t)
    return res


def _need(lst, what, n=None):
    if not lst or (n is not None and len(lst) != n):
        raise AnchorLost("%s (found %d)" % (what, len(lst)))
    return lst


@group
def gen_KineticsPy(repo):
    kin = PySrc(repo, "src/strengths/kinetics.py")
    L = ["namespace Strengths.Gen\n"]

    def strs(l):
        return lean_list([lean_str(x) for x in l])

    # ---- _compute_dspeciesdt_grid : candidate list, wrap lines, bounds test, chemostat test, accumulation
    g = kin.func("_compute_dspeciesdt_grid")
    cand = None
    for st in _stmts(g):
        if isinstance(st, ast.For) and isinstance(st.iter, ast.List) and isinstance(st.target, ast.Name) and st.target.id == "c":
            cand = st
    if cand is None:
        raise AnchorLost("kinetics.py:_compute_dspeciesdt_grid candidate loop `for c in [[...]...]`")
    offs = []
    for el in cand.iter.elts:
        if not (isinstance(el, ast.List) and len(el.elts) == 3):
            raise AnchorLost("kinetics.py:_compute_dspeciesdt_grid candidate triple")
        tri = []
        for k, comp in enumerate(el.elts):
            t = _norm(kin, comp)
            m = re.fullmatch(r"p\[(\d)\](?:([-+])(\d+))?", t)
            if not m or int(m.group(1)) != k:
                raise AnchorLost("kinetics.py:_compute_dspeciesdt_grid candidate component " + t)
            tri.append(int((m.group(2) or "+") + (m.group(3) or "0")))
        offs.append(tuple(tri))
    L.append("/-- `_compute_dspeciesdt_grid`: the six candidate neighbours as coordinate offsets, in loop order -/")
    L.append("def pyNbrOffsets : List (Int × Int × Int) := %s" %
             lean_list(["((%d : Int), (%d : Int), (%d : Int))" % t for t in offs]))
    wraps = {}
    for st in cand.body:
        if isinstance(st, ast.If) and isinstance(st.test, ast.BoolOp) and isinstance(st.test.op, ast.And) and len(st.test.values) == 2:
            a, b = st.test.values
            ta = _norm(kin, a)
            m = re.fullmatch(r'system\.space\._boundary_conditions\["([xyz])"\]=="(\w+)"', ta)
            if not m:
                continue
            ax = "xyz".index(m.group(1))
            size = "system.space." + "whd"[ax]
            if len(st.body) != 1 or not isinstance(st.body[0], ast.Assign) or _norm(kin, st.body[0].targets[0]) != "c[%d]" % ax:
                raise AnchorLost("kinetics.py:_compute_dspeciesdt_grid wrap assignment of axis %d" % ax)
            guard = ExprTr(kin, {size: "n"}).tr(b)
            expr = ExprTr(kin, {size: "n", "c[%d]" % ax: "c"}).tr(st.body[0].value)
            wraps[ax] = (m.group(2), guard, expr)
    if sorted(wraps) != [0, 1, 2]:
        raise AnchorLost("kinetics.py:_compute_dspeciesdt_grid wrap lines (three `if ... periodical and size > 1`)")
    L.append("/-- boundary-condition string that enables wrapping, per axis -/")
    L.append("def pyWrapMode : List String := %s" % strs([wraps[a][0] for a in range(3)]))
    for a in range(3):
        L.append("/-- wrap of axis %d: extra guard on the axis length `n`, and the new coordinate from `n` and candidate `c` -/" % a)
        L.append("def pyWrapGuard%d (n : Int) : Bool := %s" % (a, wraps[a][1]))
        L.append("def pyWrap%d (n c : Int) : Int := %s" % (a, wraps[a][2]))
    inb = [st for st in cand.body if isinstance(st, ast.If) and _norm(kin, st.test) == "system.space.is_within_bounds(c)"]
    _need(inb, "kinetics.py:_compute_dspeciesdt_grid `if system.space.is_within_bounds(c)`", 1)
    L.append("def pyGridNbrBody : List String := %s" % strs([_norm(kin, s) for s in inb[0].body]))

    def chem_test(fn):
        for st in fn.body:
            if isinstance(st, ast.If) and isinstance(st.test, ast.BoolOp) and isinstance(st.test.op, ast.And) \
                    and _norm(kin, st.test.values[0]) == "apply_chemostats" and len(st.test.values) == 2:
                return _norm(kin, st.test.values[1]), [_norm(kin, s) for s in st.body]
        raise AnchorLost("kinetics.py:%s `if apply_chemostats and ...`" % fn.name)
    gg = kin.func("_compute_dspeciesdt_graph")
    ct_grid, cb_grid = chem_test(g)
    ct_graph, cb_graph = chem_test(gg)
    L.append("/-- the flag consulted by `if apply_chemostats and <...>` and the statement executed when it is set -/")
    L.append("def pyChemTestGrid : String := %s" % lean_str(ct_grid))
    L.append("def pyChemTestGraph : String := %s" % lean_str(ct_graph))
    L.append("def pyChemBodyGrid : List String := %s" % strs(cb_grid))
    L.append("def pyChemBodyGraph : List String := %s" % strs(cb_graph))
    L.append("/-- statements accumulating into `d` (`d = 0` … `d += …` … `return d.convert(...)`), in source order -/")
    L.append("def pyAccumGrid : List String := %s" % strs(_need(_stmt_texts(kin, g, lambda t: t.startswith("d=") or t.startswith("d+=") or t.startswith("returnd")), "kinetics.py:_compute_dspeciesdt_grid accumulation")))
    L.append("def pyAccumGraph : List String := %s" % strs(_need(_stmt_texts(kin, gg, lambda t: t.startswith("d=") or t.startswith("d+=") or t.startswith("returnd")), "kinetics.py:_compute_dspeciesdt_graph accumulation")))
    # graph neighbour enumeration: conditions of the loop over j
    conds = []
    for st in _stmts(gg):
        if isinstance(st, ast.For) and _norm(kin, st.iter) == "range(system.space.size())":
            for s2 in _stmts(st):
                if isinstance(s2, ast.If):
                    conds.append(_norm(kin, s2.test))
    L.append("def pyGraphNbrConds : List String := %s" % strs(_need(conds, "kinetics.py:_compute_dspeciesdt_graph neighbour loop conditions")))

    # ---- compute_reaction_rates : the statements building rf / rr
    crr = kin.func("compute_reaction_rates")
    L.append("/-- `compute_reaction_rates`: statements defining `rf`, `rr`, `volume`, the state index and the returned pair -/")
    L.append("def pyRateStmts : List String := %s" % strs(_need(_stmt_texts(
        kin, crr, lambda t: re.match(r"(rf|rr|volume|state_index|ssto|psto|environment_index|environment_label)(=|\*=)", t) or t.startswith("returnrf")),
        "kinetics.py:compute_reaction_rates rate statements")))
    # ---- compute_diffusion_rates : formulas of both branches
    cdr = kin.func("compute_diffusion_rates")
    L.append("/-- `compute_diffusion_rates`: statements defining the diffusion constants and the returned pairs -/")
    L.append("def pyDiffStmts : List String := %s" % strs(_need(_stmt_texts(
        kin, cdr, lambda t: re.match(r"(Di|Dj|Di,Dj|Dij|hi|hj|h|k|kf|kr|Vi|Vj|volumes|surface|distance|src_state_index|dst_state_index)=", t) or t.startswith("return(")),
        "kinetics.py:compute_diffusion_rates statements")))
    tests = []
    for st in _stmts(cdr):
        if isinstance(st, ast.If):
            t = _norm(kin, st.test)
            if "Di" in t or "get_edge" in t or "are_neighbors" in t:
                tests.append(t)
    L.append("def pyDiffTests : List String := %s" % strs(_need(tests, "kinetics.py:compute_diffusion_rates tests")))
    # ---- compute_dstatedt loop order
    cds = kin.func("compute_dstatedt")
    loops = [(_norm(kin, st.target), _norm(kin, st.iter)) for st in _stmts(cds) if isinstance(st, ast.For)]
    L.append("/-- `compute_dstatedt`: nesting of the loops (outer first) and the appended call -/")
    L.append("def pyDstateLoops : List (String × String) := %s" % lean_list(["(%s, %s)" % (lean_str(a), lean_str(b)) for a, b in _need(loops, "compute_dstatedt loops")]))
    L.append("def pyDstateStmts : List String := %s\n" % strs(_need(_stmt_texts(kin, cds, lambda t: "append" in t or t.startswith("return")), "compute_dstatedt statements")))

    # ---- rdnetwork.py : dimensions of rate constants, reaction splitting
    net = PySrc(repo, "src/strengths/rdnetwork.py")
    for fname, tag in (("kf_units_dimensions", "Kf"), ("kr_units_dimensions", "Kr")):
        fn = net.func(fname, "Reaction")
        ret = [st for st in fn.body if isinstance(st, ast.Return)]
        if len(ret) != 1 or not isinstance(ret[0].value, ast.Call) or getattr(ret[0].value.func, "id", "") != "UnitsDimensions":
            raise AnchorLost("rdnetwork.py:Reaction.%s return UnitsDimensions(...)" % fname)
        kw = {k.arg: k.value for k in ret[0].value.keywords}
        if sorted(kw) != ["quantity", "space", "time"]:
            raise AnchorLost("rdnetwork.py:Reaction.%s keywords" % fname)
        counted = [_norm(net, st.iter) for st in fn.body if isinstance(st, ast.For)]
        incr = _stmt_texts(net, fn, lambda t: t.startswith("count"))
        L.append("/-- `Reaction.%s` : exponents as functions of `count`, what is counted -/" % fname)
        for k, nm in (("space", "Space"), ("time", "Time"), ("quantity", "Qty")):
            L.append("def dim%s%s (count : Int) : Int := %s" % (tag, nm, ExprTr(net, {"count": "count"}).tr(kw[k])))
        L.append("def dim%sCounted : List String := %s" % (tag, strs(counted + incr)))
    sp = net.func("split", "Reaction")
    calls = []
    for st in _stmts(sp):
        if isinstance(st, ast.Assign) and isinstance(st.value, ast.Call) and getattr(st.value.func, "id", "") == "Reaction":
            kw = {k.arg: _norm(net, k.value) for k in st.value.keywords}
            calls.append((_norm(net, st.targets[0]), kw.get("stoichiometry", ""), kw.get("kf", ""), kw.get("kr", "")))
    ret = [_norm(net, st) for st in sp.body if isinstance(st, ast.Return)]
    L.append("/-- `Reaction.split`: (name, stoichiometry, kf, kr) of the two constructed reactions, and the return -/")
    L.append("def pySplit : List (String × String × String × String) := %s" %
             lean_list(["(%s, %s, %s, %s)" % tuple(lean_str(x) for x in c) for c in _need(calls, "Reaction.split constructor calls", 2)]))
    L.append("def pySplitReturn : List String := %s" % strs(ret))
    for fname in ("ssto", "psto", "dsto"):
        fn = net.func(fname, "Reaction")
        L.append("def py_%s : String := %s" % (fname, lean_str(_norm(net, fn.body[-1]))))
    L.append("")

    # ---- value_processing.get_value_in_env : order of the look-ups
    vp = PySrc(repo, "src/strengths/value_processing.py")
    gv = vp.func("get_value_in_env")
    seq = []
    for st in _stmts(gv):
        if isinstance(st, ast.If):
            seq.append("if:" + _norm(vp, st.test))
        elif isinstance(st, ast.Return):
            seq.append(_norm(vp, st))
    L.append("/-- `get_value_in_env`: tests and returns in source order -/")
    L.append("def pyGetValueInEnv : List String := %s\n" % strs(_need(seq, "get_value_in_env")))

    # ---- rdsystem.py : make_dxdtf, apply_reaction, get_chemostat
    rds = PySrc(repo, "src/strengths/rdsystem.py")
    mk = rds.func("make_dxdtf", "RDSystem")
    L.append("/-- `RDSystem.make_dxdtf`: simple statements in source order (outer function and the returned closure) -/")
    L.append("def pyDxdtfStmts : List String := %s" % strs(_need(_stmt_texts(rds, mk, lambda t: True), "make_dxdtf statements")))
    L.append("def pyDxdtfLoops : List (String × String) := %s" % lean_list(
        ["(%s, %s)" % (lean_str(_norm(rds, st.target)), lean_str(_norm(rds, st.iter))) for st in _stmts(mk) if isinstance(st, ast.For)]))
    for dfn in [n for n in ast.walk(mk) if isinstance(n, ast.FunctionDef) and n is not mk]:
        L.append("def pyDxdtfInner_%s : List String := %s" % (dfn.name, strs(_stmt_texts(rds, dfn, lambda t: True))))
        L.append("def pyDxdtfInnerLoops_%s : List (String × String) := %s" % (dfn.name, lean_list(
            ["(%s, %s)" % (lean_str(_norm(rds, st.target)), lean_str(_norm(rds, st.iter))) for st in _stmts(dfn) if isinstance(st, ast.For)])))
    ar = rds.func("apply_reaction", "RDSystem")
    loop = [st for st in _stmts(ar) if isinstance(st, ast.For)]
    _need(loop, "apply_reaction loop", 1)
    body = []
    for st in _stmts(loop[0]):
        body.append(("if:" + _norm(rds, st.test)) if isinstance(st, ast.If) else _norm(rds, st))
    L.append("/-- `RDSystem.apply_reaction`: the applying loop (iterator, then statements / tests in order) and the `dx` definition -/")
    L.append("def pyApplyLoop : List String := %s" % strs([_norm(rds, loop[0].target) + " in " + _norm(rds, loop[0].iter)] + body))
    L.append("def pyApplyDx : List String := %s" % strs(_need(_stmt_texts(rds, ar, lambda t: t.startswith("dx=") or t.startswith("r=")), "apply_reaction dx")))
    gc = rds.func("get_chemostat", "RDSystem")
    L.append("def pyGetChemostat : List String := %s" % strs(_stmt_texts(rds, gc, lambda t: True)))
    sc = rds.func("set_chemostat", "RDSystem")
    L.append("def pySetChemostat : List String := %s\n" % strs(_stmt_texts(rds, sc, lambda t: True)))

    # ---- librdengine.py : marshalling subscripts and loop orders
    lre = PySrc(repo, "src/strengths/librdengine.py")

    def store_formula(fname, arr, names):
        fn = lre.func(fname)
        for st in _stmts(fn):
            if isinstance(st, ast.Assign) and isinstance(st.targets[0], ast.Subscript) and _norm(lre, st.targets[0].value) == arr:
                loops = [(_norm(lre, f.target), _norm(lre, f.iter)) for f in _stmts(fn) if isinstance(f, ast.For)]
                return ExprTr(lre, names).tr(st.targets[0].slice), _norm(lre, st.value), loops
        raise AnchorLost("librdengine.py:%s store into %s[...]" % (fname, arr))
    nm = {"n_reactions": "nr", "n_env": "ne", "s": "s", "r": "r", "e": "e"}
    f_sub, v_sub, l_sub = store_formula("build_substrate_stoechiometric_matrix", "sub", nm)
    f_sto, v_sto, l_sto = store_formula("build_stoechiometric_difference_matrix", "sto", nm)
    f_d, v_d, l_d = store_formula("build_diff_coef_environment_matrix", "D", nm)
    L.append("/-- `build_*_matrix`: index written, value stored, loops (outer first) -/")
    L.append("def pySubIndex (nr s r : Int) : Int := %s" % f_sub)
    L.append("def pyStoIndex (nr s r : Int) : Int := %s" % f_sto)
    L.append("def pyDIndex (ne s e : Int) : Int := %s" % f_d)
    L.append("def pySubValue : String := %s" % lean_str(v_sub))
    L.append("def pyStoValue : String := %s" % lean_str(v_sto))
    L.append("def pyDValue : String := %s" % lean_str(v_d))

    def loops_lean(l):
        return lean_list(["(%s, %s)" % (lean_str(a), lean_str(b)) for a, b in l])
    L.append("def pySubLoops : List (String × String) := %s" % loops_lean(l_sub))
    L.append("def pyStoLoops : List (String × String) := %s" % loops_lean(l_sto))
    L.append("def pyDLoops : List (String × String) := %s" % loops_lean(l_d))
    bk = lre.func("build_reaction_rate_constant_matrix")
    l_k = [(_norm(lre, f.target), _norm(lre, f.iter)) for f in _stmts(bk) if isinstance(f, ast.For)]
    app = _stmt_texts(lre, bk, lambda t: t.startswith("km.append") or t.startswith("km=") or t.startswith("returnkm"))
    L.append("/-- `build_reaction_rate_constant_matrix`: loops (outer first; the list is appended to, so position = e*nr + r) -/")
    L.append("def pyKLoops : List (String × String) := %s" % loops_lean(_need(l_k, "build_reaction_rate_constant_matrix loops", 2)))
    L.append("def pyKStmts : List String := %s" % strs(_need(app, "build_reaction_rate_constant_matrix statements")))
    su = lre.func("setup", "LibRDEngine")
    L.append("/-- `LibRDEngine.setup`: the reaction splitting loop and the engine units system -/")
    L.append("def pySetupStmts : List String := %s" % strs(_need(_stmt_texts(
        lre, su, lambda t: t.startswith("rf,rr=") or t.startswith("reactions") or t.startswith("units_system") or t.startswith("self._units_system")),
        "LibRDEngine.setup statements")))
    for fname in ("_setup_grid", "_setup_graph"):
        fn = lre.func(fname, "LibRDEngine")
        call = None
        for n in ast.walk(fn):
            if isinstance(n, ast.Call) and _norm(lre, n.func).startswith("self._lib.engineexport_initialize"):
                call = n
        if call is None:
            raise AnchorLost("librdengine.py:%s engineexport_initialize call" % fname)
        L.append("/-- `%s`: the arguments handed to the native initialiser, in order -/" % fname)
        L.append("def pyArgs%s : List String := %s" % (fname, strs([_norm(lre, a) for a in call.args])))
    for fname in ("_get_data", "_get_t_sample"):
        fn = lre.func(fname, "LibRDEngine")
        ret = [st for st in fn.body if isinstance(st, ast.Return)]
        L.append("def pyRet%s : String := %s" % (fname, lean_str(_norm(lre, ret[-1]) if ret else "")))
    L.append("\nend Strengths.Gen")
    return "\n".join(L) + "\n"
