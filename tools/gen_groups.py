"""Generation groups of the translator (one Lean file per group).  See DESIGN.md §5.1 (G1..G8)."""
import ast, os, re
from fractions import Fraction
from trlib import (AnchorLost, PySrc, ExprTr, CppExpr, const_number, const_str, str_list, lean_str,
                   lean_rat, lean_list, group, cpp_function_body, strip_cpp_comments)

ENGINE_SRC = "src/strengths/engines/strengths_engine/src"


# =============================================================================================
# G1 + G2 : unit tables, scales, defaults, derived-unit decomposition, u->µ substitutions
# =============================================================================================
@group
def gen_Units(repo):
    consts = PySrc(repo, "src/strengths/constants.py")
    fn = consts.func("avogadro_number")
    avo = None
    for n in ast.walk(fn):
        if isinstance(n, ast.Return):
            avo = const_number(consts, n.value, {})
    if avo is None:
        raise AnchorLost("constants.py:avogadro_number return literal")
    units = PySrc(repo, "src/strengths/units.py")
    env = {"avogadro_number": avo}

    labels = units.toplevel_assign("_units_labels_dict")
    if not isinstance(labels, ast.Dict):
        raise AnchorLost("units.py:_units_labels_dict literal")
    lab = {const_str(k): str_list(v) for k, v in zip(labels.keys, labels.values)}
    for k in ("space", "time", "quantity", "density", "volume"):
        if k not in lab:
            raise AnchorLost("units.py:_units_labels_dict[%s]" % k)
    label_key_order = [const_str(k) for k in labels.keys]

    conv = units.toplevel_assign("_units_conversion_dict")
    if not isinstance(conv, ast.Dict):
        raise AnchorLost("units.py:_units_conversion_dict literal")
    scale = {}
    for k, v in zip(conv.keys, conv.values):
        if not isinstance(v, ast.Dict):
            raise AnchorLost("units.py:_units_conversion_dict inner literal")
        scale[const_str(k)] = [(const_str(kk), const_number(units, vv, env)) for kk, vv in zip(v.keys, v.values)]
    for k in ("space", "time", "quantity"):
        if k not in scale:
            raise AnchorLost("units.py:_units_conversion_dict[%s]" % k)

    dflt = units.toplevel_assign("_default_units_system_dict")
    dfl = {const_str(k): const_str(v) for k, v in zip(dflt.keys, dflt.values)}

    # compute_conversion_factor: f *= (tbl[k][src[k]] / tbl[k][dst[k]]) ** sdim[k]
    ccf = units.func("compute_conversion_factor")
    ok = False
    for n in ast.walk(ccf):
        if isinstance(n, ast.AugAssign) and isinstance(n.op, ast.Mult):
            txt = re.sub(r"\s+", "", units.seg(n.value))
            if txt == "(_units_conversion_dict[k][su_src[k]]/_units_conversion_dict[k][su_dst[k]])**sdim[k]":
                ok = True
    if not ok:
        raise AnchorLost("units.py:compute_conversion_factor product formula")

    pu = units.func("parse_units")
    # the s.replace(a, b) chain, in order
    subst = []
    for n in pu.body:
        if isinstance(n, ast.Assign) and isinstance(n.value, ast.Call) and isinstance(n.value.func, ast.Attribute) \
                and n.value.func.attr == "replace" and len(n.value.args) == 2:
            subst.append((const_str(n.value.args[0]), const_str(n.value.args[1])))
    if not subst:
        raise AnchorLost("units.py:parse_units replace chain")

    def chain(fname):
        f = units.nested_func(pu, fname)
        out = []
        node = f.body[0]
        while isinstance(node, ast.If):
            t = node.test
            if not (isinstance(t, ast.Compare) and len(t.ops) == 1 and isinstance(t.ops[0], ast.Eq)):
                raise AnchorLost("units.py:parse_units.%s chain test" % fname)
            key = const_str(t.comparators[0])
            ret = node.body[0]
            if not isinstance(ret, ast.Return):
                raise AnchorLost("units.py:parse_units.%s chain return" % fname)
            if isinstance(ret.value, ast.Tuple):
                val = tuple(const_str(e) for e in ret.value.elts)
            else:
                val = (const_str(ret.value),)
            out.append((key, val))
            node = node.orelse[0] if node.orelse else None
        if not out:
            raise AnchorLost("units.py:parse_units.%s chain" % fname)
        return out

    volbase = chain("get_volume_fundamental_unit")
    concbase = chain("get_concentration_fundamental_units")

    # exponent characters and separators in the character loop
    expchars, seps = None, None
    for n in ast.walk(pu):
        if isinstance(n, ast.Compare) and len(n.ops) == 1 and isinstance(n.ops[0], ast.In) \
                and isinstance(n.comparators[0], ast.List) and isinstance(n.left, ast.Name):
            try:
                cand = str_list(n.comparators[0])
            except AnchorLost:
                continue
            if "-" in cand and "0" in cand:
                expchars = cand
        if isinstance(n, ast.BoolOp) and isinstance(n.op, ast.Or):
            try:
                vals = [const_str(v.comparators[0]) for v in n.values
                        if isinstance(v, ast.Compare) and isinstance(v.ops[0], ast.Eq)]
            except AnchorLost:
                continue
            if len(vals) == len(n.values) and all(len(v) == 1 for v in vals) and "." in vals:
                seps = vals
    if expchars is None or seps is None:
        raise AnchorLost("units.py:parse_units exponent chars / separators")
    # multipliers used for derived units in addunit calls: volume -> b[2]*3 ; density -> b[2]*-3 and b[2]
    mults = {}
    for n in ast.walk(pu):
        if isinstance(n, ast.If) and isinstance(n.test, ast.Compare) and isinstance(n.test.left, ast.Name) \
                and n.test.left.id == "unittype" and isinstance(n.test.comparators[0], ast.Constant) \
                and isinstance(n.test.comparators[0].value, str):
            kind = const_str(n.test.comparators[0])
            calls = []
            for c in n.body:
                if isinstance(c, ast.Expr) and isinstance(c.value, ast.Call) and getattr(c.value.func, "id", "") == "addunit":
                    a = c.value.args
                    field = const_str(a[0])
                    e = re.sub(r"\s+", "", units.seg(a[2]))
                    m = re.fullmatch(r"b\[2\](?:\*(-?\d+))?", e)
                    if not m:
                        raise AnchorLost("units.py:parse_units addunit exponent " + e)
                    calls.append((field, int(m.group(1) or 1)))
            mults[kind] = calls
    want = {"space": [("space", 1)], "time": [("time", 1)], "quantity": [("quantity", 1)]}
    for k in ("space", "time", "quantity", "volume", "density"):
        if k not in mults:
            raise AnchorLost("units.py:parse_units addunit branch " + k)

    def pairs(lst):
        return "[" + ", ".join("(%s, %s)" % (lean_str(a), lean_rat(b)) for a, b in lst) + "]"

    L = []
    L.append("namespace Strengths.Gen\n")
    L.append("/-- `constants.avogadro_number()` (exact decimal value of the literal) -/")
    L.append("def avogadro : Rat := %s\n" % lean_rat(avo))
    L.append("/-- key order of `_units_labels_dict` (lookup order of `get_unit_type`) -/")
    L.append("def unitTypeOrder : List String := %s\n" % lean_list([lean_str(k) for k in label_key_order]))
    for k, nm in (("space", "spaceSyms"), ("time", "timeSyms"), ("quantity", "qtySyms"), ("density", "densitySyms"),
                  ("volume", "volumeSyms")):
        L.append("def %s : List String := %s" % (nm, lean_list([lean_str(s) for s in lab[k]])))
    L.append("")
    for k, nm in (("space", "spaceScale"), ("time", "timeScale"), ("quantity", "qtyScale")):
        L.append("def %s : List (String × Rat) := %s" % (nm, pairs(scale[k])))
    L.append("")
    L.append("def defaultSpace : String := %s" % lean_str(dfl["space"]))
    L.append("def defaultTime : String := %s" % lean_str(dfl["time"]))
    L.append("def defaultQty : String := %s\n" % lean_str(dfl["quantity"]))
    L.append("/-- the `s.replace(a, b)` chain at the top of `parse_units`, in order -/")
    L.append("def uSubst : List (String × String) := %s\n" %
             lean_list(["(%s, %s)" % (lean_str(a), lean_str(b)) for a, b in subst]))
    L.append("/-- `get_volume_fundamental_unit` -/")
    L.append("def volBase : List (String × String) := %s" %
             lean_list(["(%s, %s)" % (lean_str(a), lean_str(b[0])) for a, b in volbase]))
    L.append("/-- `get_concentration_fundamental_units` : symbol ↦ (quantity unit, space unit) -/")
    L.append("def concBase : List (String × String × String) := %s\n" %
             lean_list(["(%s, %s, %s)" % (lean_str(a), lean_str(b[0]), lean_str(b[1])) for a, b in concbase]))
    L.append("def expChars : List Char := %s" % lean_list(["'%s'" % c for c in expchars]))
    L.append("def sepChars : List Char := %s\n" % lean_list(["'%s'" % c for c in seps]))
    L.append("/-- exponent multipliers of the `addunit` calls per unit type: (field, multiplier) -/")
    for k in ("space", "time", "quantity", "volume", "density"):
        L.append("def addUnit_%s : List (String × Int) := %s" %
                 (k, lean_list(["(%s, (%d : Int))" % (lean_str(f), m) for f, m in mults[k]])))
    L.append("\nend Strengths.Gen")
    return "\n".join(L) + "\n"


# =============================================================================================
# G5 + G6 (Python side): index formulas and range predicates
# =============================================================================================
def _find_return_in_branch(src, fn, test_pred):
    """the `return` expression inside the first `if/elif` of fn whose test satisfies test_pred (on source text),
    or, when test_pred is None, the last top-level return"""
    def visit_if(node):
        while isinstance(node, ast.If):
            if test_pred is not None and test_pred(re.sub(r"\s+", "", src.seg(node.test))):
                for s in node.body:
                    if isinstance(s, ast.Return):
                        return s.value
            if len(node.orelse) == 1 and isinstance(node.orelse[0], ast.If):
                node = node.orelse[0]
            else:
                if test_pred is not None and test_pred("else"):
                    for s in node.orelse:
                        if isinstance(s, ast.Return):
                            return s.value
                return None
        return None
    for st in fn.body:
        if isinstance(st, ast.If):
            r = visit_if(st)
            if r is not None:
                return r
    if test_pred is None:
        for st in reversed(fn.body):
            if isinstance(st, ast.Return):
                return st.value
    raise AnchorLost("%s:%s return pattern" % (src.rel, fn.name))


def _assign_value(src, fn, name):
    for n in ast.walk(fn):
        if isinstance(n, ast.Assign) and len(n.targets) == 1 and isinstance(n.targets[0], ast.Name) and n.targets[0].id == name:
            return n.value
    raise AnchorLost("%s:%s assignment to %s" % (src.rel, fn.name, name))


@group
def gen_IndexPy(repo):
    grid = PySrc(repo, "src/strengths/rdgridspace.py")
    names_arr = {"position[0]": "x", "position[1]": "y", "position[2]": "z", "self.w": "w", "self.h": "h", "self.d": "d"}
    names_obj = {"position.x": "x", "position.y": "y", "position.z": "z", "self.w": "w", "self.h": "h", "self.d": "d"}
    gci = grid.func("get_cell_index", "RDGridSpace")
    e_arr = _find_return_in_branch(grid, gci, lambda t: t == "isarray(position)")
    e_obj = _find_return_in_branch(grid, gci, lambda t: t == "else")
    e_num = _find_return_in_branch(grid, gci, lambda t: t == "isnumber(position)")
    idx_arr = ExprTr(grid, names_arr).tr(e_arr)
    idx_obj = ExprTr(grid, names_obj).tr(e_obj)
    idx_num = ExprTr(grid, {"position": "p"}).tr(e_num)
    # the guard at the top of get_cell_index / get_cell_coordinates: `if not self.is_within_bounds(..): raise`
    def has_guard(fn, arg):
        for st in fn.body:
            if isinstance(st, ast.If) and re.sub(r"\s+", "", grid.seg(st.test)) == "notself.is_within_bounds(%s)" % arg \
                    and any(isinstance(b, ast.Raise) for b in st.body):
                return True
        return False
    gcc = grid.func("get_cell_coordinates", "RDGridSpace")
    guard_idx = has_guard(gci, "position")
    guard_coord = has_guard(gcc, "cell_index")
    names_c = {"cell_index": "i", "self.w": "w", "self.h": "h", "self.d": "d"}
    cx = ExprTr(grid, names_c).tr(_assign_value(grid, gcc, "x"))
    cy = ExprTr(grid, names_c).tr(_assign_value(grid, gcc, "y"))
    cz = ExprTr(grid, names_c).tr(_assign_value(grid, gcc, "z"))
    iwb = grid.func("is_within_bounds", "RDGridSpace")
    b_num = ExprTr(grid, {"position": "p", "self.size()": "size"}).tr(
        _find_return_in_branch(grid, iwb, lambda t: t == "isnumber(position)"))
    b_arr = ExprTr(grid, names_arr).tr(_find_return_in_branch(grid, iwb, lambda t: t == "isarray(position)"))
    b_obj = ExprTr(grid, names_obj).tr(_find_return_in_branch(grid, iwb, lambda t: t == "else"))
    size = grid.func("size", "RDGridSpace")
    size_e = ExprTr(grid, {"self.w": "w", "self.h": "h", "self.d": "d"}).tr(size.body[-1].value)

    rds = PySrc(repo, "src/strengths/rdsystem.py")
    gsi = rds.func("get_state_index", "RDSystem")
    st_e = ExprTr(rds, {"species_index": "s", "self.space.size()": "n", "cell_index": "c"}).tr(
        _find_return_in_branch(rds, gsi, None))
    ssz = rds.func("state_size", "RDSystem")
    ssz_e = ExprTr(rds, {"self.space.size()": "n", "self.network.nspecies()": "ns"}).tr(ssz.body[-1].value)

    out = PySrc(repo, "src/strengths/rdoutput.py")
    gtp = out.func("get_trajectory_point", "RDTrajectory")
    tp_e = None
    for n in ast.walk(gtp):
        if isinstance(n, ast.Return) and isinstance(n.value, ast.Call) and getattr(n.value.func, "attr", "") == "get_at":
            tp_e = ExprTr(out, {"sample_index": "k", "self.nspecies()": "ns", "self.ncells()": "n", "species_index": "s",
                                "cell_index": "c"}).tr(n.value.args[0])
    if tp_e is None:
        raise AnchorLost("rdoutput.py:get_trajectory_point data.get_at(index)")
    # reshape tuples used by get_trajectory / get_state
    def reshape_args(fn):
        res = []
        for n in ast.walk(fn):
            if isinstance(n, ast.Call) and getattr(n.func, "attr", "") == "reshape" and len(n.args) == 1 and isinstance(n.args[0], ast.Tuple):
                res.append([re.sub(r"\s+", "", out.seg(e)) for e in n.args[0].elts])
        return res
    rs_traj = reshape_args(out.func("get_trajectory", "RDTrajectory"))
    rs_state = reshape_args(out.func("get_state", "RDTrajectory"))
    if not rs_traj or not rs_state:
        raise AnchorLost("rdoutput.py:reshape tuples")

    graph = PySrc(repo, "src/strengths/rdgraphspace.py")
    L = ["namespace Strengths.Gen\n"]
    L.append("/-- `RDGridSpace.size` -/\ndef gridSize (w h d : Int) : Int := %s\n" % size_e)
    L.append("/-- `RDGridSpace.get_cell_index`, tuple/list branch -/\ndef cellIndexArr (w h x y z : Int) : Int := %s" % idx_arr)
    L.append("/-- `RDGridSpace.get_cell_index`, object-with-x,y,z branch -/\ndef cellIndexObj (w h x y z : Int) : Int := %s" % idx_obj)
    L.append("/-- `RDGridSpace.get_cell_index`, number branch -/\ndef cellIndexNum (p : Int) : Int := %s" % idx_num)
    L.append("/-- both accessors start with `if not self.is_within_bounds(..) : raise` -/")
    L.append("def cellIndexGuarded : Bool := %s" % ("true" if guard_idx else "false"))
    L.append("def cellCoordsGuarded : Bool := %s\n" % ("true" if guard_coord else "false"))
    L.append("/-- `RDGridSpace.get_cell_coordinates` -/")
    L.append("def cellCoordX (w h i : Int) : Int := %s" % cx)
    L.append("def cellCoordY (w h i : Int) : Int := %s" % cy)
    L.append("def cellCoordZ (w h i : Int) : Int := %s\n" % cz)
    L.append("/-- `RDGridSpace.is_within_bounds`, the three position forms -/")
    L.append("def withinBoundsNum (size p : Int) : Bool := %s" % b_num)
    L.append("def withinBoundsArr (w h d x y z : Int) : Bool := %s" % b_arr)
    L.append("def withinBoundsObj (w h d x y z : Int) : Bool := %s\n" % b_obj)
    L.append("/-- `RDSystem.get_state_index` (s = species index, n = number of cells, c = cell index) -/")
    L.append("def stateIndex (n s c : Int) : Int := %s" % st_e)
    L.append("/-- `RDSystem.state_size` -/\ndef stateSize (n ns : Int) : Int := %s\n" % ssz_e)
    L.append("/-- `RDTrajectory.get_trajectory_point` flat index (k = sample, ns = #species, n = #cells) -/")
    L.append("def trajPointIndex (ns n k s c : Int) : Int := %s" % tp_e)
    L.append("/-- reshape tuples of `get_trajectory` and `get_state` -/")
    L.append("def reshapeTrajectory : List (List String) := %s" %
             lean_list([lean_list([lean_str(x) for x in t]) for t in rs_traj]))
    L.append("def reshapeState : List (List String) := %s" %
             lean_list([lean_list([lean_str(x) for x in t]) for t in rs_state]))
    L.append("\nend Strengths.Gen")
    return "\n".join(L) + "\n"


# =============================================================================================
# G5 + G7 (C++ side): neighbour tables, wrap lines, index formulas, conditions, call orders
# =============================================================================================
def _cpp(repo, name):
    path = os.path.join(repo, ENGINE_SRC, name)
    try:
        with open(path, encoding="utf-8", errors="replace") as f:
            return strip_cpp_comments(f.read())
    except OSError:
        raise AnchorLost("missing " + name)


def _subscripts(text):
    """every `ident[expr]` occurrence (balanced brackets), normalised (blanks removed)"""
    out = []
    for m in re.finditer(r"([A-Za-z_][A-Za-z_0-9]*)\s*\[", text):
        i = m.end() - 1
        depth, j = 0, i
        while j < len(text):
            if text[j] == "[":
                depth += 1
            elif text[j] == "]":
                depth -= 1
                if depth == 0:
                    break
            j += 1
        expr = re.sub(r"\s+", "", text[i + 1:j])
        # chained subscripts a[i][j]: record the second level against a[i]
        name = m.group(1)
        out.append((name, expr))
        k = j + 1
        while k < len(text) and text[k] == "[":
            depth, j2 = 0, k
            while j2 < len(text):
                if text[j2] == "[":
                    depth += 1
                elif text[j2] == "]":
                    depth -= 1
                    if depth == 0:
                        break
                j2 += 1
            out.append((name + "[" + expr + "]", re.sub(r"\s+", "", text[k + 1:j2])))
            expr = expr + "][" + re.sub(r"\s+", "", text[k + 1:j2])
            k = j2 + 1
    return out


def _iterate_order(text, cls):
    m = re.search(r"class\s+%s\b" % cls, text)
    if not m:
        raise AnchorLost("class " + cls)
    body = cpp_function_body(text[m.start():], r"virtual\s+bool\s+Iterate\s*\(\s*\)\s*")
    stmts = []
    depth = 0
    cur = ""
    for ch in body:
        if ch in "{}":
            if cur.strip():
                stmts.append(re.sub(r"\s+", "", cur))
            cur = ""
            stmts.append(ch)
            continue
        if ch == ";":
            stmts.append(re.sub(r"\s+", "", cur))
            cur = ""
        else:
            cur += ch
    if cur.strip():
        stmts.append(re.sub(r"\s+", "", cur))
    return [s for s in stmts if s]


@group
def gen_EngineCpp(repo):
    base3 = _cpp(repo, "SimulationAlgorithm3DBase.hpp")
    baseg = _cpp(repo, "SimulationAlgorithmGraphBase.hpp")
    eng = _cpp(repo, "engine.cpp")
    L = ["namespace Strengths.Gen\n"]

    # ---- GetNeighborIndex
    body = cpp_function_body(base3, r"int\s+GetNeighborIndex\s*\([^)]*\)\s*")
    deltas = []
    for m in re.finditer(r"case\s+(\d+)\s*:\s*([xyz])n\s*([-+])=\s*(\d+)\s*;\s*break\s*;", body):
        deltas.append((int(m.group(1)), "xyz".index(m.group(2)), int(m.group(3) + m.group(4))))
    if len(deltas) != len(re.findall(r"\bcase\b", body)) or not deltas:
        raise AnchorLost("GetNeighborIndex switch cases")
    wraps = {}
    for m in re.finditer(r"if\s*\(\s*boundary_conditions\[(\d)\]\s*==\s*(\d+)\s*\)\s*([xyz])n\s*=\s*([^;]+);", body):
        ax = int(m.group(1))
        if "xyz"[ax] != m.group(3):
            raise AnchorLost("GetNeighborIndex wrap line axis mismatch")
        size = "whd"[ax]
        wraps[ax] = (int(m.group(2)), CppExpr(m.group(4), {size: "n", m.group(3) + "n": "c"}).parse())
    if sorted(wraps) != [0, 1, 2]:
        raise AnchorLost("GetNeighborIndex wrap lines")
    m = re.search(r"if\s*\(([^;{}]*?)\)\s*return\s+([^;]+);\s*else\s+return\s+(-?\d+)\s*;", body, flags=re.S)
    if not m:
        raise AnchorLost("GetNeighborIndex range test / return")
    nm = {"xn": "x", "yn": "y", "zn": "z", "w": "w", "h": "h", "d": "d"}
    inrange = CppExpr(m.group(1), nm).parse()
    retidx = CppExpr(m.group(2), nm).parse()
    L.append("/-- `GetNeighborIndex`: (direction, axis 0/1/2, delta) of the switch -/")
    L.append("def dirDelta : List (Nat × Nat × Int) := %s" % lean_list(["(%d, %d, (%d : Int))" % t for t in sorted(deltas)]))
    L.append("/-- value of `boundary_conditions[axis]` that enables wrapping, per axis -/")
    L.append("def wrapFlag : List Int := %s" % lean_list(["(%d : Int)" % wraps[a][0] for a in range(3)]))
    for a in range(3):
        L.append("/-- wrap line of axis %d: new coordinate from size `n` and shifted coordinate `c` -/" % a)
        L.append("def wrapAxis%d (n c : Int) : Int := %s" % (a, wraps[a][1]))
    L.append("def nbrInRange (w h d x y z : Int) : Bool := %s" % inrange)
    L.append("def nbrIndex (w h x y z : Int) : Int := %s" % retidx)
    L.append("def nbrNone : Int := (%s : Int)\n" % m.group(3))

    # ---- BuildMeshNeighbors coordinate extraction and table subscript
    body = cpp_function_body(base3, r"void\s+BuildMeshNeighbors\s*\(\s*\)\s*")
    cm = {}
    for m in re.finditer(r"int\s+([xyz])coord\s*=\s*([^;]+);", body):
        cm[m.group(1)] = CppExpr(m.group(2), {"i": "i", "w": "w", "h": "h"}).parse()
    if sorted(cm) != ["x", "y", "z"]:
        raise AnchorLost("BuildMeshNeighbors coordinates")
    m = re.search(r"mesh_neighbors\[([^\]]+)\]\s*=\s*GetNeighborIndex\(\s*xcoord\s*,\s*ycoord\s*,\s*zcoord\s*,\s*n\s*\)", body)
    if not m:
        raise AnchorLost("BuildMeshNeighbors table store")
    L.append("/-- `BuildMeshNeighbors`: coordinates of mesh i and slot of (i, direction n) -/")
    L.append("def meshX (w h i : Int) : Int := %s" % cm["x"])
    L.append("def meshY (w h i : Int) : Int := %s" % cm["y"])
    L.append("def meshZ (w h i : Int) : Int := %s" % cm["z"])
    L.append("def nbrSlot (i n : Int) : Int := %s\n" % CppExpr(m.group(1), {"i": "i", "n": "n"}).parse())

    # ---- opposed_direction
    m = re.search(r"opposed_direction\s*=\s*std::vector<int>\s*\{([^}]*)\}", base3)
    if not m:
        raise AnchorLost("opposed_direction table")
    opp = [int(x) for x in m.group(1).split(",")]
    L.append("def oppDir : List Nat := %s\n" % lean_list([str(x) for x in opp]))

    # ---- sampling / completion conditions (both base classes must agree textually)
    def sampling(text, which):
        res = {}
        b = cpp_function_body(text, r"void\s+CheckTMax\s*\(\s*\)\s*")
        m = re.search(r"if\s*\((.*?)\)\s*\{", b, flags=re.S)
        if not m:
            raise AnchorLost(which + " CheckTMax condition")
        res["tmax"] = re.sub(r"\s+", "", m.group(1))
        b = cpp_function_body(text, r"void\s+SampleOnTSample\s*\(\s*\)\s*")
        m = re.search(r"while\s*\((.*?)\)\s*\{(.*?)\}", b, flags=re.S)
        if not m:
            raise AnchorLost(which + " SampleOnTSample loop")
        res["tsample_conds"] = [re.sub(r"\s+", "", c) for c in m.group(1).split("&&")]
        res["tsample_body"] = [re.sub(r"\s+", "", s) for s in m.group(2).split(";") if s.strip()]
        b = cpp_function_body(text, r"void\s+SampleOnInterval\s*\(\s*\)\s*")
        m = re.search(r"double\s+tsi_ratio\s*=\s*([^;]+);\s*if\s*\((.*?)\)\s*\{(.*?)\}", b, flags=re.S)
        if not m:
            raise AnchorLost(which + " SampleOnInterval")
        res["interval_ratio"] = re.sub(r"\s+", "", m.group(1))
        res["interval_cond"] = re.sub(r"\s+", "", m.group(2))
        res["interval_body"] = [re.sub(r"\s+", "", s) for s in m.group(3).split(";") if s.strip()]
        b = cpp_function_body(text, r"void\s+SamplingStep\s*\(\s*\)\s*")
        res["dispatch"] = [(int(a), re.sub(r"\s+", "", c)) for a, c in re.findall(r"case\s+(\d+)\s*:\s*(.*?)break\s*;", b, flags=re.S)]
        b = cpp_function_body(text, r"void\s+Sample\s*\(\s*\)\s*")
        m = re.search(r"if\s*\((.*?)\)\s*\{(.*?)\}", b, flags=re.S)
        if not m:
            raise AnchorLost(which + " Sample")
        res["sample_cond"] = re.sub(r"\s+", "", m.group(1))
        res["sample_body"] = [re.sub(r"\s+", "", s) for s in m.group(2).split(";") if s.strip()]
        b = cpp_function_body(text, r"double\s+GetProgress\s*\(\s*\)\s*")
        res["progress"] = re.sub(r"\s+", "", b)
        return res
    s3, sg = sampling(base3, "3DBase"), sampling(baseg, "GraphBase")

    def strs(l):
        return lean_list([lean_str(x) for x in l])
    for tag, s in (("Grid", s3), ("Graph", sg)):
        L.append("def tMaxCond%s : String := %s" % (tag, lean_str(s["tmax"])))
        L.append("def tSampleLoopConds%s : List String := %s" % (tag, strs(s["tsample_conds"])))
        L.append("def tSampleLoopBody%s : List String := %s" % (tag, strs(s["tsample_body"])))
        L.append("def intervalRatio%s : String := %s" % (tag, lean_str(s["interval_ratio"])))
        L.append("def intervalCond%s : String := %s" % (tag, lean_str(s["interval_cond"])))
        L.append("def intervalBody%s : List String := %s" % (tag, strs(s["interval_body"])))
        L.append("def samplingDispatch%s : List (Nat × String) := %s" %
                 (tag, lean_list(["(%d, %s)" % (a, lean_str(c)) for a, c in s["dispatch"]])))
        L.append("def sampleCond%s : String := %s" % (tag, lean_str(s["sample_cond"])))
        L.append("def sampleBody%s : List String := %s" % (tag, strs(s["sample_body"])))
        L.append("def progressBody%s : String := %s\n" % (tag, lean_str(s["progress"])))

    # ---- Iterate bodies of the six algorithms
    for fname, cls in (("Euler3D.hpp", "Euler3D"), ("TauLeap3D.hpp", "TauLeap3D"), ("Gillespie3D.hpp", "Gillespie3D"),
                       ("EulerGraph.hpp", "EulerGraph"), ("TauLeapGraph.hpp", "TauLeapGraph"), ("GillespieGraph.hpp", "GillespieGraph")):
        L.append("def iterate%s : List String := %s" % (cls, strs(_iterate_order(_cpp(repo, fname), cls))))
    L.append("")

    # ---- engine.cpp: accepted strings and codes
    def chain(fn_regex, var):
        b = cpp_function_body(eng, fn_regex)
        return re.findall(r"CompareStr\(\s*%s\s*,\s*\"([^\"]*)\"\s*\)\)?\s*(?:\{?\s*)?(\w+(?:\[\d\])?)\s*=\s*(?:new\s+)?(\w+)" % var, b)
    for tag, fr in (("Grid", r"int\s+engineexport_initialize_grid\s*\("), ("Graph", r"int\s+engineexport_initialize_graph\s*\(")):
        pol = chain(fr, "sampling_policy")
        if not pol:
            raise AnchorLost("engine.cpp sampling policy chain " + tag)
        L.append("def cppPolicies%s : List (String × Nat) := %s" %
                 (tag, lean_list(["(%s, %s)" % (lean_str(a), c) for a, _, c in pol])))
        opt = chain(fr, "option")
        if not opt:
            raise AnchorLost("engine.cpp option chain " + tag)
        L.append("def cppOptions%s : List (String × String) := %s" %
                 (tag, lean_list(["(%s, %s)" % (lean_str(a), lean_str(c)) for a, _, c in opt])))
        b = cpp_function_body(eng, fr)
        modes = re.findall(r"CompareStr\(\s*init_state_processing\s*,\s*\"([^\"]*)\"\s*\)", b)
        L.append("def cppModes%s : List String := %s" % (tag, strs(modes)))
        # the processing branches, as normalised condition text in order
        conds = [re.sub(r"\s+", "", c) for c in re.findall(r"(?:else\s+)?if\s*\(\s*(CompareStr\(\s*init_state_processing.*?)\)\s*\{", b, flags=re.S)]
        L.append("def cppModeConds%s : List String := %s" % (tag, strs(conds)))
        # which branches transpose the species-major input
        branches = re.split(r"(?:else\s+)?if\s*\(\s*CompareStr\(\s*init_state_processing", b)[1:]
        tr = []
        for br in branches:
            head = br.split("{", 1)[1] if "{" in br else br
            blk = head.split("}", 1)[0]
            tr.append("SpeciesFirstToMeshFirstArray" in blk)
        L.append("def cppModeTransposes%s : List Bool := %s" % (tag, lean_list(["true" if t else "false" for t in tr])))
    bc = re.findall(r"CompareStr\(\s*boundary_conditions_x\s*,\s*\"([^\"]*)\"\s*\)\)\s*boundary_conditions\[0\]\s*=\s*(\d+)", eng)
    if not bc:
        raise AnchorLost("engine.cpp boundary condition chain")
    L.append("def cppBoundary : List (String × Int) := %s\n" % lean_list(["(%s, (%s : Int))" % (lean_str(a), c) for a, c in bc]))

    # ---- transposition and export formulas
    b = cpp_function_body(eng, r"SpeciesFirstToMeshFirstArray\s*\([^)]*\)\s*")
    m = re.search(r"mesh_first_array\[([^\]]+)\]\s*=\s*species_first_array\[([^\]]+)\]", b)
    if not m:
        raise AnchorLost("SpeciesFirstToMeshFirstArray assignment")
    nm = {"i": "i", "s": "s", "n_species": "ns", "n_meshes": "n"}
    L.append("/-- `SpeciesFirstToMeshFirstArray`: dst[dstIdx] = src[srcIdx] -/")
    L.append("def transposeDst (ns n s i : Int) : Int := %s" % CppExpr(m.group(1), nm).parse())
    L.append("def transposeSrc (ns n s i : Int) : Int := %s" % CppExpr(m.group(2), nm).parse())
    b = cpp_function_body(eng, r"int\s+engineexport_get_trajectory\s*\([^)]*\)\s*")
    ms = re.findall(r"trajectory_data\[([^\]]+)\]\s*=\s*trajectory_data_vec\[n\]\[([^\]]+)\]", b)
    if len(ms) != 2 or ms[0] != ms[1]:
        raise AnchorLost("engineexport_get_trajectory assignments (grid and graph branch must agree)")
    nm2 = {"i": "i", "s": "s", "n": "k", "n_species": "ns", "n_meshes": "n"}
    L.append("/-- `engineexport_get_trajectory`: out[exportDst] = sample_k[exportSrc] -/")
    L.append("def exportDst (ns n k s i : Int) : Int := %s" % CppExpr(ms[0][0], nm2).parse())
    L.append("def exportSrc (ns n s i : Int) : Int := %s" % CppExpr(ms[0][1], nm2).parse())
    b = cpp_function_body(eng, r"int\s+engineexport_get_state\s*\([^)]*\)\s*")
    ms = re.findall(r"state_data\[([^\]]+)\]\s*=\s*state_data_vec\[([^\]]+)\]", b)
    if len(ms) != 2 or ms[0] != ms[1]:
        raise AnchorLost("engineexport_get_state assignments")
    L.append("def stateExportDst (ns n s i : Int) : Int := %s" % CppExpr(ms[0][0], nm2).parse())
    L.append("def stateExportSrc (ns n s i : Int) : Int := %s\n" % CppExpr(ms[0][1], nm2).parse())

    # ---- finalize / run / iterate_n skeletons (normalised statement text)
    for fn in ("engineexport_finalize", "engineexport_iterate", "engineexport_iterate_n", "engineexport_run", "engineexport_sample"):
        b = cpp_function_body(eng, r"%s\s*\([^)]*\)\s*" % fn)
        L.append("def body_%s : String := %s" % (fn, lean_str(re.sub(r"\s+", "", b))))
    gl = re.findall(r"^(?:[A-Za-z_][\w:<>]*\s*\*?\s+\*?\s*)(global_\w+)\s*(?:=\s*([^;]+))?;", eng, flags=re.M)
    L.append("def engineGlobals : List (String × String) := %s\n" %
             lean_list(["(%s, %s)" % (lean_str(a), lean_str(b.strip())) for a, b in gl]))

    # ---- subscript inventory (G5): every vec[expr] in every engine source file
    inv = []
    for fname in ("SimulationAlgorithm3DBase.hpp", "SimulationAlgorithmGraphBase.hpp", "Euler3D.hpp", "EulerGraph.hpp",
                  "TauLeap3D.hpp", "TauLeapGraph.hpp", "Gillespie3D.hpp", "GillespieGraph.hpp", "engine.cpp"):
        for name, expr in sorted(set(_subscripts(_cpp(repo, fname)))):
            inv.append((fname, name, expr))
    L.append("/-- every `vector[index]` occurrence in the engine sources: (file, vector, index expression) -/")
    L.append("def subscripts : List (String × String × String) := [")
    L.append(",\n".join("  (%s, %s, %s)" % (lean_str(a), lean_str(b), lean_str(c)) for a, b, c in inv))
    L.append("]")
    L.append("\nend Strengths.Gen")
    return "\n".join(L) + "\n"


# =============================================================================================
# C17 : RDTrajectory accessors (slices, flat index) and the three sample-index lookups
# =============================================================================================
def _norm(src, node):
    return re.sub(r"\s+", "", src.seg(node))


def _lookup_fn(out, name):
    """translate one `_get_sample_index_*` method: guards before the loop, loop condition, returned index"""
    fn = out.func(name, "RDTrajectory")
    names = {"t": "t", "self.t.get_at(0)": "t0", "self.t.get_at(self.nsamples()-1)": "tl",
             "self.t.get_at(i)": "a", "self.t.get_at(i+1)": "b"}

    def ret_expr(node, in_loop):
        if not isinstance(node, ast.Return):
            raise AnchorLost("rdoutput.py:%s expected return" % name)
        v = node.value
        if v is None or (isinstance(v, ast.Constant) and v.value is None):
            return "none"
        txt = _norm(out, v)
        if isinstance(v, ast.Constant) and isinstance(v.value, int) and not isinstance(v.value, bool) and v.value >= 0:
            return "(some %d)" % v.value
        if txt == "self.nsamples()-1":
            return "(some (n - 1))"
        if in_loop and txt == "i":
            return "(some i)"
        if in_loop and re.fullmatch(r"i\+(\d+)", txt):
            return "(some (i + %s))" % txt[2:]
        raise AnchorLost("rdoutput.py:%s return value %s" % (name, txt))

    pre, loop = [], None
    body = [s for s in fn.body if not (isinstance(s, ast.Expr) and isinstance(s.value, ast.Constant))]
    for st in body:
        if isinstance(st, ast.If) and loop is None:
            if st.orelse or len(st.body) != 1:
                raise AnchorLost("rdoutput.py:%s guard shape" % name)
            test = _norm(out, st.test)
            if test == "len(self.t)==0":
                cond = "(n == 0)"
            else:
                cond = ExprTr(out, names).tr(st.test)
            pre.append((cond, ret_expr(st.body[0], False)))
        elif isinstance(st, ast.For) and loop is None:
            if _norm(out, st.iter) != "range(self.nsamples()-1)" or _norm(out, st.target) != "i" or st.orelse:
                raise AnchorLost("rdoutput.py:%s loop header" % name)
            if len(st.body) != 1 or not isinstance(st.body[0], ast.If) or st.body[0].orelse:
                raise AnchorLost("rdoutput.py:%s loop body" % name)
            inner = st.body[0]
            cond = ExprTr(out, names).tr(inner.test)
            loc = dict(names)
            ret = None
            for s2 in inner.body:
                if isinstance(s2, ast.Assign) and len(s2.targets) == 1 and isinstance(s2.targets[0], ast.Name):
                    loc[s2.targets[0].id] = ExprTr(out, loc).tr(s2.value)
                elif isinstance(s2, ast.Return):
                    ret = ret_expr(s2, True)
                elif isinstance(s2, ast.If) and len(s2.body) == 1 and len(s2.orelse) == 1:
                    ret = "(if %s then %s else %s)" % (ExprTr(out, loc).tr(s2.test), ret_expr(s2.body[0], True),
                                                      ret_expr(s2.orelse[0], True))
                else:
                    raise AnchorLost("rdoutput.py:%s loop statement" % name)
            if ret is None:
                raise AnchorLost("rdoutput.py:%s loop return" % name)
            loop = (cond, ret)
        else:
            raise AnchorLost("rdoutput.py:%s unexpected statement" % name)
    if loop is None or not pre:
        raise AnchorLost("rdoutput.py:%s guards / loop" % name)
    return pre, loop


@group
def gen_TrajPy(repo):
    out = PySrc(repo, "src/strengths/rdoutput.py")
    L = ["namespace Strengths.Gen\n"]
    for tag, name in (("closest", "_get_sample_index_closest"), ("infeq", "_get_sample_index_infeq"),
                      ("supeq", "_get_sample_index_supeq")):
        pre, (cond, ret) = _lookup_fn(out, name)
        chain = "".join("if %s then some %s else " % (c, r) for c, r in pre) + "none"
        L.append("/-- `RDTrajectory.%s`: the `if … : return …` statements before the loop (n = number of samples,\n"
                 "t0 / tl = first / last sample time); `none` = falls through to the loop -/" % name)
        L.append("def %sPre (n : Nat) (t t0 tl : Rat) : Option (Option Nat) := %s" % (tag, chain))
        L.append("/-- loop `for i in range(self.nsamples()-1)`: test on a = t[i], b = t[i+1] -/")
        L.append("def %sCond (t a b : Rat) : Bool := %s" % (tag, cond))
        L.append("/-- value returned by the loop body at index i -/")
        L.append("def %sRet (i : Nat) (t a b : Rat) : Option Nat := %s\n" % (tag, ret))
    gsi = out.func("get_sample_index", "RDTrajectory")
    pol, disp, conv = None, [], False
    for n in ast.walk(gsi):
        if isinstance(n, ast.Compare) and len(n.ops) == 1 and isinstance(n.ops[0], ast.NotIn) and _norm(out, n.left) == "policy":
            pol = str_list(n.comparators[0])
        if isinstance(n, ast.If) and isinstance(n.test, ast.Compare) and _norm(out, n.test.left) == "policy" \
                and isinstance(n.test.ops[0], ast.Eq) and len(n.body) == 1 and isinstance(n.body[0], ast.Return):
            disp.append((const_str(n.test.comparators[0]), _norm(out, n.body[0].value)))
        if isinstance(n, ast.Assign) and _norm(out, n) == "t=UnitValue(t,self.t.units,convert=True)":
            conv = True
    if pol is None or not disp:
        raise AnchorLost("rdoutput.py:get_sample_index policy list / dispatch")
    first = gsi.body[1] if isinstance(gsi.body[0], ast.Expr) else gsi.body[0]
    L.append("/-- `get_sample_index`: accepted policy strings, dispatch, and whether the first statement converts the\nquery to the units of the sample times -/")
    L.append("def samplePolicies : List String := %s" % lean_list([lean_str(p) for p in pol]))
    L.append("def sampleDispatch : List (String × String) := %s" %
             lean_list(["(%s, %s)" % (lean_str(a), lean_str(b)) for a, b in disp]))
    L.append("def sampleQueryConverted : Bool := %s\n" % ("true" if conv and _norm(out, first).startswith("t=UnitValue(") else "false"))

    # accessor slices: every `….reshape((…))[slice]` of get_trajectory / get_state, in source order
    def slices(fn):
        res = []
        for n in ast.walk(fn):
            if isinstance(n, ast.Subscript) and isinstance(n.value, ast.Call) and getattr(n.value.func, "attr", "") == "reshape":
                res.append((n.lineno, n.col_offset, _norm(out, n.value.func.value), _norm(out, n.slice)))
        return [(a, b) for _, _, a, b in sorted(res)]
    gt = out.func("get_trajectory", "RDTrajectory")
    gs = out.func("get_state", "RDTrajectory")
    gp = out.func("get_trajectory_point", "RDTrajectory")
    st, ss = slices(gt), slices(gs)
    if len(st) != 2 or len(ss) != 2:
        raise AnchorLost("rdoutput.py:accessor slices")
    L.append("/-- (array reshaped, slice) of `get_trajectory` (cell, merged) and `get_state` (whole, species) -/")
    L.append("def trajectorySlices : List (String × String) := %s" % lean_list(["(%s, %s)" % (lean_str(a), lean_str(b)) for a, b in st]))
    L.append("def stateSlices : List (String × String) := %s" % lean_list(["(%s, %s)" % (lean_str(a), lean_str(b)) for a, b in ss]))
    # merge: `[sum(state) for state in …]`
    merged = None
    for n in ast.walk(gt):
        if isinstance(n, ast.ListComp) and len(n.generators) == 1:
            merged = (_norm(out, n.elt), _norm(out, n.generators[0].target))
    if merged is None:
        raise AnchorLost("rdoutput.py:get_trajectory merge comprehension")
    L.append("def mergeComprehension : String × String := (%s, %s)" % (lean_str(merged[0]), lean_str(merged[1])))

    # how the three accessors obtain their indices, and the units they return
    def assigns(fn):
        res = []
        for n in ast.walk(fn):
            if isinstance(n, ast.Assign) and len(n.targets) == 1 and isinstance(n.targets[0], ast.Name) \
                    and n.targets[0].id in ("species_index", "cell_index", "sample_index"):
                res.append((n.lineno, n.targets[0].id, _norm(out, n.value)))
        return sorted(set((b, c) for _, b, c in res))
    for tag, fn in (("Trajectory", gt), ("State", gs), ("Point", gp)):
        L.append("def indexSources%s : List (String × String) := %s" %
                 (tag, lean_list(["(%s, %s)" % (lean_str(a), lean_str(b)) for a, b in assigns(fn)])))
    units_args = []
    for fn in (gt, gs):
        for n in ast.walk(fn):
            if isinstance(n, ast.Call) and getattr(n.func, "id", "") == "UnitArray" and len(n.args) >= 2:
                units_args.append(_norm(out, n.args[1]))
    L.append("def accessorUnits : List String := %s" % lean_list([lean_str(u) for u in units_args]))
    L.append("def pointAccessor : String := %s" % lean_str(_norm(out, [n for n in ast.walk(gp) if isinstance(n, ast.Return)][-1].value.func)))
    # shape methods
    for nm in ("ncells", "nspecies", "nsamples"):
        f = out.func(nm, "RDTrajectory")
        L.append("def shape_%s : String := %s" % (nm, lean_str(_norm(out, f.body[-1].value))))
    L.append("\nend Strengths.Gen")
    return "\n".join(L) + "\n"


# =============================================================================================
# C16 : coarse-graining — the tests of check_index_map_validity, the aggregation subscripts of
#       coarsegrain_system, the spreading subscripts of uncoarsegrain_trajectory_data, and the
#       shape of the loops of coarsegrain_grid
# =============================================================================================
@group
def gen_CoarsePy(repo):
    cg = PySrc(repo, "src/strengths/coarsegrain.py")
    L = ["namespace Strengths.Gen\n"]

    # ---- check_index_map_validity: statements in order
    chk = cg.func("check_index_map_validity")
    body = [s for s in chk.body if not (isinstance(s, ast.Expr) and isinstance(s.value, ast.Constant))]
    tests = []        # (tag, lean Bool expr or text)
    order = []

    def raises(stmts):
        return len(stmts) == 1 and isinstance(stmts[0], ast.Raise)
    env_loop = None
    assigned = {}
    for st in body:
        if isinstance(st, ast.If) and raises(st.body) and not st.orelse:
            t = _norm(cg, st.test)
            if t.startswith("len(im)"):
                tests.append(("imLenBad", "(len size : Int) : Bool", ExprTr(cg, {"len(im)": "len", "space.size()": "size"}).tr(st.test)))
                order.append("length")
            elif "im_min" in t:
                tests.append(("imMinBad", "(mn : Int) : Bool", ExprTr(cg, {"im_min": "mn"}).tr(st.test)))
                order.append("min")
            elif "im_max" in t:
                tests.append(("imMaxBad", "(mx : Int) : Bool", ExprTr(cg, {"im_max": "mx"}).tr(st.test)))
                order.append("max")
            else:
                raise AnchorLost("coarsegrain.py:check_index_map_validity unknown test " + t)
        elif isinstance(st, ast.For) and len(st.body) == 1 and isinstance(st.body[0], ast.If) and raises(st.body[0].body) \
                and not st.body[0].orelse:
            it, tgt, t = _norm(cg, st.iter), _norm(cg, st.target), _norm(cg, st.body[0].test)
            if it == "im" and tgt == "i":
                L.append("/-- element type test of `check_index_map_validity` -/\ndef imTypeTest : String := %s" % lean_str(t))
                order.append("type")
            elif tgt == "i" and isinstance(st.iter, ast.Call) and getattr(st.iter.func, "id", "") == "range" and len(st.iter.args) == 2:
                lo = ExprTr(cg, {"im_max": "mx"}).tr(st.iter.args[0])
                hi = ExprTr(cg, {"im_max": "mx"}).tr(st.iter.args[1])
                L.append("/-- presence loop `for i in range(lo, hi): if i not in im: raise` -/")
                L.append("def imPresenceLo (mx : Int) : Int := %s\ndef imPresenceHi (mx : Int) : Int := %s" % (lo, hi))
                L.append("def imPresenceTest : String := %s" % lean_str(t))
                order.append("presence")
            else:
                raise AnchorLost("coarsegrain.py:check_index_map_validity unknown loop " + it)
        elif isinstance(st, ast.Assign) and len(st.targets) == 1 and isinstance(st.targets[0], ast.Name):
            assigned[st.targets[0].id] = _norm(cg, st.value)
        elif isinstance(st, ast.For):
            env_loop = st
            order.append("envloop")
        else:
            raise AnchorLost("coarsegrain.py:check_index_map_validity unexpected statement")
    for k, want in (("im_max", "max(im)"), ("im_min", "min(im)"), ("env", "space.get_cell_env_array()")):
        if assigned.get(k) != want:
            raise AnchorLost("coarsegrain.py:check_index_map_validity %s = %s" % (k, want))
    m = re.fullmatch(r"\[(-?\d+)foriinrange\(min\(im\),max\(im\)\+1\)\]", assigned.get("env_out", ""))
    if not m or env_loop is None:
        raise AnchorLost("coarsegrain.py:check_index_map_validity env_out / environment loop")
    sentinel = int(m.group(1))
    if _norm(cg, env_loop.iter) != "range(space.size())" or _norm(cg, env_loop.target) != "i":
        raise AnchorLost("coarsegrain.py:check_index_map_validity environment loop header")
    eb = list(env_loop.body)
    skip = None
    if isinstance(eb[0], ast.If) and len(eb[0].body) == 1 and isinstance(eb[0].body[0], ast.Continue) and not eb[0].orelse:
        skip = ExprTr(cg, {"im[i]": "g"}).tr(eb[0].test)
        eb = eb[1:]
    if len(eb) != 1 or not isinstance(eb[0], ast.If):
        raise AnchorLost("coarsegrain.py:check_index_map_validity environment loop body")
    node = eb[0]
    nm = {"env_out[im[i]]": "cur", "env[i]": "e"}
    c1 = ExprTr(cg, nm).tr(node.test)
    if not (len(node.body) == 1 and isinstance(node.body[0], ast.Assign) and _norm(cg, node.body[0]) == "env_out[im[i]]=env[i]"):
        raise AnchorLost("coarsegrain.py:check_index_map_validity environment loop first branch")
    if not (len(node.orelse) == 1 and isinstance(node.orelse[0], ast.If)):
        raise AnchorLost("coarsegrain.py:check_index_map_validity environment loop elif")
    n2 = node.orelse[0]
    c2 = ExprTr(cg, nm).tr(n2.test)
    if not (len(n2.body) == 1 and isinstance(n2.body[0], ast.Pass) and raises(n2.orelse)):
        raise AnchorLost("coarsegrain.py:check_index_map_validity environment loop else raise")
    for tag, sig, e in tests:
        L.append("def %s %s := %s" % (tag, sig, e))
    L.append("/-- order of the tests -/\ndef imTestOrder : List String := %s" % lean_list([lean_str(o) for o in order]))
    L.append("/-- environment loop: initial slot value, skip test on g = im[i] (`false` when absent), first-seen test and same-environment test\non cur = env_out[im[i]], e = env[i]; anything else raises -/")
    L.append("def envSentinel : Int := (%d : Int)" % sentinel)
    L.append("def envSkip (g : Int) : Bool := %s" % (skip if skip is not None else "false"))
    L.append("def envUnset (cur e : Int) : Bool := %s" % c1)
    L.append("def envSame (cur e : Int) : Bool := %s\n" % c2)

    # ---- coarsegrain_system: the two aggregation statements
    cs = cg.func("coarsegrain_system")
    aug = [n for n in ast.walk(cs) if isinstance(n, ast.AugAssign) and isinstance(n.op, ast.Add)]
    nm = {"s": "s", "cgspace.size()": "ncg", "index_map[i]": "g", "system.space.size()": "n", "i": "i"}
    found = {}
    for a in aug:
        tgt, val = a.target, a.value
        if isinstance(tgt, ast.Subscript) and isinstance(val, ast.Subscript):
            found[_norm(cg, tgt.value)] = (ExprTr(cg, nm).tr(tgt.slice), _norm(cg, val.value), ExprTr(cg, nm).tr(val.slice))
    if sorted(found) != ["cgchstt", "cgstate"]:
        raise AnchorLost("coarsegrain.py:coarsegrain_system aggregation statements")
    if found["cgstate"][1] != "system.state.value" or found["cgchstt"][1] != "system.chemostats":
        raise AnchorLost("coarsegrain.py:coarsegrain_system aggregation sources")
    L.append("/-- `coarsegrain_system`: cgstate[dst] += state[src] ; cgchstt[dst] += chemostats[src]  (ncg = #groups, n = #cells, g = index_map[i]) -/")
    L.append("def cgStateDst (ncg s g : Int) : Int := %s" % found["cgstate"][0])
    L.append("def cgStateSrc (n s i : Int) : Int := %s" % found["cgstate"][2])
    L.append("def cgChemDst (ncg s g : Int) : Int := %s" % found["cgchstt"][0])
    L.append("def cgChemSrc (n s i : Int) : Int := %s" % found["cgchstt"][2])
    guard = None
    for n in ast.walk(cs):
        if isinstance(n, ast.If) and any(isinstance(x, ast.For) for x in n.body):
            guard = ExprTr(cg, {"index_map[i]": "g"}).tr(n.test)
    if guard is None:
        raise AnchorLost("coarsegrain.py:coarsegrain_system dropped-cell guard")
    L.append("def cgKeep (g : Int) : Bool := %s" % guard)
    clamp = None
    for n in ast.walk(cs):
        if isinstance(n, ast.Assign) and _norm(cg, n.targets[0]) == "cgchstt[i]":
            clamp = _norm(cg, n.value)
    if clamp is None:
        raise AnchorLost("coarsegrain.py:coarsegrain_system chemostat clamp")
    L.append("def cgChemClamp : String := %s" % lean_str(clamp))
    sizes = sorted(set(_norm(cg, n.value) for n in ast.walk(cs) if isinstance(n, ast.Assign) and _norm(cg, n.targets[0]) in ("cgstate", "cgchstt")
                       and isinstance(n.value, ast.ListComp)))
    L.append("def cgArrayInit : List String := %s\n" % lean_list([lean_str(x) for x in sizes]))

    # ---- coarsegrain_grid: guards and the accumulate statements, as text (loops are hand-modelled)
    gg = cg.func("coarsegrain_grid")
    acc = [(_norm(cg, n.target), _norm(cg, n.value)) for n in ast.walk(gg) if isinstance(n, ast.AugAssign)]
    L.append("/-- `coarsegrain_grid`: every augmented assignment (target, value), in source order -/")
    L.append("def cgGridAccumulate : List (String × String) := %s" %
             lean_list(["(%s, %s)" % (lean_str(a), lean_str(b)) for a, b in acc]))
    conds = [_norm(cg, n.test) for n in ast.walk(gg) if isinstance(n, ast.If)]
    L.append("def cgGridTests : List String := %s" % lean_list([lean_str(c) for c in conds]))
    asg = [(_norm(cg, n.targets[0]), _norm(cg, n.value)) for n in ast.walk(gg) if isinstance(n, ast.Assign)
           and _norm(cg, n.targets[0]) in ("i", "j", "c", "n_cell_out", "nodes[index_map[i]].environment", "edge.distance", "distance", "grid_cell_edge")]
    L.append("def cgGridAssign : List (String × String) := %s" % lean_list(["(%s, %s)" % (lean_str(a), lean_str(b)) for a, b in asg]))
    app = [_norm(cg, n) for n in ast.walk(gg) if isinstance(n, ast.Call) and getattr(n.func, "attr", "") == "append"]
    L.append("def cgGridAppends : List String := %s\n" % lean_list([lean_str(a) for a in app]))

    # ---- grid_to_graph: the three face tests and the neighbour coordinates
    g2g = cg.func("grid_to_graph")
    faces = []
    for n in ast.walk(g2g):
        if isinstance(n, ast.If) and len(n.body) == 1 and isinstance(n.body[0], ast.Expr) and "edges.append" in _norm(cg, n.body[0]):
            call = n.body[0].value.args[0]
            kw = {k.arg: _norm(cg, k.value) for k in call.keywords}
            faces.append((_norm(cg, n.test), kw.get("i", ""), kw.get("j", ""), kw.get("surface", ""), kw.get("distance", "")))
    if len(faces) != 3:
        raise AnchorLost("coarsegrain.py:grid_to_graph face tests")
    L.append("/-- `grid_to_graph`: (test, i, j, surface, distance) of the three inner-face statements -/")
    L.append("def g2gFaces : List (String × String × String × String × String) := %s" %
             lean_list(["(%s)" % ", ".join(lean_str(x) for x in f) for f in faces]))
    geo = [(_norm(cg, n.targets[0]), _norm(cg, n.value)) for n in g2g.body if isinstance(n, ast.Assign)
           and _norm(cg, n.targets[0]) in ("edge_dst", "edge_sfc")]
    L.append("def g2gGeometry : List (String × String) := %s\n" % lean_list(["(%s, %s)" % (lean_str(a), lean_str(b)) for a, b in geo]))

    # ---- uncoarsegrain_trajectory_data
    un = cg.func("uncoarsegrain_trajectory_data")
    store = None
    for n in ast.walk(un):
        if isinstance(n, ast.Assign) and isinstance(n.targets[0], ast.Subscript) and _norm(cg, n.targets[0].value) == "data":
            store = n
    if store is None:
        raise AnchorLost("coarsegrain.py:uncoarsegrain_trajectory_data store")
    nm = {"n": "k", "state_size": "ssz", "s": "s", "ncg_space.size()": "nf", "j": "j"}
    L.append("/-- `uncoarsegrain_trajectory_data`: data[dst] = in_state[n, s, node_index] / len(cg_nodes[node_index]) -/")
    L.append("def uncgDst (ssz nf k s j : Int) : Int := %s" % ExprTr(cg, nm).tr(store.targets[0].slice))
    L.append("def uncgValue : String := %s" % lean_str(_norm(cg, store.value)))
    ssz = _assign_value(cg, un, "state_size")
    L.append("def uncgStateSize (ns nf : Int) : Int := %s" %
             ExprTr(cg, {"trajectory.system.network.nspecies()": "ns", "ncg_space.size()": "nf"}).tr(ssz))
    L.append("def uncgDataInit : String := %s" % lean_str(_norm(cg, _assign_value(cg, un, "data"))))
    L.append("def uncgInState : String := %s" % lean_str(_norm(cg, _assign_value(cg, un, "in_state"))))
    memb = [(_norm(cg, n.test), _norm(cg, n.body[0])) for n in ast.walk(un) if isinstance(n, ast.If) and len(n.body) == 1]
    L.append("def uncgMembers : List (String × String) := %s" % lean_list(["(%s, %s)" % (lean_str(a), lean_str(b)) for a, b in memb]))
    loops = [(_norm(cg, n.target), _norm(cg, n.iter)) for n in ast.walk(un) if isinstance(n, ast.For)]
    L.append("def uncgLoops : List (String × String) := %s" % lean_list(["(%s, %s)" % (lean_str(a), lean_str(b)) for a, b in loops]))

    # ---- simulate_script glue
    sim = PySrc(repo, "src/strengths/simulate.py")
    ss = sim.func("simulate_script")
    glue = []
    for n in ast.walk(ss):
        if isinstance(n, ast.If) and _norm(sim, n.test) == "cgmapisNone":
            glue = [_norm(sim, s) for s in n.orelse]
    if not glue:
        raise AnchorLost("simulate.py:simulate_script cgmap branch")
    L.append("/-- `simulate_script`, branch `cgmap is not None` -/")
    L.append("def simulateCgGlue : List String := %s" % lean_list([lean_str(g) for g in glue]))
    L.append("\nend Strengths.Gen")
    return "\n".join(L) + "\n"
