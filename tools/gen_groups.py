"""Generation groups of the translator (one Lean file per group).  See DESIGN.md §5.1 (G1..G8)."""
import ast, os, re
from fractions import Fraction
from trlib import (AnchorLost, PySrc, ExprTr, CppExpr, const_number, const_str, str_list, lean_str,
                   lean_rat, lean_list, group, cpp_function_body, strip_cpp_comments)

ENGINE_SRC = "src/strengths/engines/strengths_engine/src"


# =============================================================================================
# G1 + G2 : unit tables, scales, defaults, derived-unit decomposition, u->µ substitutions
# =============================================================================================
@group
def gen_Units(repo):
    consts = PySrc(repo, "src/strengths/constants.py")
    fn = consts.func("avogadro_number")
    avo = None
    for n in ast.walk(fn):
        if isinstance(n, ast.Return):
            avo = const_number(consts, n.value, {})
    if avo is None:
        raise AnchorLost("constants.py:avogadro_number return literal")
    units = PySrc(repo, "src/strengths/units.py")
    env = {"avogadro_number": avo}

    labels = units.toplevel_assign("_units_labels_dict")
    if not isinstance(labels, ast.Dict):
        raise AnchorLost("units.py:_units_labels_dict literal")
    lab = {const_str(k): str_list(v) for k, v in zip(labels.keys, labels.values)}
    for k in ("space", "time", "quantity", "density", "volume"):
        if k not in lab:
            raise AnchorLost("units.py:_units_labels_dict[%s]" % k)
    label_key_order = [const_str(k) for k in labels.keys]

    conv = units.toplevel_assign("_units_conversion_dict")
    if not isinstance(conv, ast.Dict):
        raise AnchorLost("units.py:_units_conversion_dict literal")
    scale = {}
    for k, v in zip(conv.keys, conv.values):
        if not isinstance(v, ast.Dict):
            raise AnchorLost("units.py:_units_conversion_dict inner literal")
        scale[const_str(k)] = [(const_str(kk), const_number(units, vv, env)) for kk, vv in zip(v.keys, v.values)]
    for k in ("space", "time", "quantity"):
        if k not in scale:
            raise AnchorLost("units.py:_units_conversion_dict[%s]" % k)

    dflt = units.toplevel_assign("_default_units_system_dict")
    dfl = {const_str(k): const_str(v) for k, v in zip(dflt.keys, dflt.values)}

    # compute_conversion_factor: f *= (tbl[k][src[k]] / tbl[k][dst[k]]) ** sdim[k]
    ccf = units.func("compute_conversion_factor")
    ok = False
    for n in ast.walk(ccf):
        if isinstance(n, ast.AugAssign) and isinstance(n.op, ast.Mult):
            txt = re.sub(r"\s+", "", units.seg(n.value))
            if txt == "(_units_conversion_dict[k][su_src[k]]/_units_conversion_dict[k][su_dst[k]])**sdim[k]":
                ok = True
    if not ok:
        raise AnchorLost("units.py:compute_conversion_factor product formula")

    pu = units.func("parse_units")
    # the s.replace(a, b) chain, in order
    subst = []
    for n in pu.body:
        if isinstance(n, ast.Assign) and isinstance(n.value, ast.Call) and isinstance(n.value.func, ast.Attribute) \
                and n.value.func.attr == "replace" and len(n.value.args) == 2:
            subst.append((const_str(n.value.args[0]), const_str(n.value.args[1])))
    if not subst:
        raise AnchorLost("units.py:parse_units replace chain")

    def chain(fname):
        f = units.nested_func(pu, fname)
        out = []
        node = f.body[0]
        while isinstance(node, ast.If):
            t = node.test
            if not (isinstance(t, ast.Compare) and len(t.ops) == 1 and isinstance(t.ops[0], ast.Eq)):
                raise AnchorLost("units.py:parse_units.%s chain test" % fname)
            key = const_str(t.comparators[0])
            ret = node.body[0]
            if not isinstance(ret, ast.Return):
                raise AnchorLost("units.py:parse_units.%s chain return" % fname)
            if isinstance(ret.value, ast.Tuple):
                val = tuple(const_str(e) for e in ret.value.elts)
            else:
                val = (const_str(ret.value),)
            out.append((key, val))
            node = node.orelse[0] if node.orelse else None
        if not out:
            raise AnchorLost("units.py:parse_units.%s chain" % fname)
        return out

    volbase = chain("get_volume_fundamental_unit")
    concbase = chain("get_concentration_fundamental_units")

    # exponent characters and separators in the character loop
    expchars, seps = None, None
    for n in ast.walk(pu):
        if isinstance(n, ast.Compare) and len(n.ops) == 1 and isinstance(n.ops[0], ast.In) \
                and isinstance(n.comparators[0], ast.List) and isinstance(n.left, ast.Name):
            try:
                cand = str_list(n.comparators[0])
            except AnchorLost:
                continue
            if "-" in cand and "0" in cand:
                expchars = cand
        if isinstance(n, ast.BoolOp) and isinstance(n.op, ast.Or):
            try:
                vals = [const_str(v.comparators[0]) for v in n.values
                        if isinstance(v, ast.Compare) and isinstance(v.ops[0], ast.Eq)]
            except AnchorLost:
                continue
            if len(vals) == len(n.values) and all(len(v) == 1 for v in vals) and "." in vals:
                seps = vals
    if expchars is None or seps is None:
        raise AnchorLost("units.py:parse_units exponent chars / separators")
    # multipliers used for derived units in addunit calls: volume -> b[2]*3 ; density -> b[2]*-3 and b[2]
    mults = {}
    for n in ast.walk(pu):
        if isinstance(n, ast.If) and isinstance(n.test, ast.Compare) and isinstance(n.test.left, ast.Name) \
                and n.test.left.id == "unittype" and isinstance(n.test.comparators[0], ast.Constant) \
                and isinstance(n.test.comparators[0].value, str):
            kind = const_str(n.test.comparators[0])
            calls = []
            for c in n.body:
                if isinstance(c, ast.Expr) and isinstance(c.value, ast.Call) and getattr(c.value.func, "id", "") == "addunit":
                    a = c.value.args
                    field = const_str(a[0])
                    e = re.sub(r"\s+", "", units.seg(a[2]))
                    m = re.fullmatch(r"b\[2\](?:\*(-?\d+))?", e)
                    if not m:
                        raise AnchorLost("units.py:parse_units addunit exponent " + e)
                    calls.append((field, int(m.group(1) or 1)))
            mults[kind] = calls
    want = {"space": [("space", 1)], "time": [("time", 1)], "quantity": [("quantity", 1)]}
    for k in ("space", "time", "quantity", "volume", "density"):
        if k not in mults:
            raise AnchorLost("units.py:parse_units addunit branch " + k)

    def pairs(lst):
        return "[" + ", ".join("(%s, %s)" % (lean_str(a), lean_rat(b)) for a, b in lst) + "]"

    L = []
    L.append("namespace Strengths.Gen\n")
    L.append("/-- `constants.avogadro_number()` (exact decimal value of the literal) -/")
    L.append("def avogadro : Rat := %s\n" % lean_rat(avo))
    L.append("/-- key order of `_units_labels_dict` (lookup order of `get_unit_type`) -/")
    L.append("def unitTypeOrder : List String := %s\n" % lean_list([lean_str(k) for k in label_key_order]))
    for k, nm in (("space", "spaceSyms"), ("time", "timeSyms"), ("quantity", "qtySyms"), ("density", "densitySyms"),
                  ("volume", "volumeSyms")):
        L.append("def %s : List String := %s" % (nm, lean_list([lean_str(s) for s in lab[k]])))
    L.append("")
    for k, nm in (("space", "spaceScale"), ("time", "timeScale"), ("quantity", "qtyScale")):
        L.append("def %s : List (String × Rat) := %s" % (nm, pairs(scale[k])))
    L.append("")
    L.append("def defaultSpace : String := %s" % lean_str(dfl["space"]))
    L.append("def defaultTime : String := %s" % lean_str(dfl["time"]))
    L.append("def defaultQty : String := %s\n" % lean_str(dfl["quantity"]))
    L.append("/-- the `s.replace(a, b)` chain at the top of `parse_units`, in order -/")
    L.append("def uSubst : List (String × String) := %s\n" %
             lean_list(["(%s, %s)" % (lean_str(a), lean_str(b)) for a, b in subst]))
    L.append("/-- `get_volume_fundamental_unit` -/")
    L.append("def volBase : List (String × String) := %s" %
             lean_list(["(%s, %s)" % (lean_str(a), lean_str(b[0])) for a, b in volbase]))
    L.append("/-- `get_concentration_fundamental_units` : symbol ↦ (quantity unit, space unit) -/")
    L.append("def concBase : List (String × String × String) := %s\n" %
             lean_list(["(%s, %s, %s)" % (lean_str(a), lean_str(b[0]), lean_str(b[1])) for a, b in concbase]))
    L.append("def expChars : List Char := %s" % lean_list(["'%s'" % c for c in expchars]))
    L.append("def sepChars : List Char := %s\n" % lean_list(["'%s'" % c for c in seps]))
    L.append("/-- exponent multipliers of the `addunit` calls per unit type: (field, multiplier) -/")
    for k in ("space", "time", "quantity", "volume", "density"):
        L.append("def addUnit_%s : List (String × Int) := %s" %
                 (k, lean_list(["(%s, (%d : Int))" % (lean_str(f), m) for f, m in mults[k]])))
    L.append("\nend Strengths.Gen")
    return "\n".join(L) + "\n"


# =============================================================================================
# G5 + G6 (Python side): index formulas and range predicates
# =============================================================================================
def _find_return_in_branch(src, fn, test_pred):
    """the `return` expression inside the first `if/elif` of fn whose test satisfies test_pred (on source text),
    or, when test_pred is None, the last top-level return"""
    def visit_if(node):
        while isinstance(node, ast.If):
            if test_pred is not None and test_pred(re.sub(r"\s+", "", src.seg(node.test))):
                for s in node.body:
                    if isinstance(s, ast.Return):
                        return s.value
            if len(node.orelse) == 1 and isinstance(node.orelse[0], ast.If):
                node = node.orelse[0]
            else:
                if test_pred is not None and test_pred("else"):
                    for s in node.orelse:
                        if isinstance(s, ast.Return):
                            return s.value
                return None
        return None
    for st in fn.body:
        if isinstance(st, ast.If):
            r = visit_if(st)
            if r is not None:
                return r
    if test_pred is None:
        for st in reversed(fn.body):
            if isinstance(st, ast.Return):
                return st.value
    raise AnchorLost("%s:%s return pattern" % (src.rel, fn.name))


def _assign_value(src, fn, name):
    for n in ast.walk(fn):
        if isinstance(n, ast.Assign) and len(n.targets) == 1 and isinstance(n.targets[0], ast.Name) and n.targets[0].id == name:
            return n.value
    raise AnchorLost("%s:%s assignment to %s" % (src.rel, fn.name, name))


@group
def gen_IndexPy(repo):
    grid = PySrc(repo, "src/strengths/rdgridspace.py")
    names_arr = {"position[0]": "x", "position[1]": "y", "position[2]": "z", "self.w": "w", "self.h": "h", "self.d": "d"}
    names_obj = {"position.x": "x", "position.y": "y", "position.z": "z", "self.w": "w", "self.h": "h", "self.d": "d"}
    gci = grid.func("get_cell_index", "RDGridSpace")
    e_arr = _find_return_in_branch(grid, gci, lambda t: t == "isarray(position)")
    e_obj = _find_return_in_branch(grid, gci, lambda t: t == "else")
    e_num = _find_return_in_branch(grid, gci, lambda t: t == "isnumber(position)")
    idx_arr = ExprTr(grid, names_arr).tr(e_arr)
    idx_obj = ExprTr(grid, names_obj).tr(e_obj)
    idx_num = ExprTr(grid, {"position": "p"}).tr(e_num)
    # the guard at the top of get_cell_index / get_cell_coordinates: `if not self.is_within_bounds(..): raise`
    def has_guard(fn, arg):
        for st in fn.body:
            if isinstance(st, ast.If) and re.sub(r"\s+", "", grid.seg(st.test)) == "notself.is_within_bounds(%s)" % arg \
                    and any(isinstance(b, ast.Raise) for b in st.body):
                return True
        return False
    gcc = grid.func("get_cell_coordinates", "RDGridSpace")
    guard_idx = has_guard(gci, "position")
    guard_coord = has_guard(gcc, "cell_index")
    names_c = {"cell_index": "i", "self.w": "w", "self.h": "h", "self.d": "d"}
    cx = ExprTr(grid, names_c).tr(_assign_value(grid, gcc, "x"))
    cy = ExprTr(grid, names_c).tr(_assign_value(grid, gcc, "y"))
    cz = ExprTr(grid, names_c).tr(_assign_value(grid, gcc, "z"))
    iwb = grid.func("is_within_bounds", "RDGridSpace")
    b_num = ExprTr(grid, {"position": "p", "self.size()": "size"}).tr(
        _find_return_in_branch(grid, iwb, lambda t: t == "isnumber(position)"))
    b_arr = ExprTr(grid, names_arr).tr(_find_return_in_branch(grid, iwb, lambda t: t == "isarray(position)"))
    b_obj = ExprTr(grid, names_obj).tr(_find_return_in_branch(grid, iwb, lambda t: t == "else"))
    size = grid.func("size", "RDGridSpace")
    size_e = ExprTr(grid, {"self.w": "w", "self.h": "h", "self.d": "d"}).tr(size.body[-1].value)

    rds = PySrc(repo, "src/strengths/rdsystem.py")
    gsi = rds.func("get_state_index", "RDSystem")
    st_e = ExprTr(rds, {"species_index": "s", "self.space.size()": "n", "cell_index": "c"}).tr(
        _find_return_in_branch(rds, gsi, None))
    ssz = rds.func("state_size", "RDSystem")
    ssz_e = ExprTr(rds, {"self.space.size()": "n", "self.network.nspecies()": "ns"}).tr(ssz.body[-1].value)

    out = PySrc(repo, "src/strengths/rdoutput.py")
    gtp = out.func("get_trajectory_point", "RDTrajectory")
    tp_e = None
    for n in ast.walk(gtp):
        if isinstance(n, ast.Return) and isinstance(n.value, ast.Call) and getattr(n.value.func, "attr", "") == "get_at":
            tp_e = ExprTr(out, {"sample_index": "k", "self.nspecies()": "ns", "self.ncells()": "n", "species_index": "s",
                                "cell_index": "c"}).tr(n.value.args[0])
    if tp_e is None:
        raise AnchorLost("rdoutput.py:get_trajectory_point data.get_at(index)")
    # reshape tuples used by get_trajectory / get_state
    def reshape_args(fn):
        res = []
        for n in ast.walk(fn):
            if isinstance(n, ast.Call) and getattr(n.func, "attr", "") == "reshape" and len(n.args) == 1 and isinstance(n.args[0], ast.Tuple):
                res.append([re.sub(r"\s+", "", out.seg(e)) for e in n.args[0].elts])
        return res
    rs_traj = reshape_args(out.func("get_trajectory", "RDTrajectory"))
    rs_state = reshape_args(out.func("get_state", "RDTrajectory"))
    if not rs_traj or not rs_state:
        raise AnchorLost("rdoutput.py:reshape tuples")

    graph = PySrc(repo, "src/strengths/rdgraphspace.py")
    L = ["namespace Strengths.Gen\n"]
    L.append("/-- `RDGridSpace.size` -/\ndef gridSize (w h d : Int) : Int := %s\n" % size_e)
    L.append("/-- `RDGridSpace.get_cell_index`, tuple/list branch -/\ndef cellIndexArr (w h x y z : Int) : Int := %s" % idx_arr)
    L.append("/-- `RDGridSpace.get_cell_index`, object-with-x,y,z branch -/\ndef cellIndexObj (w h x y z : Int) : Int := %s" % idx_obj)
    L.append("/-- `RDGridSpace.get_cell_index`, number branch -/\ndef cellIndexNum (p : Int) : Int := %s" % idx_num)
    L.append("/-- both accessors start with `if not self.is_within_bounds(..) : raise` -/")
    L.append("def cellIndexGuarded : Bool := %s" % ("true" if guard_idx else "false"))
    L.append("def cellCoordsGuarded : Bool := %s\n" % ("true" if guard_coord else "false"))
    L.append("/-- `RDGridSpace.get_cell_coordinates` -/")
    L.append("def cellCoordX (w h i : Int) : Int := %s" % cx)
    L.append("def cellCoordY (w h i : Int) : Int := %s" % cy)
    L.append("def cellCoordZ (w h i : Int) : Int := %s\n" % cz)
    L.append("/-- `RDGridSpace.is_within_bounds`, the three position forms -/")
    L.append("def withinBoundsNum (size p : Int) : Bool := %s" % b_num)
    L.append("def withinBoundsArr (w h d x y z : Int) : Bool := %s" % b_arr)
    L.append("def withinBoundsObj (w h d x y z : Int) : Bool := %s\n" % b_obj)
    L.append("/-- `RDSystem.get_state_index` (s = species index, n = number of cells, c = cell index) -/")
    L.append("def stateIndex (n s c : Int) : Int := %s" % st_e)
    L.append("/-- `RDSystem.state_size` -/\ndef stateSize (n ns : Int) : Int := %s\n" % ssz_e)
    L.append("/-- `RDTrajectory.get_trajectory_point` flat index (k = sample, ns = #species, n = #cells) -/")
    L.append("def trajPointIndex (ns n k s c : Int) : Int := %s" % tp_e)
    L.append("/-- reshape tuples of `get_trajectory` and `get_state` -/")
    L.append("def reshapeTrajectory : List (List String) := %s" %
             lean_list([lean_list([lean_str(x) for x in t]) for t in rs_traj]))
    L.append("def reshapeState : List (List String) := %s" %
             lean_list([lean_list([lean_str(x) for x in t]) for t in rs_state]))
    L.append("\nend Strengths.Gen")
    return "\n".join(L) + "\n"


# =============================================================================================
# G5 + G7 (C++ side): neighbour tables, wrap lines, index formulas, conditions, call orders
# =============================================================================================
def _cpp(repo, name):
    path = os.path.join(repo, ENGINE_SRC, name)
    try:
        with open(path, encoding="utf-8", errors="replace") as f:
            return strip_cpp_comments(f.read())
    except OSError:
        raise AnchorLost("missing " + name)


def _subscripts(text):
    """every `ident[expr]` occurrence (balanced brackets), normalised (blanks removed)"""
    out = []
    for m in re.finditer(r"([A-Za-z_][A-Za-z_0-9]*)\s*\[", text):
        i = m.end() - 1
        depth, j = 0, i
        while j < len(text):
            if text[j] == "[":
                depth += 1
            elif text[j] == "]":
                depth -= 1
                if depth == 0:
                    break
            j += 1
        expr = re.sub(r"\s+", "", text[i + 1:j])
        # chained subscripts a[i][j]: record the second level against a[i]
        name = m.group(1)
        out.append((name, expr))
        k = j + 1
        while k < len(text) and text[k] == "[":
            depth, j2 = 0, k
            while j2 < len(text):
                if text[j2] == "[":
                    depth += 1
                elif text[j2] == "]":
                    depth -= 1
                    if depth == 0:
                        break
                j2 += 1
            out.append((name + "[" + expr + "]", re.sub(r"\s+", "", text[k + 1:j2])))
            expr = expr + "][" + re.sub(r"\s+", "", text[k + 1:j2])
            k = j2 + 1
    return out


def _iterate_order(text, cls):
    m = re.search(r"class\s+%s\b" % cls, text)
    if not m:
        raise AnchorLost("class " + cls)
    body = cpp_function_body(text[m.start():], r"virtual\s+bool\s+Iterate\s*\(\s*\)\s*")
    stmts = []
    depth = 0
    cur = ""
    for ch in body:
        if ch in "{}":
            if cur.strip():
                stmts.append(re.sub(r"\s+", "", cur))
            cur = ""
            stmts.append(ch)
            continue
        if ch == ";":
            stmts.append(re.sub(r"\s+", "", cur))
            cur = ""
        else:
            cur += ch
    if cur.strip():
        stmts.append(re.sub(r"\s+", "", cur))
    return [s for s in stmts if s]


@group
def gen_EngineCpp(repo):
    base3 = _cpp(repo, "SimulationAlgorithm3DBase.hpp")
    baseg = _cpp(repo, "SimulationAlgorithmGraphBase.hpp")
    eng = _cpp(repo, "engine.cpp")
    L = ["namespace Strengths.Gen\n"]

    # ---- GetNeighborIndex
    body = cpp_function_body(base3, r"int\s+GetNeighborIndex\s*\([^)]*\)\s*")
    deltas = []
    for m in re.finditer(r"case\s+(\d+)\s*:\s*([xyz])n\s*([-+])=\s*(\d+)\s*;\s*break\s*;", body):
        deltas.append((int(m.group(1)), "xyz".index(m.group(2)), int(m.group(3) + m.group(4))))
    if len(deltas) != len(re.findall(r"\bcase\b", body)) or not deltas:
        raise AnchorLost("GetNeighborIndex switch cases")
    wraps = {}
    for m in re.finditer(r"if\s*\(\s*boundary_conditions\[(\d)\]\s*==\s*(\d+)\s*\)\s*([xyz])n\s*=\s*([^;]+);", body):
        ax = int(m.group(1))
        if "xyz"[ax] != m.group(3):
            raise AnchorLost("GetNeighborIndex wrap line axis mismatch")
        size = "whd"[ax]
        wraps[ax] = (int(m.group(2)), CppExpr(m.group(4), {size: "n", m.group(3) + "n": "c"}).parse())
    if sorted(wraps) != [0, 1, 2]:
        raise AnchorLost("GetNeighborIndex wrap lines")
    m = re.search(r"if\s*\(([^;{}]*?)\)\s*return\s+([^;]+);\s*else\s+return\s+(-?\d+)\s*;", body, flags=re.S)
    if not m:
        raise AnchorLost("GetNeighborIndex range test / return")
    nm = {"xn": "x", "yn": "y", "zn": "z", "w": "w", "h": "h", "d": "d"}
    inrange = CppExpr(m.group(1), nm).parse()
    retidx = CppExpr(m.group(2), nm).parse()
    L.append("/-- `GetNeighborIndex`: (direction, axis 0/1/2, delta) of the switch -/")
    L.append("def dirDelta : List (Nat × Nat × Int) := %s" % lean_list(["(%d, %d, (%d : Int))" % t for t in sorted(deltas)]))
    L.append("/-- value of `boundary_conditions[axis]` that enables wrapping, per axis -/")
    L.append("def wrapFlag : List Int := %s" % lean_list(["(%d : Int)" % wraps[a][0] for a in range(3)]))
    for a in range(3):
        L.append("/-- wrap line of axis %d: new coordinate from size `n` and shifted coordinate `c` -/" % a)
        L.append("def wrapAxis%d (n c : Int) : Int := %s" % (a, wraps[a][1]))
    L.append("def nbrInRange (w h d x y z : Int) : Bool := %s" % inrange)
    L.append("def nbrIndex (w h x y z : Int) : Int := %s" % retidx)
    L.append("def nbrNone : Int := (%s : Int)\n" % m.group(3))

    # ---- BuildMeshNeighbors coordinate extraction and table subscript
    body = cpp_function_body(base3, r"void\s+BuildMeshNeighbors\s*\(\s*\)\s*")
    cm = {}
    for m in re.finditer(r"int\s+([xyz])coord\s*=\s*([^;]+);", body):
        cm[m.group(1)] = CppExpr(m.group(2), {"i": "i", "w": "w", "h": "h"}).parse()
    if sorted(cm) != ["x", "y", "z"]:
        raise AnchorLost("BuildMeshNeighbors coordinates")
    m = re.search(r"mesh_neighbors\[([^\]]+)\]\s*=\s*GetNeighborIndex\(\s*xcoord\s*,\s*ycoord\s*,\s*zcoord\s*,\s*n\s*\)", body)
    if not m:
        raise AnchorLost("BuildMeshNeighbors table store")
    L.append("/-- `BuildMeshNeighbors`: coordinates of mesh i and slot of (i, direction n) -/")
    L.append("def meshX (w h i : Int) : Int := %s" % cm["x"])
    L.append("def meshY (w h i : Int) : Int := %s" % cm["y"])
    L.append("def meshZ (w h i : Int) : Int := %s" % cm["z"])
    L.append("def nbrSlot (i n : Int) : Int := %s\n" % CppExpr(m.group(1), {"i": "i", "n": "n"}).parse())

    # ---- opposed_direction
    m = re.search(r"opposed_direction\s*=\s*std::vector<int>\s*\{([^}]*)\}", base3)
    if not m:
        raise AnchorLost("opposed_direction table")
    opp = [int(x) for x in m.group(1).split(",")]
    L.append("def oppDir : List Nat := %s\n" % lean_list([str(x) for x in opp]))

    # ---- sampling / completion conditions (both base classes must agree textually)
    def sampling(text, which):
        res = {}
        b = cpp_function_body(text, r"void\s+CheckTMax\s*\(\s*\)\s*")
        m = re.search(r"if\s*\((.*?)\)\s*\{", b, flags=re.S)
        if not m:
            raise AnchorLost(which + " CheckTMax condition")
        res["tmax"] = re.sub(r"\s+", "", m.group(1))
        b = cpp_function_body(text, r"void\s+SampleOnTSample\s*\(\s*\)\s*")
        m = re.search(r"while\s*\((.*?)\)\s*\{(.*?)\}", b, flags=re.S)
        if not m:
            raise AnchorLost(which + " SampleOnTSample loop")
        res["tsample_conds"] = [re.sub(r"\s+", "", c) for c in m.group(1).split("&&")]
        res["tsample_body"] = [re.sub(r"\s+", "", s) for s in m.group(2).split(";") if s.strip()]
        b = cpp_function_body(text, r"void\s+SampleOnInterval\s*\(\s*\)\s*")
        m = re.search(r"double\s+tsi_ratio\s*=\s*([^;]+);\s*if\s*\((.*?)\)\s*\{(.*?)\}", b, flags=re.S)
        if not m:
            raise AnchorLost(which + " SampleOnInterval")
        res["interval_ratio"] = re.sub(r"\s+", "", m.group(1))
        res["interval_cond"] = re.sub(r"\s+", "", m.group(2))
        res["interval_body"] = [re.sub(r"\s+", "", s) for s in m.group(3).split(";") if s.strip()]
        b = cpp_function_body(text, r"void\s+SamplingStep\s*\(\s*\)\s*")
        res["dispatch"] = [(int(a), re.sub(r"\s+", "", c)) for a, c in re.findall(r"case\s+(\d+)\s*:\s*(.*?)break\s*;", b, flags=re.S)]
        b = cpp_function_body(text, r"void\s+Sample\s*\(\s*\)\s*")
        m = re.search(r"if\s*\((.*?)\)\s*\{(.*?)\}", b, flags=re.S)
        if not m:
            raise AnchorLost(which + " Sample")
        res["sample_cond"] = re.sub(r"\s+", "", m.group(1))
        res["sample_body"] = [re.sub(r"\s+", "", s) for s in m.group(2).split(";") if s.strip()]
        b = cpp_function_body(text, r"double\s+GetProgress\s*\(\s*\)\s*")
        res["progress"] = re.sub(r"\s+", "", b)
        return res
    s3, sg = sampling(base3, "3DBase"), sampling(baseg, "GraphBase")

    def strs(l):
        return lean_list([lean_str(x) for x in l])
    for tag, s in (("Grid", s3), ("Graph", sg)):
        L.append("def tMaxCond%s : String := %s" % (tag, lean_str(s["tmax"])))
        L.append("def tSampleLoopConds%s : List String := %s" % (tag, strs(s["tsample_conds"])))
        L.append("def tSampleLoopBody%s : List String := %s" % (tag, strs(s["tsample_body"])))
        L.append("def intervalRatio%s : String := %s" % (tag, lean_str(s["interval_ratio"])))
        L.append("def intervalCond%s : String := %s" % (tag, lean_str(s["interval_cond"])))
        L.append("def intervalBody%s : List String := %s" % (tag, strs(s["interval_body"])))
        L.append("def samplingDispatch%s : List (Nat × String) := %s" %
                 (tag, lean_list(["(%d, %s)" % (a, lean_str(c)) for a, c in s["dispatch"]])))
        L.append("def sampleCond%s : String := %s" % (tag, lean_str(s["sample_cond"])))
        L.append("def sampleBody%s : List String := %s" % (tag, strs(s["sample_body"])))
        L.append("def progressBody%s : String := %s\n" % (tag, lean_str(s["progress"])))

    # ---- Iterate bodies of the six algorithms
    for fname, cls in (("Euler3D.hpp", "Euler3D"), ("TauLeap3D.hpp", "TauLeap3D"), ("Gillespie3D.hpp", "Gillespie3D"),
                       ("EulerGraph.hpp", "EulerGraph"), ("TauLeapGraph.hpp", "TauLeapGraph"), ("GillespieGraph.hpp", "GillespieGraph")):
        L.append("def iterate%s : List String := %s" % (cls, strs(_iterate_order(_cpp(repo, fname), cls))))
    L.append("")

    # ---- engine.cpp: accepted strings and codes
    def chain(fn_regex, var):
        b = cpp_function_body(eng, fn_regex)
        return re.findall(r"CompareStr\(\s*%s\s*,\s*\"([^\"]*)\"\s*\)\)?\s*(?:\{?\s*)?(\w+(?:\[\d\])?)\s*=\s*(?:new\s+)?(\w+)" % var, b)
    for tag, fr in (("Grid", r"int\s+engineexport_initialize_grid\s*\("), ("Graph", r"int\s+engineexport_initialize_graph\s*\(")):
        pol = chain(fr, "sampling_policy")
        if not pol:
            raise AnchorLost("engine.cpp sampling policy chain " + tag)
        L.append("def cppPolicies%s : List (String × Nat) := %s" %
                 (tag, lean_list(["(%s, %s)" % (lean_str(a), c) for a, _, c in pol])))
        opt = chain(fr, "option")
        if not opt:
            raise AnchorLost("engine.cpp option chain " + tag)
        L.append("def cppOptions%s : List (String × String) := %s" %
                 (tag, lean_list(["(%s, %s)" % (lean_str(a), lean_str(c)) for a, _, c in opt])))
        b = cpp_function_body(eng, fr)
        modes = re.findall(r"CompareStr\(\s*init_state_processing\s*,\s*\"([^\"]*)\"\s*\)", b)
        L.append("def cppModes%s : List String := %s" % (tag, strs(modes)))
        # the processing branches, as normalised condition text in order
        conds = [re.sub(r"\s+", "", c) for c in re.findall(r"(?:else\s+)?if\s*\(\s*(CompareStr\(\s*init_state_processing.*?)\)\s*\{", b, flags=re.S)]
        L.append("def cppModeConds%s : List String := %s" % (tag, strs(conds)))
        # which branches transpose the species-major input
        branches = re.split(r"(?:else\s+)?if\s*\(\s*CompareStr\(\s*init_state_processing", b)[1:]
        tr = []
        for br in branches:
            head = br.split("{", 1)[1] if "{" in br else br
            blk = head.split("}", 1)[0]
            tr.append("SpeciesFirstToMeshFirstArray" in blk)
        L.append("def cppModeTransposes%s : List Bool := %s" % (tag, lean_list(["true" if t else "false" for t in tr])))
    bc = re.findall(r"CompareStr\(\s*boundary_conditions_x\s*,\s*\"([^\"]*)\"\s*\)\)\s*boundary_conditions\[0\]\s*=\s*(\d+)", eng)
    if not bc:
        raise AnchorLost("engine.cpp boundary condition chain")
    L.append("def cppBoundary : List (String × Int) := %s\n" % lean_list(["(%s, (%s : Int))" % (lean_str(a), c) for a, c in bc]))

    # ---- transposition and export formulas
    b = cpp_function_body(eng, r"SpeciesFirstToMeshFirstArray\s*\([^)]*\)\s*")
    m = re.search(r"mesh_first_array\[([^\]]+)\]\s*=\s*species_first_array\[([^\]]+)\]", b)
    if not m:
        raise AnchorLost("SpeciesFirstToMeshFirstArray assignment")
    nm = {"i": "i", "s": "s", "n_species": "ns", "n_meshes": "n"}
    L.append("/-- `SpeciesFirstToMeshFirstArray`: dst[dstIdx] = src[srcIdx] -/")
    L.append("def transposeDst (ns n s i : Int) : Int := %s" % CppExpr(m.group(1), nm).parse())
    L.append("def transposeSrc (ns n s i : Int) : Int := %s" % CppExpr(m.group(2), nm).parse())
    b = cpp_function_body(eng, r"int\s+engineexport_get_trajectory\s*\([^)]*\)\s*")
    ms = re.findall(r"trajectory_data\[([^\]]+)\]\s*=\s*trajectory_data_vec\[n\]\[([^\]]+)\]", b)
    if len(ms) != 2 or ms[0] != ms[1]:
        raise AnchorLost("engineexport_get_trajectory assignments (grid and graph branch must agree)")
    nm2 = {"i": "i", "s": "s", "n": "k", "n_species": "ns", "n_meshes": "n"}
    L.append("/-- `engineexport_get_trajectory`: out[exportDst] = sample_k[exportSrc] -/")
    L.append("def exportDst (ns n k s i : Int) : Int := %s" % CppExpr(ms[0][0], nm2).parse())
    L.append("def exportSrc (ns n s i : Int) : Int := %s" % CppExpr(ms[0][1], nm2).parse())
    b = cpp_function_body(eng, r"int\s+engineexport_get_state\s*\([^)]*\)\s*")
    ms = re.findall(r"state_data\[([^\]]+)\]\s*=\s*state_data_vec\[([^\]]+)\]", b)
    if len(ms) != 2 or ms[0] != ms[1]:
        raise AnchorLost("engineexport_get_state assignments")
    L.append("def stateExportDst (ns n s i : Int) : Int := %s" % CppExpr(ms[0][0], nm2).parse())
    L.append("def stateExportSrc (ns n s i : Int) : Int := %s\n" % CppExpr(ms[0][1], nm2).parse())

    # ---- finalize / run / iterate_n skeletons (normalised statement text)
    for fn in ("engineexport_finalize", "engineexport_iterate", "engineexport_iterate_n", "engineexport_run", "engineexport_sample"):
        b = cpp_function_body(eng, r"%s\s*\([^)]*\)\s*" % fn)
        L.append("def body_%s : String := %s" % (fn, lean_str(re.sub(r"\s+", "", b))))
    gl = re.findall(r"^(?:[A-Za-z_][\w:<>]*\s*\*?\s+\*?\s*)(global_\w+)\s*(?:=\s*([^;]+))?;", eng, flags=re.M)
    L.append("def engineGlobals : List (String × String) := %s\n" %
             lean_list(["(%s, %s)" % (lean_str(a), lean_str(b.strip())) for a, b in gl]))

    # ---- index formulas of the flattened tables the algorithms read (must agree across all read sites)
    def table_formula(vec, names, files):
        forms = set()
        for fname in files:
            for name, expr in _subscripts(_cpp(repo, fname)):
                if name == vec:
                    forms.add(CppExpr(expr, names).parse())
        if len(forms) != 1:
            raise AnchorLost("index formula of %s is not unique across its read sites: %s" % (vec, sorted(forms)))
        return forms.pop()
    algo_files = ["SimulationAlgorithm3DBase.hpp", "SimulationAlgorithmGraphBase.hpp", "Euler3D.hpp", "EulerGraph.hpp",
                  "TauLeap3D.hpp", "TauLeapGraph.hpp", "Gillespie3D.hpp", "GillespieGraph.hpp"]
    nm3 = {"mesh_env[i]": "e", "mesh_env[j]": "e", "n_reactions": "nr", "n_species": "ns", "n_env": "ne", "r": "r", "s": "s",
           "j": "s", "reaction_index": "r", "i": "i", "mesh_index": "i", "species_index": "s", "n": "n", "direction": "n"}
    L.append("/-- flattened-table index formulas as read by the algorithms (identical at every read site) -/")
    L.append("def kIndex (nr e r : Int) : Int := %s" % table_formula("k", nm3, algo_files))
    L.append("def subIndex (nr s r : Int) : Int := %s" % table_formula("sub", nm3, algo_files))
    nm_sto = dict(nm3)
    L.append("def stoIndex (nr s r : Int) : Int := %s" % table_formula("sto", nm_sto, algo_files))
    L.append("def dIndex (ne s e : Int) : Int := %s" % table_formula("D", nm3, algo_files))
    L.append("def krIndex (nr i r : Int) : Int := %s" % table_formula("mesh_kr", nm3, algo_files))
    L.append("def kdIndexGrid (ns i s n : Int) : Int := %s" % table_formula("mesh_kd", nm3, ["SimulationAlgorithm3DBase.hpp"]))
    L.append("")

    # ---- subscript inventory (G5): every vec[expr] in every engine source file
    inv = []
    for fname in ("SimulationAlgorithm3DBase.hpp", "SimulationAlgorithmGraphBase.hpp", "Euler3D.hpp", "EulerGraph.hpp",
                  "TauLeap3D.hpp", "TauLeapGraph.hpp", "Gillespie3D.hpp", "GillespieGraph.hpp", "engine.cpp"):
        for name, expr in sorted(set(_subscripts(_cpp(repo, fname)))):
            inv.append((fname, name, expr))
    L.append("/-- every `vector[index]` occurrence in the engine sources: (file, vector, index expression) -/")
    L.append("def subscripts : List (String × String × String) := [")
    L.append(",\n".join("  (%s, %s, %s)" % (lean_str(a), lean_str(b), lean_str(c)) for a, b, c in inv))
    L.append("]")
    L.append("\nend Strengths.Gen")
    return "\n".join(L) + "\n"


# =============================================================================================
# Python kinetics / marshalling (C01, C03, C04): neighbour enumeration, wrap lines, chemostat lookup,
# rate / diffusion formulas (normalised text), rate-constant dimensions, marshalling subscripts and loop orders
# =============================================================================================
def _norm(src, node):
    return re.sub(r"\s+", "", src.seg(node))


def _stmts(fn):
    """all statements of a function, depth first, in source order"""
    out = []

    def rec(body):
        for st in body:
            out.append(st)
            for fld in ("body", "orelse", "finalbody"):
                sub = getattr(st, fld, None)
                if isinstance(sub, list):
                    rec(sub)
    rec(fn.body)
    return out


def _stmt_texts(src, fn, keep):
    """normalised source text of the simple statements (Assign/AugAssign/Return/Expr) of fn selected by keep(text)"""
    res = []
    for st in _stmts(fn):
        if isinstance(st, (ast.Assign, ast.AugAssign, ast.Return, ast.Expr)):
            if isinstance(st, ast.Expr) and isinstance(st.value, ast.Constant) and isinstance(st.value.value, str):
                continue   # docstring
            t = _norm(src, st)
            if keep(t):
                res.append(t)
    return res


def _need(lst, what, n=None):
    if not lst or (n is not None and len(lst) != n):
        raise AnchorLost("%s (found %d)" % (what, len(lst)))
    return lst


@group
def gen_KineticsPy(repo):
    kin = PySrc(repo, "src/strengths/kinetics.py")
    L = ["namespace Strengths.Gen\n"]

    def strs(l):
        return lean_list([lean_str(x) for x in l])

    # ---- _compute_dspeciesdt_grid : candidate list, wrap lines, bounds test, chemostat test, accumulation
    g = kin.func("_compute_dspeciesdt_grid")
    cand = None
    for st in _stmts(g):
        if isinstance(st, ast.For) and isinstance(st.iter, ast.List) and isinstance(st.target, ast.Name) and st.target.id == "c":
            cand = st
    if cand is None:
        raise AnchorLost("kinetics.py:_compute_dspeciesdt_grid candidate loop `for c in [[...]...]`")
    offs = []
    for el in cand.iter.elts:
        if not (isinstance(el, ast.List) and len(el.elts) == 3):
            raise AnchorLost("kinetics.py:_compute_dspeciesdt_grid candidate triple")
        tri = []
        for k, comp in enumerate(el.elts):
            t = _norm(kin, comp)
            m = re.fullmatch(r"p\[(\d)\](?:([-+])(\d+))?", t)
            if not m or int(m.group(1)) != k:
                raise AnchorLost("kinetics.py:_compute_dspeciesdt_grid candidate component " + t)
            tri.append(int((m.group(2) or "+") + (m.group(3) or "0")))
        offs.append(tuple(tri))
    L.append("/-- `_compute_dspeciesdt_grid`: the six candidate neighbours as coordinate offsets, in loop order -/")
    L.append("def pyNbrOffsets : List (Int × Int × Int) := %s" %
             lean_list(["((%d : Int), (%d : Int), (%d : Int))" % t for t in offs]))
    wraps = {}
    for st in cand.body:
        if isinstance(st, ast.If) and isinstance(st.test, ast.BoolOp) and isinstance(st.test.op, ast.And) and len(st.test.values) == 2:
            a, b = st.test.values
            ta = _norm(kin, a)
            m = re.fullmatch(r'system\.space\._boundary_conditions\["([xyz])"\]=="(\w+)"', ta)
            if not m:
                continue
            ax = "xyz".index(m.group(1))
            size = "system.space." + "whd"[ax]
            if len(st.body) != 1 or not isinstance(st.body[0], ast.Assign) or _norm(kin, st.body[0].targets[0]) != "c[%d]" % ax:
                raise AnchorLost("kinetics.py:_compute_dspeciesdt_grid wrap assignment of axis %d" % ax)
            guard = ExprTr(kin, {size: "n"}).tr(b)
            expr = ExprTr(kin, {size: "n", "c[%d]" % ax: "c"}).tr(st.body[0].value)
            wraps[ax] = (m.group(2), guard, expr)
    if sorted(wraps) != [0, 1, 2]:
        raise AnchorLost("kinetics.py:_compute_dspeciesdt_grid wrap lines (three `if ... periodical and size > 1`)")
    L.append("/-- boundary-condition string that enables wrapping, per axis -/")
    L.append("def pyWrapMode : List String := %s" % strs([wraps[a][0] for a in range(3)]))
    for a in range(3):
        L.append("/-- wrap of axis %d: extra guard on the axis length `n`, and the new coordinate from `n` and candidate `c` -/" % a)
        L.append("def pyWrapGuard%d (n : Int) : Bool := %s" % (a, wraps[a][1]))
        L.append("def pyWrap%d (n c : Int) : Int := %s" % (a, wraps[a][2]))
    inb = [st for st in cand.body if isinstance(st, ast.If) and _norm(kin, st.test) == "system.space.is_within_bounds(c)"]
    _need(inb, "kinetics.py:_compute_dspeciesdt_grid `if system.space.is_within_bounds(c)`", 1)
    L.append("def pyGridNbrBody : List String := %s" % strs([_norm(kin, s) for s in inb[0].body]))

    def chem_test(fn):
        for st in fn.body:
            if isinstance(st, ast.If) and isinstance(st.test, ast.BoolOp) and isinstance(st.test.op, ast.And) \
                    and _norm(kin, st.test.values[0]) == "apply_chemostats" and len(st.test.values) == 2:
                return _norm(kin, st.test.values[1]), [_norm(kin, s) for s in st.body]
        raise AnchorLost("kinetics.py:%s `if apply_chemostats and ...`" % fn.name)
    gg = kin.func("_compute_dspeciesdt_graph")
    ct_grid, cb_grid = chem_test(g)
    ct_graph, cb_graph = chem_test(gg)
    L.append("/-- the flag consulted by `if apply_chemostats and <...>` and the statement executed when it is set -/")
    L.append("def pyChemTestGrid : String := %s" % lean_str(ct_grid))
    L.append("def pyChemTestGraph : String := %s" % lean_str(ct_graph))
    L.append("def pyChemBodyGrid : List String := %s" % strs(cb_grid))
    L.append("def pyChemBodyGraph : List String := %s" % strs(cb_graph))
    L.append("/-- statements accumulating into `d` (`d = 0` … `d += …` … `return d.convert(...)`), in source order -/")
    L.append("def pyAccumGrid : List String := %s" % strs(_need(_stmt_texts(kin, g, lambda t: t.startswith("d=") or t.startswith("d+=") or t.startswith("returnd")), "kinetics.py:_compute_dspeciesdt_grid accumulation")))
    L.append("def pyAccumGraph : List String := %s" % strs(_need(_stmt_texts(kin, gg, lambda t: t.startswith("d=") or t.startswith("d+=") or t.startswith("returnd")), "kinetics.py:_compute_dspeciesdt_graph accumulation")))
    # graph neighbour enumeration: conditions of the loop over j
    conds = []
    for st in _stmts(gg):
        if isinstance(st, ast.For) and _norm(kin, st.iter) == "range(system.space.size())":
            for s2 in _stmts(st):
                if isinstance(s2, ast.If):
                    conds.append(_norm(kin, s2.test))
    L.append("def pyGraphNbrConds : List String := %s" % strs(_need(conds, "kinetics.py:_compute_dspeciesdt_graph neighbour loop conditions")))

    # ---- compute_reaction_rates : the statements building rf / rr
    crr = kin.func("compute_reaction_rates")
    L.append("/-- `compute_reaction_rates`: statements defining `rf`, `rr`, `volume`, the state index and the returned pair -/")
    L.append("def pyRateStmts : List String := %s" % strs(_need(_stmt_texts(
        kin, crr, lambda t: re.match(r"(rf|rr|volume|state_index|ssto|psto|environment_index|environment_label)(=|\*=)", t) or t.startswith("returnrf")),
        "kinetics.py:compute_reaction_rates rate statements")))
    # ---- compute_diffusion_rates : formulas of both branches
    cdr = kin.func("compute_diffusion_rates")
    L.append("/-- `compute_diffusion_rates`: statements defining the diffusion constants and the returned pairs -/")
    L.append("def pyDiffStmts : List String := %s" % strs(_need(_stmt_texts(
        kin, cdr, lambda t: re.match(r"(Di|Dj|Di,Dj|Dij|hi|hj|h|k|kf|kr|Vi|Vj|volumes|surface|distance|src_state_index|dst_state_index)=", t) or t.startswith("return(")),
        "kinetics.py:compute_diffusion_rates statements")))
    tests = []
    for st in _stmts(cdr):
        if isinstance(st, ast.If):
            t = _norm(kin, st.test)
            if "Di" in t or "get_edge" in t or "are_neighbors" in t:
                tests.append(t)
    L.append("def pyDiffTests : List String := %s" % strs(_need(tests, "kinetics.py:compute_diffusion_rates tests")))
    # ---- compute_dstatedt loop order
    cds = kin.func("compute_dstatedt")
    loops = [(_norm(kin, st.target), _norm(kin, st.iter)) for st in _stmts(cds) if isinstance(st, ast.For)]
    L.append("/-- `compute_dstatedt`: nesting of the loops (outer first) and the appended call -/")
    L.append("def pyDstateLoops : List (String × String) := %s" % lean_list(["(%s, %s)" % (lean_str(a), lean_str(b)) for a, b in _need(loops, "compute_dstatedt loops")]))
    L.append("def pyDstateStmts : List String := %s\n" % strs(_need(_stmt_texts(kin, cds, lambda t: "append" in t or t.startswith("return")), "compute_dstatedt statements")))

    # ---- rdnetwork.py : dimensions of rate constants, reaction splitting
    net = PySrc(repo, "src/strengths/rdnetwork.py")
    for fname, tag in (("kf_units_dimensions", "Kf"), ("kr_units_dimensions", "Kr")):
        fn = net.func(fname, "Reaction")
        ret = [st for st in fn.body if isinstance(st, ast.Return)]
        if len(ret) != 1 or not isinstance(ret[0].value, ast.Call) or getattr(ret[0].value.func, "id", "") != "UnitsDimensions":
            raise AnchorLost("rdnetwork.py:Reaction.%s return UnitsDimensions(...)" % fname)
        kw = {k.arg: k.value for k in ret[0].value.keywords}
        if sorted(kw) != ["quantity", "space", "time"]:
            raise AnchorLost("rdnetwork.py:Reaction.%s keywords" % fname)
        counted = [_norm(net, st.iter) for st in fn.body if isinstance(st, ast.For)]
        incr = _stmt_texts(net, fn, lambda t: t.startswith("count"))
        L.append("/-- `Reaction.%s` : exponents as functions of `count`, what is counted -/" % fname)
        for k, nm in (("space", "Space"), ("time", "Time"), ("quantity", "Qty")):
            L.append("def dim%s%s (count : Int) : Int := %s" % (tag, nm, ExprTr(net, {"count": "count"}).tr(kw[k])))
        L.append("def dim%sCounted : List String := %s" % (tag, strs(counted + incr)))
    sp = net.func("split", "Reaction")
    calls = []
    for st in _stmts(sp):
        if isinstance(st, ast.Assign) and isinstance(st.value, ast.Call) and getattr(st.value.func, "id", "") == "Reaction":
            kw = {k.arg: _norm(net, k.value) for k in st.value.keywords}
            calls.append((_norm(net, st.targets[0]), kw.get("stoichiometry", ""), kw.get("kf", ""), kw.get("kr", "")))
    ret = [_norm(net, st) for st in sp.body if isinstance(st, ast.Return)]
    L.append("/-- `Reaction.split`: (name, stoichiometry, kf, kr) of the two constructed reactions, and the return -/")
    L.append("def pySplit : List (String × String × String × String) := %s" %
             lean_list(["(%s, %s, %s, %s)" % tuple(lean_str(x) for x in c) for c in _need(calls, "Reaction.split constructor calls", 2)]))
    L.append("def pySplitReturn : List String := %s" % strs(ret))
    for fname in ("ssto", "psto", "dsto"):
        fn = net.func(fname, "Reaction")
        L.append("def py_%s : String := %s" % (fname, lean_str(_norm(net, fn.body[-1]))))
    L.append("")

    # ---- value_processing.get_value_in_env : order of the look-ups
    vp = PySrc(repo, "src/strengths/value_processing.py")
    gv = vp.func("get_value_in_env")
    seq = []
    for st in _stmts(gv):
        if isinstance(st, ast.If):
            seq.append("if:" + _norm(vp, st.test))
        elif isinstance(st, ast.Return):
            seq.append(_norm(vp, st))
    L.append("/-- `get_value_in_env`: tests and returns in source order -/")
    L.append("def pyGetValueInEnv : List String := %s\n" % strs(_need(seq, "get_value_in_env")))

    # ---- rdsystem.py : make_dxdtf, apply_reaction, get_chemostat
    rds = PySrc(repo, "src/strengths/rdsystem.py")
    mk = rds.func("make_dxdtf", "RDSystem")
    L.append("/-- `RDSystem.make_dxdtf`: simple statements in source order (outer function and the returned closure) -/")
    L.append("def pyDxdtfStmts : List String := %s" % strs(_need(_stmt_texts(rds, mk, lambda t: True), "make_dxdtf statements")))
    L.append("def pyDxdtfLoops : List (String × String) := %s" % lean_list(
        ["(%s, %s)" % (lean_str(_norm(rds, st.target)), lean_str(_norm(rds, st.iter))) for st in _stmts(mk) if isinstance(st, ast.For)]))
    for dfn in [n for n in ast.walk(mk) if isinstance(n, ast.FunctionDef) and n is not mk]:
        L.append("def pyDxdtfInner_%s : List String := %s" % (dfn.name, strs(_stmt_texts(rds, dfn, lambda t: True))))
        L.append("def pyDxdtfInnerLoops_%s : List (String × String) := %s" % (dfn.name, lean_list(
            ["(%s, %s)" % (lean_str(_norm(rds, st.target)), lean_str(_norm(rds, st.iter))) for st in _stmts(dfn) if isinstance(st, ast.For)])))
    ar = rds.func("apply_reaction", "RDSystem")
    loop = [st for st in _stmts(ar) if isinstance(st, ast.For)]
    _need(loop, "apply_reaction loop", 1)
    body = []
    for st in _stmts(loop[0]):
        body.append(("if:" + _norm(rds, st.test)) if isinstance(st, ast.If) else _norm(rds, st))
    L.append("/-- `RDSystem.apply_reaction`: the applying loop (iterator, then statements / tests in order) and the `dx` definition -/")
    L.append("def pyApplyLoop : List String := %s" % strs([_norm(rds, loop[0].target) + " in " + _norm(rds, loop[0].iter)] + body))
    L.append("def pyApplyDx : List String := %s" % strs(_need(_stmt_texts(rds, ar, lambda t: t.startswith("dx=") or t.startswith("r=")), "apply_reaction dx")))
    gc = rds.func("get_chemostat", "RDSystem")
    L.append("def pyGetChemostat : List String := %s" % strs(_stmt_texts(rds, gc, lambda t: True)))
    sc = rds.func("set_chemostat", "RDSystem")
    L.append("def pySetChemostat : List String := %s\n" % strs(_stmt_texts(rds, sc, lambda t: True)))

    # ---- librdengine.py : marshalling subscripts and loop orders
    lre = PySrc(repo, "src/strengths/librdengine.py")

    def store_formula(fname, arr, names):
        fn = lre.func(fname)
        for st in _stmts(fn):
            if isinstance(st, ast.Assign) and isinstance(st.targets[0], ast.Subscript) and _norm(lre, st.targets[0].value) == arr:
                loops = [(_norm(lre, f.target), _norm(lre, f.iter)) for f in _stmts(fn) if isinstance(f, ast.For)]
                return ExprTr(lre, names).tr(st.targets[0].slice), _norm(lre, st.value), loops
        raise AnchorLost("librdengine.py:%s store into %s[...]" % (fname, arr))
    nm = {"n_reactions": "nr", "n_env": "ne", "s": "s", "r": "r", "e": "e"}
    f_sub, v_sub, l_sub = store_formula("build_substrate_stoechiometric_matrix", "sub", nm)
    f_sto, v_sto, l_sto = store_formula("build_stoechiometric_difference_matrix", "sto", nm)
    f_d, v_d, l_d = store_formula("build_diff_coef_environment_matrix", "D", nm)
    L.append("/-- `build_*_matrix`: index written, value stored, loops (outer first) -/")
    L.append("def pySubIndex (nr s r : Int) : Int := %s" % f_sub)
    L.append("def pyStoIndex (nr s r : Int) : Int := %s" % f_sto)
    L.append("def pyDIndex (ne s e : Int) : Int := %s" % f_d)
    L.append("def pySubValue : String := %s" % lean_str(v_sub))
    L.append("def pyStoValue : String := %s" % lean_str(v_sto))
    L.append("def pyDValue : String := %s" % lean_str(v_d))

    def loops_lean(l):
        return lean_list(["(%s, %s)" % (lean_str(a), lean_str(b)) for a, b in l])
    L.append("def pySubLoops : List (String × String) := %s" % loops_lean(l_sub))
    L.append("def pyStoLoops : List (String × String) := %s" % loops_lean(l_sto))
    L.append("def pyDLoops : List (String × String) := %s" % loops_lean(l_d))
    bk = lre.func("build_reaction_rate_constant_matrix")
    l_k = [(_norm(lre, f.target), _norm(lre, f.iter)) for f in _stmts(bk) if isinstance(f, ast.For)]
    app = _stmt_texts(lre, bk, lambda t: t.startswith("km.append") or t.startswith("km=") or t.startswith("returnkm"))
    L.append("/-- `build_reaction_rate_constant_matrix`: loops (outer first; the list is appended to, so position = e*nr + r) -/")
    L.append("def pyKLoops : List (String × String) := %s" % loops_lean(_need(l_k, "build_reaction_rate_constant_matrix loops", 2)))
    L.append("def pyKStmts : List String := %s" % strs(_need(app, "build_reaction_rate_constant_matrix statements")))
    su = lre.func("setup", "LibRDEngine")
    L.append("/-- `LibRDEngine.setup`: the reaction splitting loop and the engine units system -/")
    L.append("def pySetupStmts : List String := %s" % strs(_need(_stmt_texts(
        lre, su, lambda t: t.startswith("rf,rr=") or t.startswith("reactions") or t.startswith("units_system") or t.startswith("self._units_system")),
        "LibRDEngine.setup statements")))
    for fname in ("_setup_grid", "_setup_graph"):
        fn = lre.func(fname, "LibRDEngine")
        call = None
        for n in ast.walk(fn):
            if isinstance(n, ast.Call) and _norm(lre, n.func).startswith("self._lib.engineexport_initialize"):
                call = n
        if call is None:
            raise AnchorLost("librdengine.py:%s engineexport_initialize call" % fname)
        L.append("/-- `%s`: the arguments handed to the native initialiser, in order -/" % fname)
        L.append("def pyArgs%s : List String := %s" % (fname, strs([_norm(lre, a) for a in call.args])))
    for fname in ("_get_data", "_get_t_sample"):
        fn = lre.func(fname, "LibRDEngine")
        ret = [st for st in fn.body if isinstance(st, ast.Return)]
        L.append("def pyRet%s : String := %s" % (fname, lean_str(_norm(lre, ret[-1]) if ret else "")))
    L.append("\nend Strengths.Gen")
    return "\n".join(L) + "\n"


# =============================================================================================
# C18 : the text pipeline of units.py (parse_units pre/post-processing, parse_unitvalue,
#       Units.__str__, UnitValue.__str__, Units.__eq__)
# =============================================================================================
@group
def gen_UnitsText(repo):
    units = PySrc(repo, "src/strengths/units.py")

    def norm(node):
        return re.sub(r"\s+", "", units.seg(node))

    # ------------------------------------------------------------------ parse_units
    pu = units.func("parse_units")
    top = [n for n in pu.body]
    # order of the top-level preprocessing statements: replace chain, strip, empty test, whitespace guard
    idx_strip = idx_empty = idx_guard = idx_loop = None
    for i, n in enumerate(top):
        if isinstance(n, ast.Assign) and norm(n) == "s=s.strip()":
            idx_strip = i
        if isinstance(n, ast.If) and norm(n.test) == 's==""' and any(isinstance(b, ast.Return) for b in n.body):
            idx_empty = i
        if isinstance(n, ast.If) and norm(n.test) == "any(c.isspace()forcins)" and any(isinstance(b, ast.Raise) for b in n.body):
            idx_guard = i
        if isinstance(n, ast.For) and norm(n.iter) == "s" and idx_loop is None:
            idx_loop = i
    if idx_strip is None or idx_empty is None or idx_loop is None:
        raise AnchorLost("units.py:parse_units strip / empty test / character loop")
    if not (idx_strip < idx_empty < idx_loop):
        raise AnchorLost("units.py:parse_units order of strip, empty test, character loop")
    guard = idx_guard is not None and idx_empty < idx_guard < idx_loop
    if idx_guard is not None and not guard:
        raise AnchorLost("units.py:parse_units whitespace guard position")
    # replace chain must come before the strip
    for i, n in enumerate(top):
        if isinstance(n, ast.Assign) and isinstance(n.value, ast.Call) and isinstance(n.value.func, ast.Attribute) \
                and n.value.func.attr == "replace" and i > idx_strip:
            raise AnchorLost("units.py:parse_units replace after strip")
    # first block
    first_sep = None
    for n in top:
        if isinstance(n, ast.Assign) and norm(n.targets[0]) == "blocks" and isinstance(n.value, ast.List) \
                and len(n.value.elts) == 1 and isinstance(n.value.elts[0], ast.List):
            e = n.value.elts[0].elts
            if len(e) == 3 and const_str(e[1]) == "" and const_str(e[2]) == "":
                first_sep = const_str(e[0])
    if first_sep is None or len(first_sep) != 1:
        raise AnchorLost("units.py:parse_units initial block")
    # second pass over the blocks: default exponent, reader, negation separator
    dflt_exp = reader = neg_sep = None
    for n in top:
        if isinstance(n, ast.For) and norm(n.iter) == "blocks" and norm(n.target) == "b":
            for st in n.body:
                if isinstance(st, ast.If) and norm(st.test) == 'b[2]==""' and len(st.body) == 1 \
                        and isinstance(st.body[0], ast.Assign) and norm(st.body[0].targets[0]) == "b[2]":
                    dflt_exp = const_str(st.body[0].value)
                if isinstance(st, ast.Assign) and norm(st.targets[0]) == "b[2]" and isinstance(st.value, ast.Call) \
                        and isinstance(st.value.func, ast.Name) and norm(st.value.args[0]) == "b[2]" and len(st.value.args) == 1:
                    reader = st.value.func.id
                if isinstance(st, ast.If) and isinstance(st.test, ast.Compare) and norm(st.test.left) == "b[0]" \
                        and isinstance(st.test.ops[0], ast.Eq) and len(st.body) == 1 and norm(st.body[0]) == "b[2]=-b[2]":
                    neg_sep = const_str(st.test.comparators[0])
            if reader is not None:
                break
    if dflt_exp is None or reader is None or neg_sep is None or len(neg_sep) != 1:
        raise AnchorLost("units.py:parse_units exponent pass (default exponent / int() / '/' negation)")
    # addunit: same-base consistency test
    au = units.nested_func(pu, "addunit")
    au_test = None
    for n in au.body:
        if isinstance(n, ast.If):
            au_test = norm(n.test)
            au_else_raises = any(isinstance(b, ast.Raise) for b in n.orelse)
    if au_test is None:
        raise AnchorLost("units.py:parse_units.addunit test")
    # unknown unit: `if unittype == None: raise`
    unk = False
    for n in ast.walk(pu):
        if isinstance(n, ast.If) and norm(n.test) == "unittype==None" and any(isinstance(b, ast.Raise) for b in n.body):
            unk = True

    # ------------------------------------------------------------------ parse_unitvalue
    pv = units.func("parse_unitvalue")
    strips = any(isinstance(n, ast.Assign) and norm(n) == "s=s.strip()" for n in pv.body)
    splitter = None
    for n in pv.body:
        if isinstance(n, ast.Assign) and norm(n.targets[0]) == "tok":
            splitter = norm(n.value)
    if splitter is None:
        raise AnchorLost("units.py:parse_unitvalue tok = s.split()")
    value_reader = join = empty_value = empty_units = None
    units_arg = None
    for n in ast.walk(pv):
        if isinstance(n, ast.Assign) and norm(n.targets[0]) == "value" and isinstance(n.value, ast.Call) \
                and isinstance(n.value.func, ast.Name) and len(n.value.args) == 1:
            value_reader = "%s(%s)" % (n.value.func.id, norm(n.value.args[0]))
        if isinstance(n, ast.Assign) and norm(n.targets[0]) == "value" and isinstance(n.value, ast.Constant):
            empty_value = const_number(units, n.value, {})
        if isinstance(n, ast.Assign) and norm(n.targets[0]) == "us":
            v = n.value
            if isinstance(v, ast.Call) and isinstance(v.func, ast.Attribute) and v.func.attr == "join" \
                    and len(v.args) == 1 and norm(v.args[0]) == "tok[1:]":
                join = const_str(v.func.value)
        if isinstance(n, ast.AugAssign) and norm(n.target) == "us" and isinstance(n.op, ast.Add) and norm(n.value) == "tok[i]" \
                and join is None:
            join = ""    # token concatenation loop (`us += tok[i]`)
        if isinstance(n, ast.Assign) and norm(n.targets[0]) == "units" and isinstance(n.value, ast.Call) \
                and norm(n.value.func) == "parse_units" and len(n.value.args) == 1:
            a = n.value.args[0]
            if isinstance(a, ast.Constant):
                empty_units = const_str(a)
            else:
                units_arg = norm(a)
    if value_reader is None or join is None or empty_value is None or empty_units is None or units_arg is None:
        raise AnchorLost("units.py:parse_unitvalue value / join / empty case")

    # ------------------------------------------------------------------ Units.__str__ / UnitValue.__str__ / Units.__eq__
    us = units.func("__str__", "Units")
    skip = bare = sep = None
    keys = None
    for n in ast.walk(us):
        if isinstance(n, ast.For) and norm(n.iter) == "self.sys.keys()":
            keys = "self.sys.keys()"
        if isinstance(n, ast.If) and isinstance(n.test, ast.Compare) and norm(n.test.left) == "self.dim[k]" \
                and isinstance(n.test.ops[0], ast.NotEq):
            val = const_number(units, n.test.comparators[0], {})
            inner = [b for b in n.body if isinstance(b, ast.If)]
            if inner:
                skip = val
            else:
                bare = val
                if not (len(n.body) == 1 and norm(n.body[0]) == "s.append(self.sys[k]+str(self.dim[k]))"
                        and len(n.orelse) == 1 and norm(n.orelse[0]) == "s.append(self.sys[k])"):
                    raise AnchorLost("units.py:Units.__str__ append statements")
        if isinstance(n, ast.AugAssign) and norm(n.target) == "out" and isinstance(n.value, ast.Constant):
            sep = const_str(n.value)
    if skip is None or bare is None or sep is None or keys is None:
        raise AnchorLost("units.py:Units.__str__ structure")
    kf = units.func("keys", "_UnitsComponentDict")
    key_list = None
    for n in ast.walk(kf):
        if isinstance(n, ast.Return):
            key_list = str_list(n.value)
    if key_list is None:
        raise AnchorLost("units.py:_UnitsComponentDict.keys")
    vs = units.func("__str__", "UnitValue")
    vsep = None
    for n in ast.walk(vs):
        if isinstance(n, ast.Return):
            m = re.fullmatch(r'str\(self\.value\)\+("[^"]*")\+self\.units\.__str__\(\)', norm(n.value))
            if m:
                vsep = ast.literal_eval(m.group(1))
            # note: a blank inside the literal survives `norm` only if quoted text is kept; re-read from the AST
            if isinstance(n.value, ast.BinOp) and isinstance(n.value.left, ast.BinOp) \
                    and isinstance(n.value.left.right, ast.Constant) and isinstance(n.value.left.right.value, str) \
                    and norm(n.value.left.left) == "str(self.value)" and norm(n.value.right) == "self.units.__str__()":
                vsep = n.value.left.right.value
    if vsep is None:
        raise AnchorLost("units.py:UnitValue.__str__ return")
    ue = units.func("__eq__", "Units")
    eq_keys, eq_tests = None, []
    for n in ast.walk(ue):
        if isinstance(n, ast.For) and isinstance(n.iter, (ast.List, ast.Tuple)):
            eq_keys = str_list(n.iter)
            for st in n.body:
                if isinstance(st, ast.If) and len(st.body) == 1 and norm(st.body[0]) == "returnFalse":
                    eq_tests.append(norm(st.test))
    if eq_keys is None or not eq_tests:
        raise AnchorLost("units.py:Units.__eq__ loop")

    L = []
    L.append("namespace Strengths.Gen\n")
    L.append("/-- `parse_units`: the replace chain, then `s = s.strip()`, then `if s == \"\": return` default units,")
    L.append("then (when present) `if any(c.isspace() for c in s): raise`, then the character loop -/")
    L.append("def puRejectsInnerBlank : Bool := %s" % ("true" if guard else "false"))
    L.append("def puFirstBlockSep : Char := '%s'" % first_sep)
    L.append("/-- exponent pass: `if b[2] == \"\": b[2] = <default>`, `b[2] = <reader>(b[2])`, `if b[0] == <sep>: b[2] = -b[2]` -/")
    L.append("def puDefaultExp : String := %s" % lean_str(dflt_exp))
    L.append("def puExpReader : String := %s" % lean_str(reader))
    L.append("def puNegSep : Char := '%s'" % neg_sep)
    L.append("/-- `addunit`: accept test, and whether the else branch raises -/")
    L.append("def puAddUnitTest : String := %s" % lean_str(au_test))
    L.append("def puAddUnitElseRaises : Bool := %s" % ("true" if au_else_raises else "false"))
    L.append("def puUnknownUnitRaises : Bool := %s\n" % ("true" if unk else "false"))
    L.append("/-- `parse_unitvalue` -/")
    L.append("def uvStrips : Bool := %s" % ("true" if strips else "false"))
    L.append("def uvSplitter : String := %s" % lean_str(splitter))
    L.append("def uvValueReader : String := %s" % lean_str(value_reader))
    L.append("def uvUnitTokJoin : String := %s" % lean_str(join))
    L.append("def uvUnitsArg : String := %s" % lean_str(units_arg))
    L.append("def uvEmptyValue : Rat := %s" % lean_rat(empty_value))
    L.append("def uvEmptyUnits : String := %s\n" % lean_str(empty_units))
    L.append("/-- `Units.__str__`: skip exponent, bare-symbol exponent, separator, key order -/")
    L.append("def strSkipExp : Int := %d" % int(skip))
    L.append("def strBareExp : Int := %d" % int(bare))
    L.append("def strSep : String := %s" % lean_str(sep))
    L.append("def strKeys : List String := %s" % lean_list([lean_str(k) for k in key_list]))
    L.append("/-- `UnitValue.__str__` = str(value) + <sep> + str(units) -/")
    L.append("def uvStrSep : String := %s\n" % lean_str(vsep))
    L.append("/-- `Units.__eq__`: keys of the loop and the tests that return False -/")
    L.append("def unitsEqKeys : List String := %s" % lean_list([lean_str(k) for k in eq_keys]))
    L.append("def unitsEqTests : List String := %s" % lean_list([lean_str(k) for k in eq_tests]))
    L.append("\nend Strengths.Gen")
    return "\n".join(L) + "\n"


# =============================================================================================
# UnitsOps : operator wiring of UnitValue / UnitArray (C05) — normalised source text, no evaluation
# =============================================================================================
@group
def gen_UnitsOps(repo):
    units = PySrc(repo, "src/strengths/units.py")

    def norm(node):
        txt = re.sub(r"\s+", "", units.seg(node))
        return re.sub(r"\"[^\"]*\"|'[^']*'", '""', txt)

    def stmt(s):
        if isinstance(s, ast.Expr) and isinstance(s.value, ast.Constant) and isinstance(s.value.value, str):
            return None   # docstring
        if isinstance(s, ast.Return):
            return "return " + (norm(s.value) if s.value is not None else "")
        if isinstance(s, ast.Raise):
            e = s.exc
            name = e.func.id if isinstance(e, ast.Call) and isinstance(e.func, ast.Name) else (e.id if isinstance(e, ast.Name) else None)
            if name is None:
                raise AnchorLost("units.py: raise of an unexpected form: " + units.seg(s)[:60])
            return "raise " + name
        if isinstance(s, ast.If):
            out = "if " + norm(s.test) + ":{" + body(s.body) + "}"
            if s.orelse:
                out += "else:{" + body(s.orelse) + "}"
            return out
        if isinstance(s, (ast.Assign, ast.AugAssign)):
            return norm(s)
        if isinstance(s, ast.For):
            return "for " + norm(s.target) + " in " + norm(s.iter) + ":{" + body(s.body) + "}"
        raise AnchorLost("units.py: statement outside the normalised subset: " + units.seg(s)[:60])

    def body(stmts):
        return ";".join(x for x in (stmt(s) for s in stmts) if x is not None)

    def branches(fn):
        """the top-level if/elif/else chain of a method: [(test, body)]; other statements: ("", stmt)"""
        out = []
        for s in fn.body:
            if isinstance(s, ast.If):
                node = s
                while True:
                    out.append((norm(node.test), body(node.body)))
                    if len(node.orelse) == 1 and isinstance(node.orelse[0], ast.If):
                        node = node.orelse[0]
                    else:
                        if node.orelse:
                            out.append(("else", body(node.orelse)))
                        break
            else:
                t = stmt(s)
                if t is not None:
                    out.append(("", t))
        if not out:
            raise AnchorLost("units.py:%s has no statements" % fn.name)
        return out

    def table(name, rows):
        return "def %s : List (String × String) := %s" % (
            name, lean_list(["(%s, %s)" % (lean_str(a), lean_str(b)) for a, b in rows]))

    L = ["namespace Strengths.Gen\n"]
    dunders = ["__add__", "__radd__", "__sub__", "__rsub__", "__mul__", "__rmul__", "__truediv__", "__rtruediv__",
               "__mod__", "__rmod__", "__neg__", "__abs__", "invert"]
    for cls, pre in (("UnitValue", "uval"), ("UnitArray", "uarr")):
        rows = []
        for m in dunders:
            fn = units.func(m, cls=cls)
            b = branches(fn)
            if len(b) != 1 or b[0][0] != "" or not b[0][1].startswith("return "):
                raise AnchorLost("units.py:%s.%s is not a single return" % (cls, m))
            rows.append((m, b[0][1][len("return "):]))
        L.append("/-- `%s`: the return expression of every operator method (whitespace removed) -/" % cls)
        L.append(table(pre + "Wiring", rows))
        for m in ("_sum", "_product", "_modulo", "_rmodulo"):
            L.append("/-- `%s.%s`: (test, normalised body) per branch -/" % (cls, m))
            L.append(table(pre + m, branches(units.func(m, cls=cls))))
        for m in ("__pow__", "__rpow__"):
            L.append(table(pre + m.strip("_").capitalize(), branches(units.func(m, cls=cls))))
        # comparison methods the class defines (Python derives `!=` from `__eq__` only when `__ne__` is absent)
        cdef = None
        for n in units.tree.body:
            if isinstance(n, ast.ClassDef) and n.name == cls:
                cdef = n
        names = [f.name for f in cdef.body if isinstance(f, ast.FunctionDef)
                 and f.name in ("__eq__", "__ne__", "__neq__", "__gt__", "__ge__", "__lt__", "__le__")]
        L.append("def %sCmpMethods : List String := %s" % (pre, lean_list([lean_str(x) for x in names])))
        L.append("")
    for m in ("__eq__", "__gt__", "__ge__", "__lt__", "__le__"):
        L.append("/-- `UnitValue.%s` -/" % m)
        L.append(table("uvalCmp_" + m.strip("_"), branches(units.func(m, cls="UnitValue"))))
    L.append("")
    for m in ("invert", "multiply", "raiseto"):
        L.append("/-- `Units.%s` -/" % m)
        L.append(table("units_" + m, branches(units.func(m, cls="Units"))))
    for m in ("_neg", "_inv"):
        L.append("/-- module function `%s` -/" % m)
        L.append(table("fn" + m, branches(units.func(m))))
    L.append("\nend Strengths.Gen")
    return "\n".join(L) + "\n"


# =============================================================================================
# Geometry on the Python side (C15): are_neighbors, get_neighbors, the neighbour enumeration of
# kinetics._compute_dspeciesdt_grid, coarsegrain.grid_to_graph, RDGraphSpace.get_edge/get_cell_index
# =============================================================================================
class _ExprTrMin(ExprTr):
    """ExprTr + two-argument `min(a, b)`"""

    def tr(self, n):
        k = self.key(n)
        if k in self.names:
            return self.names[k]
        if isinstance(n, ast.Call) and isinstance(n.func, ast.Name) and n.func.id == "min" and len(n.args) == 2 and not n.keywords:
            return "(min %s %s)" % (self.tr(n.args[0]), self.tr(n.args[1]))
        return ExprTr.tr(self, n)


def _norm(src, node):
    return re.sub(r"\s+", "", src.seg(node))


def _triple(src, node, names, what):
    if not isinstance(node, (ast.Tuple, ast.List)) or len(node.elts) != 3:
        raise AnchorLost(what + ": coordinate triple")
    return "(%s, %s, %s)" % tuple(_ExprTrMin(src, names).tr(e) for e in node.elts)


def _single_call_arg(node, attr):
    """node is `<something>.<attr>(ARG)`: return ARG"""
    if isinstance(node, ast.Call) and isinstance(node.func, ast.Attribute) and node.func.attr == attr and len(node.args) == 1 \
            and not node.keywords:
        return node.args[0]
    return None


@group
def gen_GeomPy(repo):
    grid = PySrc(repo, "src/strengths/rdgridspace.py")
    L = ["namespace Strengths.Gen\n"]
    AX = "xyz"
    SZ = {"x": "self.w", "y": "self.h", "z": "self.d"}

    # ---------------------------------------------------------------- RDGridSpace.are_neighbors
    an = grid.func("are_neighbors", "RDGridSpace")
    guards = 0
    for st in an.body:
        if isinstance(st, ast.If) and re.fullmatch(r"notself\.is_within_bounds\(position[12]\)", _norm(grid, st.test)) \
                and any(isinstance(b, ast.Raise) for b in st.body):
            guards += 1
    coord_src = {}
    for st in an.body:
        if isinstance(st, ast.Assign) and len(st.targets) == 1 and isinstance(st.targets[0], ast.Name) \
                and st.targets[0].id in ("coord1", "coord2"):
            coord_src[st.targets[0].id] = _norm(grid, st.value)
    for k in (1, 2):
        if coord_src.get("coord%d" % k) != "self.get_cell_coordinates(self.get_cell_index(position%d))" % k:
            raise AnchorLost("rdgridspace.py:are_neighbors coord%d assignment" % k)
    dist, wrap = {}, {}
    for st in an.body:
        if isinstance(st, ast.Assign) and len(st.targets) == 1 and isinstance(st.targets[0], ast.Name) \
                and st.targets[0].id in ("dx", "dy", "dz"):
            a = AX.index(st.targets[0].id[1])
            dist[a] = _ExprTrMin(grid, {"coord1[%d]" % a: "p", "coord2[%d]" % a: "q"}).tr(st.value)
        if isinstance(st, ast.If):
            m = re.fullmatch(r'self\._boundary_conditions\["([xyz])"\]=="periodical"', _norm(grid, st.test))
            if m:
                ax = m.group(1)
                if len(st.body) != 1 or st.orelse or not isinstance(st.body[0], ast.Assign) \
                        or _norm(grid, st.body[0].targets[0]) != "d" + ax:
                    raise AnchorLost("rdgridspace.py:are_neighbors periodic branch of axis " + ax)
                wrap[AX.index(ax)] = _ExprTrMin(grid, {"d" + ax: "dd", SZ[ax]: "n"}).tr(st.body[0].value)
    if sorted(dist) != [0, 1, 2] or sorted(wrap) != [0, 1, 2]:
        raise AnchorLost("rdgridspace.py:are_neighbors distance / periodic lines")
    ret = None
    for st in an.body:
        if isinstance(st, ast.Return):
            ret = _ExprTrMin(grid, {"dx": "dx", "dy": "dy", "dz": "dz"}).tr(st.value)
    if ret is None:
        raise AnchorLost("rdgridspace.py:are_neighbors return")
    L.append("/-- `RDGridSpace.are_neighbors`: number of leading `if not self.is_within_bounds(positionK) : raise` guards -/")
    L.append("def areNbrGuards : Nat := %d" % guards)
    for a in range(3):
        L.append("/-- axis %d: `d = abs(coord1[%d] - coord2[%d])` -/" % (a, a, a))
        L.append("def areNbrDist%d (p q : Int) : Int := %s" % (a, dist[a]))
        L.append("/-- axis %d, periodic: new distance from axis size `n` and distance `dd` -/" % a)
        L.append("def areNbrWrap%d (n dd : Int) : Int := %s" % (a, wrap[a]))
    L.append("def areNbrTest (dx dy dz : Int) : Bool := %s\n" % ret)

    # ---------------------------------------------------------------- RDGridSpace.get_neighbors
    gn = grid.func("get_neighbors", "RDGridSpace")
    names = {"x": "x", "y": "y", "z": "z", "self.w": "w", "self.h": "h", "self.d": "d",
             'self._boundary_conditions["x"]=="periodical"': "px",
             'self._boundary_conditions["y"]=="periodical"': "py",
             'self._boundary_conditions["z"]=="periodical"': "pz"}
    pro = [_norm(grid, st) for st in gn.body if isinstance(st, ast.Assign)]
    if pro[:2] != ["i=self.get_cell_index(position)", "x,y,z=self.get_cell_coordinates(i)"]:
        raise AnchorLost("rdgridspace.py:get_neighbors prologue")
    rules = []
    for st in gn.body:
        if isinstance(st, ast.If):
            if st.orelse or len(st.body) != 1 or not isinstance(st.body[0], ast.Expr):
                raise AnchorLost("rdgridspace.py:get_neighbors rule shape")
            arg = _single_call_arg(st.body[0].value, "append")
            inner = _single_call_arg(arg, "get_cell_index") if arg is not None else None
            if inner is None or _norm(grid, st.body[0].value.func) != "neighbors.append":
                raise AnchorLost("rdgridspace.py:get_neighbors rule body")
            rules.append("(%s, %s)" % (_ExprTrMin(grid, names).tr(st.test), _triple(grid, inner, names, "get_neighbors")))
    if not rules:
        raise AnchorLost("rdgridspace.py:get_neighbors rules")
    L.append("/-- `RDGridSpace.get_neighbors`: the `if COND : neighbors.append(self.get_cell_index((a, b, c)))` lines, in order -/")
    L.append("def getNbrRules (w h d : Int) (px py pz : Bool) (x y z : Int) : List (Bool × Int × Int × Int) := [\n  %s]\n"
             % ",\n  ".join(rules))

    # ---------------------------------------------------------------- kinetics._compute_dspeciesdt_grid
    kin = PySrc(repo, "src/strengths/kinetics.py")
    fn = kin.func("_compute_dspeciesdt_grid")
    loop = None
    for st in fn.body:
        if isinstance(st, ast.For) and isinstance(st.target, ast.Name) and st.target.id == "c" and isinstance(st.iter, ast.List):
            loop = st
    if loop is None:
        raise AnchorLost("kinetics.py:_compute_dspeciesdt_grid neighbour loop")
    p_src = None
    for st in fn.body:
        if isinstance(st, ast.Assign) and _norm(kin, st.targets[0]) == "p":
            p_src = _norm(kin, st.value)
    if p_src != "system.space.get_cell_coordinates(system.space.get_cell_index(position))":
        raise AnchorLost("kinetics.py:_compute_dspeciesdt_grid p assignment")
    pn = {"p[0]": "x", "p[1]": "y", "p[2]": "z"}
    deltas = [_triple(kin, e, pn, "kinetics neighbour list") for e in loop.iter.elts]
    ksz = {"x": "system.space.w", "y": "system.space.h", "z": "system.space.d"}
    kcond, kwrap, kguard, kcall = {}, {}, False, None
    for st in loop.body:
        if not isinstance(st, ast.If):
            raise AnchorLost("kinetics.py:_compute_dspeciesdt_grid loop body statement")
        t = _norm(kin, st.test)
        if t == "system.space.is_within_bounds(c)":
            kguard = True
            for b in st.body:
                if isinstance(b, ast.Assign) and isinstance(b.value, ast.Call) and _norm(kin, b.value.func) == "compute_diffusion_rates":
                    kcall = [_norm(kin, a) for a in b.value.args]
            continue
        m = re.search(r'system\.space\._boundary_conditions\["([xyz])"\]', t)
        if not m:
            raise AnchorLost("kinetics.py:_compute_dspeciesdt_grid unexpected condition " + t[:60])
        ax = m.group(1)
        a = AX.index(ax)
        if st.orelse or len(st.body) != 1 or not isinstance(st.body[0], ast.Assign) or _norm(kin, st.body[0].targets[0]) != "c[%d]" % a:
            raise AnchorLost("kinetics.py:_compute_dspeciesdt_grid wrap line of axis " + ax)
        kcond[a] = _ExprTrMin(kin, {'system.space._boundary_conditions["%s"]=="periodical"' % ax: "p", ksz[ax]: "n"}).tr(st.test)
        kwrap[a] = _ExprTrMin(kin, {ksz[ax]: "n", "c[%d]" % a: "c"}).tr(st.body[0].value)
    if sorted(kcond) != [0, 1, 2] or not kguard or kcall is None:
        raise AnchorLost("kinetics.py:_compute_dspeciesdt_grid wrap lines / bounds guard")
    if kcall[:4] != ["system", "species", "p", "c"]:
        raise AnchorLost("kinetics.py:_compute_dspeciesdt_grid compute_diffusion_rates arguments")
    L.append("/-- `_compute_dspeciesdt_grid`: the candidate list `for c in [[p[0]+1, p[1], p[2]], …]` -/")
    L.append("def kinDeltas (x y z : Int) : List (Int × Int × Int) := %s" % lean_list(deltas))
    for a in range(3):
        L.append("/-- axis %d: condition of the wrap line (`p` = axis is periodical, `n` = axis size) and the wrapped coordinate -/" % a)
        L.append("def kinWrapCond%d (p : Bool) (n : Int) : Bool := %s" % (a, kcond[a]))
        L.append("def kinWrap%d (n c : Int) : Int := %s" % (a, kwrap[a]))
    L.append("/-- the candidate is used only `if system.space.is_within_bounds(c)` -/")
    L.append("def kinBoundsGuard : Bool := true\n")
    # compute_diffusion_rates: the neighbour tests
    cdr = kin.func("compute_diffusion_rates")
    tests = []
    for st in cdr.body:
        if isinstance(st, ast.If) and any(isinstance(b, ast.Raise) for b in st.body):
            tests.append(_norm(kin, st.test))
    want = ["type(system.space)==RDGridSpaceandnotsystem.space.are_neighbors(src_position_index,dst_position_index)",
            "type(system.space)==RDGraphSpaceandsystem.space.get_edge(src_position_index,dst_position_index)isNone"]
    L.append("/-- `compute_diffusion_rates`: the two raising neighbour tests (normalised text) -/")
    L.append("def diffRateNbrTests : List String := %s\n" % lean_list([lean_str(t) for t in tests]))

    # ---------------------------------------------------------------- coarsegrain.grid_to_graph
    cg = PySrc(repo, "src/strengths/coarsegrain.py")
    g2g = cg.func("grid_to_graph")
    gnm = {"x": "x", "y": "y", "z": "z", "grid.w": "w", "grid.h": "h", "grid.d": "d"}
    assigns = {}
    for st in g2g.body:
        if isinstance(st, ast.Assign) and isinstance(st.targets[0], ast.Name):
            assigns[st.targets[0].id] = _norm(cg, st.value)
    for k in ("edge_dst", "edge_sfc", "graph"):
        if k not in assigns:
            raise AnchorLost("coarsegrain.py:grid_to_graph assignment to " + k)

    def kwargs(call):
        return [(kw.arg, _norm(cg, kw.value)) for kw in call.keywords]

    def edge_call(stmt, what):
        """stmt: `edges.append(RDGraphSpaceEdge(i=grid.get_cell_index(T1), j=grid.get_cell_index(T2), surface=…, …))`"""
        if not isinstance(stmt, ast.Expr):
            raise AnchorLost(what + ": statement")
        arg = _single_call_arg(stmt.value, "append")
        if arg is None or _norm(cg, stmt.value.func) != "edges.append" or not isinstance(arg, ast.Call) \
                or _norm(cg, arg.func) != "RDGraphSpaceEdge" or arg.args:
            raise AnchorLost(what + ": edges.append(RDGraphSpaceEdge(...))")
        kw = {k.arg: k.value for k in arg.keywords}
        ends = []
        for nm in ("i", "j"):
            t = _single_call_arg(kw.get(nm), "get_cell_index") if nm in kw else None
            if t is None or _norm(cg, kw[nm].func) != "grid.get_cell_index":
                raise AnchorLost(what + ": end " + nm)
            ends.append(_triple(cg, t, gnm, what))
        rest = sorted((k, _norm(cg, v)) for k, v in kw.items() if k not in ("i", "j"))
        return ends, rest

    def loops(st, what):
        """nest of `for v in range(grid.X)`; returns ([(v, bound)], innermost body)"""
        order = []
        while True:
            if not (isinstance(st, ast.For) and isinstance(st.target, ast.Name) and not st.orelse):
                raise AnchorLost(what + ": loop nest")
            b = _single_call_arg(st.iter, "range") if isinstance(st.iter, ast.Call) and isinstance(st.iter.func, ast.Attribute) else None
            if not (isinstance(st.iter, ast.Call) and isinstance(st.iter.func, ast.Name) and st.iter.func.id == "range" and len(st.iter.args) == 1):
                raise AnchorLost(what + ": range loop")
            order.append((st.target.id, _norm(cg, st.iter.args[0])))
            if len(st.body) == 1 and isinstance(st.body[0], ast.For):
                st = st.body[0]
            else:
                return order, st.body

    node_kw, inner_order, inner_rules, edge_rest = None, None, [], set()
    per = {}
    per_order = []
    for st in g2g.body:
        if isinstance(st, ast.For):
            order, body = loops(st, "grid_to_graph")
            if len(order) == 1:   # node loop
                if order != [("i", "grid.size()")] or len(body) != 1:
                    raise AnchorLost("coarsegrain.py:grid_to_graph node loop")
                arg = _single_call_arg(body[0].value, "append") if isinstance(body[0], ast.Expr) else None
                if arg is None or _norm(cg, body[0].value.func) != "nodes.append" or _norm(cg, arg.func) != "RDGraphSpaceNode" or arg.args:
                    raise AnchorLost("coarsegrain.py:grid_to_graph node construction")
                node_kw = kwargs(arg)
            else:
                inner_order = order
                for b in body:
                    if not isinstance(b, ast.If) or b.orelse or len(b.body) != 1:
                        raise AnchorLost("coarsegrain.py:grid_to_graph inner rule shape")
                    ends, rest = edge_call(b.body[0], "grid_to_graph inner edge")
                    edge_rest.add(tuple(rest))
                    inner_rules.append("(%s, %s, %s)" % (_ExprTrMin(cg, gnm).tr(b.test), ends[0], ends[1]))
        elif isinstance(st, ast.If):
            m = re.fullmatch(r'grid\.get_boundary_conditions\(\)\["([xyz])"\]=="periodical"', _norm(cg, st.test))
            if not m or st.orelse or len(st.body) != 1:
                raise AnchorLost("coarsegrain.py:grid_to_graph periodic block")
            order, body = loops(st.body[0], "grid_to_graph periodic block")
            if len(body) != 1:
                raise AnchorLost("coarsegrain.py:grid_to_graph periodic block body")
            ends, rest = edge_call(body[0], "grid_to_graph periodic edge")
            edge_rest.add(tuple(rest))
            per[m.group(1)] = (order, ends)
            per_order.append(m.group(1))
    if node_kw is None or inner_order is None or not inner_rules or sorted(per) != ["x", "y", "z"]:
        raise AnchorLost("coarsegrain.py:grid_to_graph structure")
    if len(edge_rest) != 1:
        raise AnchorLost("coarsegrain.py:grid_to_graph edges do not all use the same surface/distance/units arguments")

    def pairs(l):
        return lean_list(["(%s, %s)" % (lean_str(a), lean_str(b)) for a, b in l])
    L.append("/-- `grid_to_graph`: edge length and face area expressions, node and edge constructor arguments -/")
    L.append("def g2gEdgeDst : String := %s" % lean_str(assigns["edge_dst"]))
    L.append("def g2gEdgeSfc : String := %s" % lean_str(assigns["edge_sfc"]))
    L.append("def g2gNodeArgs : List (String × String) := %s" % pairs(node_kw))
    L.append("def g2gEdgeArgs : List (String × String) := %s" % pairs(list(edge_rest)[0]))
    L.append("def g2gGraphCtor : String := %s" % lean_str(assigns["graph"]))
    L.append("/-- loop nest of the interior edges (outermost first) and its `if COND : edge(i-coords, j-coords)` lines -/")
    L.append("def g2gInnerLoops : List (String × String) := %s" % pairs(inner_order))
    L.append("def g2gInnerRules (w h d x y z : Int) : List (Bool × (Int × Int × Int) × (Int × Int × Int)) := [\n  %s]"
             % ",\n  ".join(inner_rules))
    L.append("/-- the periodic blocks, in source order; per axis: loop nest, i-coords, j-coords -/")
    L.append("def g2gPerOrder : List String := %s" % lean_list([lean_str(a) for a in per_order]))
    for a, ax in enumerate(AX):
        order, ends = per[ax]
        L.append("def g2gPerLoops%d : List (String × String) := %s" % (a, pairs(order)))
        L.append("def g2gPerI%d (w h d x y z : Int) : Int × Int × Int := %s" % (a, ends[0]))
        L.append("def g2gPerJ%d (w h d x y z : Int) : Int × Int × Int := %s" % (a, ends[1]))
    L.append("")

    # ---------------------------------------------------------------- RDGraphSpace.get_edge / get_cell_index
    graph = PySrc(repo, "src/strengths/rdgraphspace.py")
    ge = graph.func("get_edge", "RDGraphSpace")
    em = None
    for st in ge.body:
        if isinstance(st, ast.For) and _norm(graph, st.iter) == "self.edges" and _norm(graph, st.target) == "edge":
            for b in st.body:
                if isinstance(b, ast.If) and any(isinstance(r, ast.Return) and _norm(graph, r.value) == "edge" for r in b.body):
                    em = _ExprTrMin(graph, {"edge.i": "ei", "edge.j": "ej", "i": "i", "j": "j"}).tr(b.test)
    last = ge.body[-1]
    if em is None or not (isinstance(last, ast.Return) and _norm(graph, last.value) == "None"):
        raise AnchorLost("rdgraphspace.py:get_edge loop / final return None")
    L.append("/-- `RDGraphSpace.get_edge`: the first edge satisfying this test is returned, `None` when there is none -/")
    L.append("def edgeMatches (ei ej i j : Int) : Bool := %s" % em)
    gci = graph.func("get_cell_index", "RDGraphSpace")
    bad = None
    for st in gci.body:
        if isinstance(st, ast.If) and any(isinstance(b, ast.Raise) for b in st.body):
            bad = _ExprTrMin(graph, {"cell_index": "p", "self.size()": "size"}).tr(st.test)
    if bad is None:
        raise AnchorLost("rdgraphspace.py:get_cell_index range test")
    L.append("/-- `RDGraphSpace.get_cell_index`: raises when this holds -/")
    L.append("def graphIndexBad (size p : Int) : Bool := %s" % bad)
    L.append("\nend Strengths.Gen")
    return "\n".join(L) + "\n"


# =============================================================================================
# RDSystem defaults and accessors (C13): which units system the default state is expressed in, the fallback chain of
# get_value_in_env, the default density / chemostat values, the wrapping of raw numbers in set_state
# =============================================================================================
@group
def gen_SystemPy(repo):
    rds = PySrc(repo, "src/strengths/rdsystem.py")
    vp = PySrc(repo, "src/strengths/value_processing.py")
    L = ["namespace Strengths.Gen\n"]

    # ---- get_value_in_env: dict -> [environment, "default"] -> default ; else the value itself
    gv = vp.func("get_value_in_env")
    top = gv.body[-1] if isinstance(gv.body[-1], ast.If) else None
    if top is None or _norm(vp, top.test) != "isdict(value)" or len(top.orelse) != 1 or _norm(vp, top.orelse[0]) != "returnvalue":
        raise AnchorLost("value_processing.py:get_value_in_env outer shape")
    chain = []
    node = top.body[0] if len(top.body) == 1 else None
    while isinstance(node, ast.If):
        m = re.fullmatch(r"(.+)inlist\(value\)", _norm(vp, node.test))
        if not m or len(node.body) != 1 or _norm(vp, node.body[0]) != "returnvalue[%s]" % m.group(1):
            raise AnchorLost("value_processing.py:get_value_in_env lookup chain")
        chain.append(m.group(1))
        if len(node.orelse) == 1 and isinstance(node.orelse[0], ast.If):
            node = node.orelse[0]
        else:
            if len(node.orelse) != 1 or _norm(vp, node.orelse[0]) != "returndefault":
                raise AnchorLost("value_processing.py:get_value_in_env final default")
            node = None
    if not chain or chain[0] != "environment":
        raise AnchorLost("value_processing.py:get_value_in_env first lookup")
    fall = []
    for c in chain[1:]:
        if not (c.startswith('"') and c.endswith('"')):
            raise AnchorLost("value_processing.py:get_value_in_env fallback key " + c)
        fall.append(c[1:-1])
    L.append("/-- `get_value_in_env`: keys tried after the environment label itself, in order; then the `default` argument -/")
    L.append("def envFallbackKeys : List String := %s\n" % lean_list([lean_str(c) for c in fall]))

    # ---- generate_species_state
    gss = rds.func("generate_species_state")
    call_ = None
    formula = None
    for n in ast.walk(gss):
        if isinstance(n, ast.Call) and _norm(rds, n.func) == "valproc.get_value_in_env":
            call_ = {k.arg: k.value for k in n.keywords}
        if isinstance(n, ast.Assign) and _norm(rds, n.targets[0]) == "state[i]":
            formula = _norm(rds, n.value)
    if call_ is None or sorted(call_) != ["default", "environment", "value"]:
        raise AnchorLost("rdsystem.py:generate_species_state get_value_in_env call")
    if _norm(rds, call_["value"]) != "species.density" or _norm(rds, call_["environment"]) != "network.environments[cell_env[i]]":
        raise AnchorLost("rdsystem.py:generate_species_state value / environment arguments")
    dflt = call_["default"]
    if not (isinstance(dflt, ast.Call) and _norm(rds, dflt.func) == "UnitValue" and len(dflt.args) == 2):
        raise AnchorLost("rdsystem.py:generate_species_state default density")
    dval = const_number(rds, dflt.args[0], {})
    dunit = const_str(dflt.args[1])
    ret = _norm(rds, gss.body[-1].value) if isinstance(gss.body[-1], ast.Return) else None
    if formula is None or ret is None:
        raise AnchorLost("rdsystem.py:generate_species_state entry formula / return")
    L.append("/-- `generate_species_state`: default density, entry formula, returned array (normalised source text) -/")
    L.append("def defaultDensityValue : Rat := %s" % lean_rat(dval))
    L.append("def defaultDensityUnit : String := %s" % lean_str(dunit))
    L.append("def speciesStateEntry : String := %s" % lean_str(formula))
    L.append("def speciesStateReturn : String := %s\n" % lean_str(ret))

    # ---- generate_species_chemostats
    gsc = rds.func("generate_species_chemostats")
    call_, entry = None, None
    for n in ast.walk(gsc):
        if isinstance(n, ast.Call) and _norm(rds, n.func) == "valproc.get_value_in_env":
            call_ = {k.arg: k.value for k in n.keywords}
        if isinstance(n, ast.Assign) and _norm(rds, n.targets[0]) == "chstt[i]":
            entry = _norm(rds, n.value)
    if call_ is None or _norm(rds, call_.get("value")) != "species.chstt" \
            or _norm(rds, call_.get("environment")) != "network.environments[cell_env[i]]" or entry is None:
        raise AnchorLost("rdsystem.py:generate_species_chemostats")
    L.append("/-- `generate_species_chemostats`: default flag and entry conversion -/")
    L.append("def defaultChemostatValue : Int := (%d : Int)" % int(const_number(rds, call_["default"], {})))
    L.append("def speciesChemEntry : String := %s\n" % lean_str(entry))

    # ---- generate_system_state / chemostats: per species, default branch, concatenation order
    def concat_of(fn, what):
        loop = None
        for st in fn.body:
            if isinstance(st, ast.For) and _norm(rds, st.iter) == "network.species":
                loop = st
        if loop is None or len(loop.body) != 1 or not isinstance(loop.body[0], ast.If):
            raise AnchorLost("rdsystem.py:%s species loop" % what)
        return [_norm(rds, s) for s in loop.body[0].orelse]
    L.append("/-- `generate_system_state` / `generate_system_chemostats`: the default branch of the per-species loop -/")
    L.append("def systemStateDefaultBranch : List String := %s" % lean_list([lean_str(x) for x in concat_of(rds.func("generate_system_state"), "generate_system_state")]))
    L.append("def systemChemDefaultBranch : List String := %s\n" % lean_list([lean_str(x) for x in concat_of(rds.func("generate_system_chemostats"), "generate_system_chemostats")]))

    # ---- RDSystem.set_default_state / set_default_chemostats / set_state / set_chemostat / getters
    def body_text(name):
        fn = rds.func(name, "RDSystem")
        return [_norm(rds, s) for s in fn.body if not (isinstance(s, ast.Expr) and isinstance(s.value, ast.Constant))]
    sds = body_text("set_default_state")
    m = re.fullmatch(r"self\._state=generate_system_state\(self\.network,self\.space,(self\.[a-z_.]+),override_species_state_dict\)", sds[0]) if len(sds) == 1 else None
    if not m:
        raise AnchorLost("rdsystem.py:RDSystem.set_default_state")
    L.append("/-- `set_default_state`: the units system the default state is expressed in -/")
    L.append("def defaultStateUnitsSource : String := %s" % lean_str(m.group(1)))
    L.append("def setDefaultChemostatsBody : List String := %s" % lean_list([lean_str(x) for x in body_text("set_default_chemostats")]))
    L.append("def setStateBody : List String := %s" % lean_list([lean_str(x) for x in body_text("set_state")]))
    L.append("def setChemostatBody : List String := %s" % lean_list([lean_str(x) for x in body_text("set_chemostat")]))
    L.append("def getStateBody : List String := %s" % lean_list([lean_str(x) for x in body_text("get_state")]))
    L.append("def getChemostatBody : List String := %s" % lean_list([lean_str(x) for x in body_text("get_chemostat")]))
    L.append("def getStateIndexBody : List String := %s" % lean_list([lean_str(x) for x in body_text("get_state_index")]))
    # ---- RDSystem.space setter: validation of the space's environment map against the network (absent in older trees)
    bad = None
    for n in rds.tree.body:
        if isinstance(n, ast.ClassDef) and n.name == "RDSystem":
            for fn in n.body:
                if isinstance(fn, ast.FunctionDef) and fn.name == "space" and len(fn.args.args) == 2:
                    for st in fn.body:
                        if isinstance(st, ast.For) and _norm(rds, st.iter) == "v.get_cell_env_array()" and _norm(rds, st.target) == "e":
                            for b in st.body:
                                if isinstance(b, ast.If) and any(isinstance(r, ast.Raise) for r in b.body):
                                    bad = _ExprTrMin(rds, {"int(e)": "e", "self.network.nenvironments()": "nenv"}).tr(b.test)
    L.append("/-- `RDSystem.space` setter: a cell environment index for which this holds is rejected (`false` = no validation) -/")
    L.append("def spaceEnvBad (nenv e : Int) : Bool := %s" % (bad if bad is not None else "false"))
    L.append("\nend Strengths.Gen")
    return "\n".join(L) + "\n"
