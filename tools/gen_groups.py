"""Generation groups of the translator (one Lean file per group).  See DESIGN.md §5.1 (G1..G8)."""
import ast, os, re
from fractions import Fraction
from trlib import (AnchorLost, PySrc, ExprTr, CppExpr, const_number, const_str, str_list, lean_str,
                   lean_rat, lean_list, group, cpp_function_body, strip_cpp_comments)

ENGINE_SRC = "src/strengths/engines/strengths_engine/src"


# =============================================================================================
# G1 + G2 : unit tables, scales, defaults, derived-unit decomposition, u->µ substitutions
# =============================================================================================
@group
def gen_Units(repo):
    consts = PySrc(repo, "src/strengths/constants.py")
    fn = consts.func("avogadro_number")
    avo = None
    for n in ast.walk(fn):
        if isinstance(n, ast.Return):
            avo = const_number(consts, n.value, {})
    if avo is None:
        raise AnchorLost("constants.py:avogadro_number return literal")
    units = PySrc(repo, "src/strengths/units.py")
    env = {"avogadro_number": avo}

    labels = units.toplevel_assign("_units_labels_dict")
    if not isinstance(labels, ast.Dict):
        raise AnchorLost("units.py:_units_labels_dict literal")
    lab = {const_str(k): str_list(v) for k, v in zip(labels.keys, labels.values)}
    for k in ("space", "time", "quantity", "density", "volume"):
        if k not in lab:
            raise AnchorLost("units.py:_units_labels_dict[%s]" % k)
    label_key_order = [const_str(k) for k in labels.keys]

    conv = units.toplevel_assign("_units_conversion_dict")
    if not isinstance(conv, ast.Dict):
        raise AnchorLost("units.py:_units_conversion_dict literal")
    scale = {}
    for k, v in zip(conv.keys, conv.values):
        if not isinstance(v, ast.Dict):
            raise AnchorLost("units.py:_units_conversion_dict inner literal")
        scale[const_str(k)] = [(const_str(kk), const_number(units, vv, env)) for kk, vv in zip(v.keys, v.values)]
    for k in ("space", "time", "quantity"):
        if k not in scale:
            raise AnchorLost("units.py:_units_conversion_dict[%s]" % k)

    dflt = units.toplevel_assign("_default_units_system_dict")
    dfl = {const_str(k): const_str(v) for k, v in zip(dflt.keys, dflt.values)}

    # compute_conversion_factor: f *= (tbl[k][src[k]] / tbl[k][dst[k]]) ** sdim[k]
    ccf = units.func("compute_conversion_factor")
    ok = False
    for n in ast.walk(ccf):
        if isinstance(n, ast.AugAssign) and isinstance(n.op, ast.Mult):
            txt = re.sub(r"\s+", "", units.seg(n.value))
            if txt == "(_units_conversion_dict[k][su_src[k]]/_units_conversion_dict[k][su_dst[k]])**sdim[k]":
                ok = True
    if not ok:
        raise AnchorLost("units.py:compute_conversion_factor product formula")

    pu = units.func("parse_units")
    # the s.replace(a, b) chain, in order
    subst = []
    for n in pu.body:
        if isinstance(n, ast.Assign) and isinstance(n.value, ast.Call) and isinstance(n.value.func, ast.Attribute) \
                and n.value.func.attr == "replace" and len(n.value.args) == 2:
            subst.append((const_str(n.value.args[0]), const_str(n.value.args[1])))
    if not subst:
        raise AnchorLost("units.py:parse_units replace chain")

    def chain(fname):
        f = units.nested_func(pu, fname)
        out = []
        node = f.body[0]
        while isinstance(node, ast.If):
            t = node.test
            if not (isinstance(t, ast.Compare) and len(t.ops) == 1 and isinstance(t.ops[0], ast.Eq)):
                raise AnchorLost("units.py:parse_units.%s chain test" % fname)
            key = const_str(t.comparators[0])
            ret = node.body[0]
            if not isinstance(ret, ast.Return):
                raise AnchorLost("units.py:parse_units.%s chain return" % fname)
            if isinstance(ret.value, ast.Tuple):
                val = tuple(const_str(e) for e in ret.value.elts)
            else:
                val = (const_str(ret.value),)
            out.append((key, val))
            node = node.orelse[0] if node.orelse else None
        if not out:
            raise AnchorLost("units.py:parse_units.%s chain" % fname)
        return out

    volbase = chain("get_volume_fundamental_unit")
    concbase = chain("get_concentration_fundamental_units")

    # exponent characters and separators in the character loop
    expchars, seps = None, None
    for n in ast.walk(pu):
        if isinstance(n, ast.Compare) and len(n.ops) == 1 and isinstance(n.ops[0], ast.In) \
                and isinstance(n.comparators[0], ast.List) and isinstance(n.left, ast.Name):
            try:
                cand = str_list(n.comparators[0])
            except AnchorLost:
                continue
            if "-" in cand and "0" in cand:
                expchars = cand
        if isinstance(n, ast.BoolOp) and isinstance(n.op, ast.Or):
            try:
                vals = [const_str(v.comparators[0]) for v in n.values
                        if isinstance(v, ast.Compare) and isinstance(v.ops[0], ast.Eq)]
            except AnchorLost:
                continue
            if len(vals) == len(n.values) and all(len(v) == 1 for v in vals) and "." in vals:
                seps = vals
    if expchars is None or seps is None:
        raise AnchorLost("units.py:parse_units exponent chars / separators")
    # multipliers used for derived units in addunit calls: volume -> b[2]*3 ; density -> b[2]*-3 and b[2]
    mults = {}
    for n in ast.walk(pu):
        if isinstance(n, ast.If) and isinstance(n.test, ast.Compare) and isinstance(n.test.left, ast.Name) \
                and n.test.left.id == "unittype" and isinstance(n.test.comparators[0], ast.Constant) \
                and isinstance(n.test.comparators[0].value, str):
            kind = const_str(n.test.comparators[0])
            calls = []
            for c in n.body:
                if isinstance(c, ast.Expr) and isinstance(c.value, ast.Call) and getattr(c.value.func, "id", "") == "addunit":
                    a = c.value.args
                    field = const_str(a[0])
                    e = re.sub(r"\s+", "", units.seg(a[2]))
                    m = re.fullmatch(r"b\[2\](?:\*(-?\d+))?", e)
                    if not m:
                        raise AnchorLost("units.py:parse_units addunit exponent " + e)
                    calls.append((field, int(m.group(1) or 1)))
            mults[kind] = calls
    want = {"space": [("space", 1)], "time": [("time", 1)], "quantity": [("quantity", 1)]}
    for k in ("space", "time", "quantity", "volume", "density"):
        if k not in mults:
            raise AnchorLost("units.py:parse_units addunit branch " + k)

    def pairs(lst):
        return "[" + ", ".join("(%s, %s)" % (lean_str(a), lean_rat(b)) for a, b in lst) + "]"

    L = []
    L.append("namespace Strengths.Gen\n")
    L.append("/-- `constants.avogadro_number()` (exact decimal value of the literal) -/")
    L.append("def avogadro : Rat := %s\n" % lean_rat(avo))
    L.append("/-- key order of `_units_labels_dict` (lookup order of `get_unit_type`) -/")
    L.append("def unitTypeOrder : List String := %s\n" % lean_list([lean_str(k) for k in label_key_order]))
    for k, nm in (("space", "spaceSyms"), ("time", "timeSyms"), ("quantity", "qtySyms"), ("density", "densitySyms"),
                  ("volume", "volumeSyms")):
        L.append("def %s : List String := %s" % (nm, lean_list([lean_str(s) for s in lab[k]])))
    L.append("")
    for k, nm in (("space", "spaceScale"), ("time", "timeScale"), ("quantity", "qtyScale")):
        L.append("def %s : List (String × Rat) := %s" % (nm, pairs(scale[k])))
    L.append("")
    L.append("def defaultSpace : String := %s" % lean_str(dfl["space"]))
    L.append("def defaultTime : String := %s" % lean_str(dfl["time"]))
    L.append("def defaultQty : String := %s\n" % lean_str(dfl["quantity"]))
    L.append("/-- the `s.replace(a, b)` chain at the top of `parse_units`, in order -/")
    L.append("def uSubst : List (String × String) := %s\n" %
             lean_list(["(%s, %s)" % (lean_str(a), lean_str(b)) for a, b in subst]))
    L.append("/-- `get_volume_fundamental_unit` -/")
    L.append("def volBase : List (String × String) := %s" %
             lean_list(["(%s, %s)" % (lean_str(a), lean_str(b[0])) for a, b in volbase]))
    L.append("/-- `get_concentration_fundamental_units` : symbol ↦ (quantity unit, space unit) -/")
    L.append("def concBase : List (String × String × String) := %s\n" %
             lean_list(["(%s, %s, %s)" % (lean_str(a), lean_str(b[0]), lean_str(b[1])) for a, b in concbase]))
    L.append("def expChars : List Char := %s" % lean_list(["'%s'" % c for c in expchars]))
    L.append("def sepChars : List Char := %s\n" % lean_list(["'%s'" % c for c in seps]))
    L.append("/-- exponent multipliers of the `addunit` calls per unit type: (field, multiplier) -/")
    for k in ("space", "time", "quantity", "volume", "density"):
        L.append("def addUnit_%s : List (String × Int) := %s" %
                 (k, lean_list(["(%s, (%d : Int))" % (lean_str(f), m) for f, m in mults[k]])))
    L.append("\nend Strengths.Gen")
    return "\n".join(L) + "\n"
