"""Generation groups of the translator (one Lean file per group).  See DESIGN.md §5.1 (G1..G8)."""
import ast, os, re
from fractions import Fraction
from trlib import (AnchorLost, PySrc, ExprTr, CppExpr, const_number, const_str, str_list, lean_str,
                   lean_rat, lean_list, group, cpp_function_body, strip_cpp_comments)

ENGINE_SRC = "src/strengths/engines/strengths_engine/src"


# =============================================================================================
# G1 + G2 : unit tables, scales, defaults, derived-unit decomposition, u->µ substitutions
# =============================================================================================
@group
def gen_Units(repo):
    consts = PySrc(repo, "src/strengths/constants.py")
    fn = consts.func("avogadro_number")
    avo = None
    for n in ast.walk(fn):
        if isinstance(n, ast.Return):
            avo = const_number(consts, n.value, {})
    if avo is None:
        raise AnchorLost("constants.py:avogadro_number return literal")
    units = PySrc(repo, "src/strengths/units.py")
    env = {"avogadro_number": avo}

    labels = units.toplevel_assign("_units_labels_dict")
    if not isinstance(labels, ast.Dict):
        raise AnchorLost("units.py:_units_labels_dict literal")
    lab = {const_str(k): str_list(v) for k, v in zip(labels.keys, labels.values)}
    for k in ("space", "time", "quantity", "density", "volume"):
        if k not in lab:
            raise AnchorLost("units.py:_units_labels_dict[%s]" % k)
    label_key_order = [const_str(k) for k in labels.keys]

    conv = units.toplevel_assign("_units_conversion_dict")
    if not isinstance(conv, ast.Dict):
        raise AnchorLost("units.py:_units_conversion_dict literal")
    scale = {}
    for k, v in zip(conv.keys, conv.values):
        if not isinstance(v, ast.Dict):
            raise AnchorLost("units.py:_units_conversion_dict inner literal")
        scale[const_str(k)] = [(const_str(kk), const_number(units, vv, env)) for kk, vv in zip(v.keys, v.values)]
    for k in ("space", "time", "quantity"):
        if k not in scale:
            raise AnchorLost("units.py:_units_conversion_dict[%s]" % k)

    dflt = units.toplevel_assign("_default_units_system_dict")
    dfl = {const_str(k): const_str(v) for k, v in zip(dflt.keys, dflt.values)}

    # compute_conversion_factor: f *= (tbl[k][src[k]] / tbl[k][dst[k]]) ** sdim[k]
    ccf = units.func("compute_conversion_factor")
    ok = False
    for n in ast.walk(ccf):
        if isinstance(n, ast.AugAssign) and isinstance(n.op, ast.Mult):
            txt = re.sub(r"\s+", "", units.seg(n.value))
            if txt == "(_units_conversion_dict[k][su_src[k]]/_units_conversion_dict[k][su_dst[k]])**sdim[k]":
                ok = True
    if not ok:
        raise AnchorLost("units.py:compute_conversion_factor product formula")
    # the documented parameter names and order of the two conversion functions, and convert_value's single return
    if [a.arg for a in ccf.args.args] != ["su_src", "su_dst", "sdim"]:
        raise AnchorLost("units.py:compute_conversion_factor parameters (su_src, su_dst, sdim)")
    cv = units.func("convert_value")
    if [a.arg for a in cv.args.args] != ["value", "su_src", "su_dst", "sdim"]:
        raise AnchorLost("units.py:convert_value parameters (value, su_src, su_dst, sdim)")
    rets = [re.sub(r"\s+", "", units.seg(n.value)) for n in ast.walk(cv) if isinstance(n, ast.Return) and n.value is not None]
    if rets != ["value*compute_conversion_factor(su_src,su_dst,sdim)"]:
        raise AnchorLost("units.py:convert_value return value*compute_conversion_factor(su_src,su_dst,sdim)")

    pu = units.func("parse_units")
    # the s.replace(a, b) chain, in order
    subst = []
    for n in pu.body:
        if isinstance(n, ast.Assign) and isinstance(n.value, ast.Call) and isinstance(n.value.func, ast.Attribute) \
                and n.value.func.attr == "replace" and len(n.value.args) == 2:
            subst.append((const_str(n.value.args[0]), const_str(n.value.args[1])))
    if not subst:
        raise AnchorLost("units.py:parse_units replace chain")

    def chain(fname):
        f = units.nested_func(pu, fname)
        out = []
        node = f.body[0]
        while isinstance(node, ast.If):
            t = node.test
            if not (isinstance(t, ast.Compare) and len(t.ops) == 1 and isinstance(t.ops[0], ast.Eq)):
                raise AnchorLost("units.py:parse_units.%s chain test" % fname)
            key = const_str(t.comparators[0])
            ret = node.body[0]
            if not isinstance(ret, ast.Return):
                raise AnchorLost("units.py:parse_units.%s chain return" % fname)
            if isinstance(ret.value, ast.Tuple):
                val = tuple(const_str(e) for e in ret.value.elts)
            else:
                val = (const_str(ret.value),)
            out.append((key, val))
            node = node.orelse[0] if node.orelse else None
        if not out:
            raise AnchorLost("units.py:parse_units.%s chain" % fname)
        return out

    volbase = chain("get_volume_fundamental_unit")
    concbase = chain("get_concentration_fundamental_units")

    # exponent characters and separators in the character loop
    expchars, seps = None, None
    for n in ast.walk(pu):
        if isinstance(n, ast.Compare) and len(n.ops) == 1 and isinstance(n.ops[0], ast.In) \
                and isinstance(n.comparators[0], ast.List) and isinstance(n.left, ast.Name):
            try:
                cand = str_list(n.comparators[0])
            except AnchorLost:
                continue
            if "-" in cand and "0" in cand:
                expchars = cand
        if isinstance(n, ast.BoolOp) and isinstance(n.op, ast.Or):
            try:
                vals = [const_str(v.comparators[0]) for v in n.values
                        if isinstance(v, ast.Compare) and isinstance(v.ops[0], ast.Eq)]
            except AnchorLost:
                continue
            if len(vals) == len(n.values) and all(len(v) == 1 for v in vals) and "." in vals:
                seps = vals
    if expchars is None or seps is None:
        raise AnchorLost("units.py:parse_units exponent chars / separators")
    # multipliers used for derived units in addunit calls: volume -> b[2]*3 ; density -> b[2]*-3 and b[2]
    mults = {}
    for n in ast.walk(pu):
        if isinstance(n, ast.If) and isinstance(n.test, ast.Compare) and isinstance(n.test.left, ast.Name) \
                and n.test.left.id == "unittype" and isinstance(n.test.comparators[0], ast.Constant) \
                and isinstance(n.test.comparators[0].value, str):
            kind = const_str(n.test.comparators[0])
            calls = []
            for c in n.body:
                if isinstance(c, ast.Expr) and isinstance(c.value, ast.Call) and getattr(c.value.func, "id", "") == "addunit":
                    a = c.value.args
                    field = const_str(a[0])
                    e = re.sub(r"\s+", "", units.seg(a[2]))
                    m = re.fullmatch(r"b\[2\](?:\*(-?\d+))?", e)
                    if not m:
                        raise AnchorLost("units.py:parse_units addunit exponent " + e)
                    calls.append((field, int(m.group(1) or 1)))
            mults[kind] = calls
    want = {"space": [("space", 1)], "time": [("time", 1)], "quantity": [("quantity", 1)]}
    for k in ("space", "time", "quantity", "volume", "density"):
        if k not in mults:
            raise AnchorLost("units.py:parse_units addunit branch " + k)

    def pairs(lst):
        return "[" + ", ".join("(%s, %s)" % (lean_str(a), lean_rat(b)) for a, b in lst) + "]"

    L = []
    L.append("namespace Strengths.Gen\n")
    L.append("/-- `constants.avogadro_number()` (exact decimal value of the literal) -/")
    L.append("def avogadro : Rat := %s\n" % lean_rat(avo))
    L.append("/-- key order of `_units_labels_dict` (lookup order of `get_unit_type`) -/")
    L.append("def unitTypeOrder : List String := %s\n" % lean_list([lean_str(k) for k in label_key_order]))
    for k, nm in (("space", "spaceSyms"), ("time", "timeSyms"), ("quantity", "qtySyms"), ("density", "densitySyms"),
                  ("volume", "volumeSyms")):
        L.append("def %s : List String := %s" % (nm, lean_list([lean_str(s) for s in lab[k]])))
    L.append("")
    for k, nm in (("space", "spaceScale"), ("time", "timeScale"), ("quantity", "qtyScale")):
        L.append("def %s : List (String × Rat) := %s" % (nm, pairs(scale[k])))
    L.append("")
    L.append("def defaultSpace : String := %s" % lean_str(dfl["space"]))
    L.append("def defaultTime : String := %s" % lean_str(dfl["time"]))
    L.append("def defaultQty : String := %s\n" % lean_str(dfl["quantity"]))
    L.append("/-- the `s.replace(a, b)` chain at the top of `parse_units`, in order -/")
    L.append("def uSubst : List (String × String) := %s\n" %
             lean_list(["(%s, %s)" % (lean_str(a), lean_str(b)) for a, b in subst]))
    L.append("/-- `get_volume_fundamental_unit` -/")
    L.append("def volBase : List (String × String) := %s" %
             lean_list(["(%s, %s)" % (lean_str(a), lean_str(b[0])) for a, b in volbase]))
    L.append("/-- `get_concentration_fundamental_units` : symbol ↦ (quantity unit, space unit) -/")
    L.append("def concBase : List (String × String × String) := %s\n" %
             lean_list(["(%s, %s, %s)" % (lean_str(a), lean_str(b[0]), lean_str(b[1])) for a, b in concbase]))
    L.append("def expChars : List Char := %s" % lean_list(["'%s'" % c for c in expchars]))
    L.append("def sepChars : List Char := %s\n" % lean_list(["'%s'" % c for c in seps]))
    L.append("/-- exponent multipliers of the `addunit` calls per unit type: (field, multiplier) -/")
    for k in ("space", "time", "quantity", "volume", "density"):
        L.append("def addUnit_%s : List (String × Int) := %s" %
                 (k, lean_list(["(%s, (%d : Int))" % (lean_str(f), m) for f, m in mults[k]])))
    L.append("\nend Strengths.Gen")
    return "\n".join(L) + "\n"


# =============================================================================================
# G5 + G6 (Python side): index formulas and range predicates
# =============================================================================================
def _find_return_in_branch(src, fn, test_pred):
    """the `return` expression inside the first `if/elif` of fn whose test satisfies test_pred (on source text),
    or, when test_pred is None, the last top-level return"""
    def visit_if(node):
        while isinstance(node, ast.If):
            if test_pred is not None and test_pred(re.sub(r"\s+", "", src.seg(node.test))):
                for s in node.body:
                    if isinstance(s, ast.Return):
                        return s.value
            if len(node.orelse) == 1 and isinstance(node.orelse[0], ast.If):
                node = node.orelse[0]
            else:
                if test_pred is not None and test_pred("else"):
                    for s in node.orelse:
                        if isinstance(s, ast.Return):
                            return s.value
                return None
        return None
    for st in fn.body:
        if isinstance(st, ast.If):
            r = visit_if(st)
            if r is not None:
                return r
    if test_pred is None:
        for st in reversed(fn.body):
            if isinstance(st, ast.Return):
                return st.value
    raise AnchorLost("%s:%s return pattern" % (src.rel, fn.name))


def _assign_value(src, fn, name):
    for n in ast.walk(fn):
        if isinstance(n, ast.Assign) and len(n.targets) == 1 and isinstance(n.targets[0], ast.Name) and n.targets[0].id == name:
            return n.value
    raise AnchorLost("%s:%s assignment to %s" % (src.rel, fn.name, name))


@group
def gen_IndexPy(repo):
    grid = PySrc(repo, "src/strengths/rdgridspace.py")
    names_arr = {"position[0]": "x", "position[1]": "y", "position[2]": "z", "self.w": "w", "self.h": "h", "self.d": "d"}
    names_obj = {"position.x": "x", "position.y": "y", "position.z": "z", "self.w": "w", "self.h": "h", "self.d": "d"}
    gci = grid.func("get_cell_index", "RDGridSpace")
    e_arr = _find_return_in_branch(grid, gci, lambda t: t == "isarray(position)")
    e_obj = _find_return_in_branch(grid, gci, lambda t: t == "else")
    e_num = _find_return_in_branch(grid, gci, lambda t: t == "isnumber(position)")
    idx_arr = ExprTr(grid, names_arr).tr(e_arr)
    idx_obj = ExprTr(grid, names_obj).tr(e_obj)
    idx_num = ExprTr(grid, {"position": "p"}).tr(e_num)
    # the guard at the top of get_cell_index / get_cell_coordinates: `if not self.is_within_bounds(..): raise`
    def has_guard(fn, arg):
        for st in fn.body:
            if isinstance(st, ast.If) and re.sub(r"\s+", "", grid.seg(st.test)) == "notself.is_within_bounds(%s)" % arg \
                    and any(isinstance(b, ast.Raise) for b in st.body):
                return True
        return False
    gcc = grid.func("get_cell_coordinates", "RDGridSpace")
    guard_idx = has_guard(gci, "position")
    guard_coord = has_guard(gcc, "cell_index")
    names_c = {"cell_index": "i", "self.w": "w", "self.h": "h", "self.d": "d"}
    cx = ExprTr(grid, names_c).tr(_assign_value(grid, gcc, "x"))
    cy = ExprTr(grid, names_c).tr(_assign_value(grid, gcc, "y"))
    cz = ExprTr(grid, names_c).tr(_assign_value(grid, gcc, "z"))
    iwb = grid.func("is_within_bounds", "RDGridSpace")
    b_num = ExprTr(grid, {"position": "p", "self.size()": "size"}).tr(
        _find_return_in_branch(grid, iwb, lambda t: t == "isnumber(position)"))
    b_arr = ExprTr(grid, names_arr).tr(_find_return_in_branch(grid, iwb, lambda t: t == "isarray(position)"))
    b_obj = ExprTr(grid, names_obj).tr(_find_return_in_branch(grid, iwb, lambda t: t == "else"))
    size = grid.func("size", "RDGridSpace")
    size_e = ExprTr(grid, {"self.w": "w", "self.h": "h", "self.d": "d"}).tr(size.body[-1].value)

    rds = PySrc(repo, "src/strengths/rdsystem.py")
    gsi = rds.func("get_state_index", "RDSystem")
    st_e = ExprTr(rds, {"species_index": "s", "self.space.size()": "n", "cell_index": "c"}).tr(
        _find_return_in_branch(rds, gsi, None))
    ssz = rds.func("state_size", "RDSystem")
    ssz_e = ExprTr(rds, {"self.space.size()": "n", "self.network.nspecies()": "ns"}).tr(ssz.body[-1].value)

    out = PySrc(repo, "src/strengths/rdoutput.py")
    gtp = out.func("get_trajectory_point", "RDTrajectory")
    tp_e = None
    for n in ast.walk(gtp):
        if isinstance(n, ast.Return) and isinstance(n.value, ast.Call) and getattr(n.value.func, "attr", "") == "get_at":
            tp_e = ExprTr(out, {"sample_index": "k", "self.nspecies()": "ns", "self.ncells()": "n", "species_index": "s",
                                "cell_index": "c"}).tr(n.value.args[0])
    if tp_e is None:
        raise AnchorLost("rdoutput.py:get_trajectory_point data.get_at(index)")
    # reshape tuples used by get_trajectory / get_state
    def reshape_args(fn):
        res = []
        for n in ast.walk(fn):
            if isinstance(n, ast.Call) and getattr(n.func, "attr", "") == "reshape" and len(n.args) == 1 and isinstance(n.args[0], ast.Tuple):
                res.append([re.sub(r"\s+", "", out.seg(e)) for e in n.args[0].elts])
        return res
    rs_traj = reshape_args(out.func("get_trajectory", "RDTrajectory"))
    rs_state = reshape_args(out.func("get_state", "RDTrajectory"))
    if not rs_traj or not rs_state:
        raise AnchorLost("rdoutput.py:reshape tuples")

    graph = PySrc(repo, "src/strengths/rdgraphspace.py")
    L = ["namespace Strengths.Gen\n"]
    L.append("/-- `RDGridSpace.size` -/\ndef gridSize (w h d : Int) : Int := %s\n" % size_e)
    L.append("/-- `RDGridSpace.get_cell_index`, tuple/list branch -/\ndef cellIndexArr (w h x y z : Int) : Int := %s" % idx_arr)
    L.append("/-- `RDGridSpace.get_cell_index`, object-with-x,y,z branch -/\ndef cellIndexObj (w h x y z : Int) : Int := %s" % idx_obj)
    L.append("/-- `RDGridSpace.get_cell_index`, number branch -/\ndef cellIndexNum (p : Int) : Int := %s" % idx_num)
    L.append("/-- both accessors start with `if not self.is_within_bounds(..) : raise` -/")
    L.append("def cellIndexGuarded : Bool := %s" % ("true" if guard_idx else "false"))
    L.append("def cellCoordsGuarded : Bool := %s\n" % ("true" if guard_coord else "false"))
    L.append("/-- `RDGridSpace.get_cell_coordinates` -/")
    L.append("def cellCoordX (w h i : Int) : Int := %s" % cx)
    L.append("def cellCoordY (w h i : Int) : Int := %s" % cy)
    L.append("def cellCoordZ (w h i : Int) : Int := %s\n" % cz)
    L.append("/-- `RDGridSpace.is_within_bounds`, the three position forms -/")
    L.append("def withinBoundsNum (size p : Int) : Bool := %s" % b_num)
    L.append("def withinBoundsArr (w h d x y z : Int) : Bool := %s" % b_arr)
    L.append("def withinBoundsObj (w h d x y z : Int) : Bool := %s\n" % b_obj)
    L.append("/-- `RDSystem.get_state_index` (s = species index, n = number of cells, c = cell index) -/")
    L.append("def stateIndex (n s c : Int) : Int := %s" % st_e)
    L.append("/-- `RDSystem.state_size` -/\ndef stateSize (n ns : Int) : Int := %s\n" % ssz_e)
    L.append("/-- `RDTrajectory.get_trajectory_point` flat index (k = sample, ns = #species, n = #cells) -/")
    L.append("def trajPointIndex (ns n k s c : Int) : Int := %s" % tp_e)
    L.append("/-- reshape tuples of `get_trajectory` and `get_state` -/")
    L.append("def reshapeTrajectory : List (List String) := %s" %
             lean_list([lean_list([lean_str(x) for x in t]) for t in rs_traj]))
    L.append("def reshapeState : List (List String) := %s" %
             lean_list([lean_list([lean_str(x) for x in t]) for t in rs_state]))
    L.append("\nend Strengths.Gen")
    return "\n".join(L) + "\n"


# =============================================================================================
# G5 + G7 (C++ side): neighbour tables, wrap lines, index formulas, conditions, call orders
# =============================================================================================
def _cpp(repo, name):
    path = os.path.join(repo, ENGINE_SRC, name)
    try:
        with open(path, encoding="utf-8", errors="replace") as f:
            return strip_cpp_comments(f.read())
    except OSError:
        raise AnchorLost("missing " + name)


def _subscripts(text):
    """every `ident[expr]` occurrence (balanced brackets), normalised (blanks removed)"""
    out = []
    for m in re.finditer(r"([A-Za-z_][A-Za-z_0-9]*)\s*\[", text):
        i = m.end() - 1
        depth, j = 0, i
        while j < len(text):
            if text[j] == "[":
                depth += 1
            elif text[j] == "]":
                depth -= 1
                if depth == 0:
                    break
            j += 1
        expr = re.sub(r"\s+", "", text[i + 1:j])
        # chained subscripts a[i][j]: record the second level against a[i]
        name = m.group(1)
        out.append((name, expr))
        k = j + 1
        while k < len(text) and text[k] == "[":
            depth, j2 = 0, k
            while j2 < len(text):
                if text[j2] == "[":
                    depth += 1
                elif text[j2] == "]":
                    depth -= 1
                    if depth == 0:
                        break
                j2 += 1
            out.append((name + "[" + expr + "]", re.sub(r"\s+", "", text[k + 1:j2])))
            expr = expr + "][" + re.sub(r"\s+", "", text[k + 1:j2])
            k = j2 + 1
    return out


def _iterate_order(text, cls):
    m = re.search(r"class\s+%s\b" % cls, text)
    if not m:
        raise AnchorLost("class " + cls)
    body = cpp_function_body(text[m.start():], r"virtual\s+bool\s+Iterate\s*\(\s*\)\s*")
    stmts = []
    depth = 0
    cur = ""
    for ch in body:
        if ch in "{}":
            if cur.strip():
                stmts.append(re.sub(r"\s+", "", cur))
            cur = ""
            stmts.append(ch)
            continue
        if ch == ";":
            stmts.append(re.sub(r"\s+", "", cur))
            cur = ""
        else:
            cur += ch
    if cur.strip():
        stmts.append(re.sub(r"\s+", "", cur))
    return [s for s in stmts if s]


@group
def gen_EngineCpp(repo):
    base3 = _cpp(repo, "SimulationAlgorithm3DBase.hpp")
    baseg = _cpp(repo, "SimulationAlgorithmGraphBase.hpp")
    eng = _cpp(repo, "engine.cpp")
    L = ["namespace Strengths.Gen\n"]

    # ---- GetNeighborIndex
    body = cpp_function_body(base3, r"int\s+GetNeighborIndex\s*\([^)]*\)\s*")
    deltas = []
    for m in re.finditer(r"case\s+(\d+)\s*:\s*([xyz])n\s*([-+])=\s*(\d+)\s*;\s*break\s*;", body):
        deltas.append((int(m.group(1)), "xyz".index(m.group(2)), int(m.group(3) + m.group(4))))
    if len(deltas) != len(re.findall(r"\bcase\b", body)) or not deltas:
        raise AnchorLost("GetNeighborIndex switch cases")
    wraps = {}
    for m in re.finditer(r"if\s*\(\s*boundary_conditions\[(\d)\]\s*==\s*(\d+)\s*\)\s*([xyz])n\s*=\s*([^;]+);", body):
        ax = int(m.group(1))
        if "xyz"[ax] != m.group(3):
            raise AnchorLost("GetNeighborIndex wrap line axis mismatch")
        size = "whd"[ax]
        wraps[ax] = (int(m.group(2)), CppExpr(m.group(4), {size: "n", m.group(3) + "n": "c"}).parse())
    if sorted(wraps) != [0, 1, 2]:
        raise AnchorLost("GetNeighborIndex wrap lines")
    m = re.search(r"if\s*\(([^;{}]*?)\)\s*return\s+([^;]+);\s*else\s+return\s+(-?\d+)\s*;", body, flags=re.S)
    if not m:
        raise AnchorLost("GetNeighborIndex range test / return")
    nm = {"xn": "x", "yn": "y", "zn": "z", "w": "w", "h": "h", "d": "d"}
    inrange = CppExpr(m.group(1), nm).parse()
    retidx = CppExpr(m.group(2), nm).parse()
    L.append("/-- `GetNeighborIndex`: (direction, axis 0/1/2, delta) of the switch -/")
    L.append("def dirDelta : List (Nat × Nat × Int) := %s" % lean_list(["(%d, %d, (%d : Int))" % t for t in sorted(deltas)]))
    L.append("/-- value of `boundary_conditions[axis]` that enables wrapping, per axis -/")
    L.append("def wrapFlag : List Int := %s" % lean_list(["(%d : Int)" % wraps[a][0] for a in range(3)]))
    for a in range(3):
        L.append("/-- wrap line of axis %d: new coordinate from size `n` and shifted coordinate `c` -/" % a)
        L.append("def wrapAxis%d (n c : Int) : Int := %s" % (a, wraps[a][1]))
    L.append("def nbrInRange (w h d x y z : Int) : Bool := %s" % inrange)
    L.append("def nbrIndex (w h x y z : Int) : Int := %s" % retidx)
    L.append("def nbrNone : Int := (%s : Int)\n" % m.group(3))

    # ---- BuildMeshNeighbors coordinate extraction and table subscript
    body = cpp_function_body(base3, r"void\s+BuildMeshNeighbors\s*\(\s*\)\s*")
    cm = {}
    for m in re.finditer(r"int\s+([xyz])coord\s*=\s*([^;]+);", body):
        cm[m.group(1)] = CppExpr(m.group(2), {"i": "i", "w": "w", "h": "h"}).parse()
    if sorted(cm) != ["x", "y", "z"]:
        raise AnchorLost("BuildMeshNeighbors coordinates")
    m = re.search(r"mesh_neighbors\[([^\]]+)\]\s*=\s*GetNeighborIndex\(\s*xcoord\s*,\s*ycoord\s*,\s*zcoord\s*,\s*n\s*\)", body)
    if not m:
        raise AnchorLost("BuildMeshNeighbors table store")
    L.append("/-- `BuildMeshNeighbors`: coordinates of mesh i and slot of (i, direction n) -/")
    L.append("def meshX (w h i : Int) : Int := %s" % cm["x"])
    L.append("def meshY (w h i : Int) : Int := %s" % cm["y"])
    L.append("def meshZ (w h i : Int) : Int := %s" % cm["z"])
    L.append("def nbrSlot (i n : Int) : Int := %s\n" % CppExpr(m.group(1), {"i": "i", "n": "n"}).parse())

    # ---- opposed_direction
    m = re.search(r"opposed_direction\s*=\s*std::vector<int>\s*\{([^}]*)\}", base3)
    if not m:
        raise AnchorLost("opposed_direction table")
    opp = [int(x) for x in m.group(1).split(",")]
    L.append("def oppDir : List Nat := %s\n" % lean_list([str(x) for x in opp]))

    # ---- sampling / completion conditions (both base classes must agree textually)
    def sampling(text, which):
        res = {}
        b = cpp_function_body(text, r"void\s+CheckTMax\s*\(\s*\)\s*")
        m = re.search(r"if\s*\((.*?)\)\s*\{", b, flags=re.S)
        if not m:
            raise AnchorLost(which + " CheckTMax condition")
        res["tmax"] = re.sub(r"\s+", "", m.group(1))
        b = cpp_function_body(text, r"void\s+SampleOnTSample\s*\(\s*\)\s*")
        m = re.search(r"while\s*\((.*?)\)\s*\{(.*?)\}", b, flags=re.S)
        if not m:
            raise AnchorLost(which + " SampleOnTSample loop")
        res["tsample_conds"] = [re.sub(r"\s+", "", c) for c in m.group(1).split("&&")]
        res["tsample_body"] = [re.sub(r"\s+", "", s) for s in m.group(2).split(";") if s.strip()]
        b = cpp_function_body(text, r"void\s+SampleOnInterval\s*\(\s*\)\s*")
        m = re.search(r"double\s+tsi_ratio\s*=\s*([^;]+);\s*if\s*\((.*?)\)\s*\{(.*?)\}", b, flags=re.S)
        if not m:
            raise AnchorLost(which + " SampleOnInterval")
        res["interval_ratio"] = re.sub(r"\s+", "", m.group(1))
        res["interval_cond"] = re.sub(r"\s+", "", m.group(2))
        res["interval_body"] = [re.sub(r"\s+", "", s) for s in m.group(3).split(";") if s.strip()]
        b = cpp_function_body(text, r"void\s+SamplingStep\s*\(\s*\)\s*")
        res["dispatch"] = [(int(a), re.sub(r"\s+", "", c)) for a, c in re.findall(r"case\s+(\d+)\s*:\s*(.*?)break\s*;", b, flags=re.S)]
        b = cpp_function_body(text, r"void\s+Sample\s*\(\s*\)\s*")
        m = re.search(r"if\s*\((.*?)\)\s*\{(.*?)\}", b, flags=re.S)
        if not m:
            raise AnchorLost(which + " Sample")
        res["sample_cond"] = re.sub(r"\s+", "", m.group(1))
        res["sample_body"] = [re.sub(r"\s+", "", s) for s in m.group(2).split(";") if s.strip()]
        b = cpp_function_body(text, r"double\s+GetProgress\s*\(\s*\)\s*")
        res["progress"] = re.sub(r"\s+", "", b)
        return res
    s3, sg = sampling(base3, "3DBase"), sampling(baseg, "GraphBase")

    def strs(l):
        return lean_list([lean_str(x) for x in l])
    for tag, s in (("Grid", s3), ("Graph", sg)):
        L.append("def tMaxCond%s : String := %s" % (tag, lean_str(s["tmax"])))
        L.append("def tSampleLoopConds%s : List String := %s" % (tag, strs(s["tsample_conds"])))
        L.append("def tSampleLoopBody%s : List String := %s" % (tag, strs(s["tsample_body"])))
        L.append("def intervalRatio%s : String := %s" % (tag, lean_str(s["interval_ratio"])))
        L.append("def intervalCond%s : String := %s" % (tag, lean_str(s["interval_cond"])))
        L.append("def intervalBody%s : List String := %s" % (tag, strs(s["interval_body"])))
        L.append("def samplingDispatch%s : List (Nat × String) := %s" %
                 (tag, lean_list(["(%d, %s)" % (a, lean_str(c)) for a, c in s["dispatch"]])))
        L.append("def sampleCond%s : String := %s" % (tag, lean_str(s["sample_cond"])))
        L.append("def sampleBody%s : List String := %s" % (tag, strs(s["sample_body"])))
        L.append("def progressBody%s : String := %s\n" % (tag, lean_str(s["progress"])))

    # ---- Iterate bodies of the six algorithms
    for fname, cls in (("Euler3D.hpp", "Euler3D"), ("TauLeap3D.hpp", "TauLeap3D"), ("Gillespie3D.hpp", "Gillespie3D"),
                       ("EulerGraph.hpp", "EulerGraph"), ("TauLeapGraph.hpp", "TauLeapGraph"), ("GillespieGraph.hpp", "GillespieGraph")):
        L.append("def iterate%s : List String := %s" % (cls, strs(_iterate_order(_cpp(repo, fname), cls))))
    L.append("")

    # ---- engine.cpp: accepted strings and codes
    def chain(fn_regex, var):
        b = cpp_function_body(eng, fn_regex)
        return re.findall(r"CompareStr\(\s*%s\s*,\s*\"([^\"]*)\"\s*\)\)?\s*(?:\{?\s*)?(\w+(?:\[\d\])?)\s*=\s*(?:new\s+)?(\w+)" % var, b)
    for tag, fr in (("Grid", r"int\s+engineexport_initialize_grid\s*\("), ("Graph", r"int\s+engineexport_initialize_graph\s*\(")):
        pol = chain(fr, "sampling_policy")
        if not pol:
            raise AnchorLost("engine.cpp sampling policy chain " + tag)
        L.append("def cppPolicies%s : List (String × Nat) := %s" %
                 (tag, lean_list(["(%s, %s)" % (lean_str(a), c) for a, _, c in pol])))
        opt = chain(fr, "option")
        if not opt:
            raise AnchorLost("engine.cpp option chain " + tag)
        L.append("def cppOptions%s : List (String × String) := %s" %
                 (tag, lean_list(["(%s, %s)" % (lean_str(a), lean_str(c)) for a, _, c in opt])))
        b = cpp_function_body(eng, fr)
        modes = re.findall(r"CompareStr\(\s*init_state_processing\s*,\s*\"([^\"]*)\"\s*\)", b)
        L.append("def cppModes%s : List String := %s" % (tag, strs(modes)))
        # the processing branches, as normalised condition text in order
        conds = [re.sub(r"\s+", "", c) for c in re.findall(r"(?:else\s+)?if\s*\(\s*(CompareStr\(\s*init_state_processing.*?)\)\s*\{", b, flags=re.S)]
        L.append("def cppModeConds%s : List String := %s" % (tag, strs(conds)))
        # which branches transpose the species-major input
        branches = re.split(r"(?:else\s+)?if\s*\(\s*CompareStr\(\s*init_state_processing", b)[1:]
        tr = []
        for br in branches:
            head = br.split("{", 1)[1] if "{" in br else br
            blk = head.split("}", 1)[0]
            tr.append("SpeciesFirstToMeshFirstArray" in blk)
        L.append("def cppModeTransposes%s : List Bool := %s" % (tag, lean_list(["true" if t else "false" for t in tr])))
    bc = re.findall(r"CompareStr\(\s*boundary_conditions_x\s*,\s*\"([^\"]*)\"\s*\)\)\s*boundary_conditions\[0\]\s*=\s*(\d+)", eng)
    if not bc:
        raise AnchorLost("engine.cpp boundary condition chain")
    L.append("def cppBoundary : List (String × Int) := %s\n" % lean_list(["(%s, (%s : Int))" % (lean_str(a), c) for a, c in bc]))

    # ---- transposition and export formulas
    b = cpp_function_body(eng, r"SpeciesFirstToMeshFirstArray\s*\([^)]*\)\s*")
    m = re.search(r"mesh_first_array\[([^\]]+)\]\s*=\s*species_first_array\[([^\]]+)\]", b)
    if not m:
        raise AnchorLost("SpeciesFirstToMeshFirstArray assignment")
    nm = {"i": "i", "s": "s", "n_species": "ns", "n_meshes": "n"}
    L.append("/-- `SpeciesFirstToMeshFirstArray`: dst[dstIdx] = src[srcIdx] -/")
    L.append("def transposeDst (ns n s i : Int) : Int := %s" % CppExpr(m.group(1), nm).parse())
    L.append("def transposeSrc (ns n s i : Int) : Int := %s" % CppExpr(m.group(2), nm).parse())
    b = cpp_function_body(eng, r"int\s+engineexport_get_trajectory\s*\([^)]*\)\s*")
    ms = re.findall(r"trajectory_data\[([^\]]+)\]\s*=\s*trajectory_data_vec\[n\]\[([^\]]+)\]", b)
    if len(ms) != 2 or ms[0] != ms[1]:
        raise AnchorLost("engineexport_get_trajectory assignments (grid and graph branch must agree)")
    nm2 = {"i": "i", "s": "s", "n": "k", "n_species": "ns", "n_meshes": "n"}
    L.append("/-- `engineexport_get_trajectory`: out[exportDst] = sample_k[exportSrc] -/")
    L.append("def exportDst (ns n k s i : Int) : Int := %s" % CppExpr(ms[0][0], nm2).parse())
    L.append("def exportSrc (ns n s i : Int) : Int := %s" % CppExpr(ms[0][1], nm2).parse())
    b = cpp_function_body(eng, r"int\s+engineexport_get_state\s*\([^)]*\)\s*")
    ms = re.findall(r"state_data\[([^\]]+)\]\s*=\s*state_data_vec\[([^\]]+)\]", b)
    if len(ms) != 2 or ms[0] != ms[1]:
        raise AnchorLost("engineexport_get_state assignments")
    L.append("def stateExportDst (ns n s i : Int) : Int := %s" % CppExpr(ms[0][0], nm2).parse())
    L.append("def stateExportSrc (ns n s i : Int) : Int := %s\n" % CppExpr(ms[0][1], nm2).parse())

    # ---- finalize / run / iterate_n skeletons (normalised statement text)
    for fn in ("engineexport_finalize", "engineexport_iterate", "engineexport_iterate_n", "engineexport_run", "engineexport_sample"):
        b = cpp_function_body(eng, r"%s\s*\([^)]*\)\s*" % fn)
        L.append("def body_%s : String := %s" % (fn, lean_str(re.sub(r"\s+", "", b))))
    gl = re.findall(r"^(?:[A-Za-z_][\w:<>]*\s*\*?\s+\*?\s*)(global_\w+)\s*(?:=\s*([^;]+))?;", eng, flags=re.M)
    L.append("def engineGlobals : List (String × String) := %s\n" %
             lean_list(["(%s, %s)" % (lean_str(a), lean_str(b.strip())) for a, b in gl]))

    # ---- index formulas of the flattened tables the algorithms read (must agree across all read sites)
    def table_formula(vec, names, files):
        forms = set()
        for fname in files:
            for name, expr in _subscripts(_cpp(repo, fname)):
                if name == vec:
                    forms.add(CppExpr(expr, names).parse())
        if len(forms) != 1:
            raise AnchorLost("index formula of %s is not unique across its read sites: %s" % (vec, sorted(forms)))
        return forms.pop()
    algo_files = ["SimulationAlgorithm3DBase.hpp", "SimulationAlgorithmGraphBase.hpp", "Euler3D.hpp", "EulerGraph.hpp",
                  "TauLeap3D.hpp", "TauLeapGraph.hpp", "Gillespie3D.hpp", "GillespieGraph.hpp"]
    nm3 = {"mesh_env[i]": "e", "mesh_env[j]": "e", "n_reactions": "nr", "n_species": "ns", "n_env": "ne", "r": "r", "s": "s",
           "j": "s", "reaction_index": "r", "i": "i", "mesh_index": "i", "species_index": "s", "n": "n", "direction": "n"}
    L.append("/-- flattened-table index formulas as read by the algorithms (identical at every read site) -/")
    L.append("def kIndex (nr e r : Int) : Int := %s" % table_formula("k", nm3, algo_files))
    L.append("def subIndex (nr s r : Int) : Int := %s" % table_formula("sub", nm3, algo_files))
    nm_sto = dict(nm3)
    L.append("def stoIndex (nr s r : Int) : Int := %s" % table_formula("sto", nm_sto, algo_files))
    L.append("def dIndex (ne s e : Int) : Int := %s" % table_formula("D", nm3, algo_files))
    L.append("def krIndex (nr i r : Int) : Int := %s" % table_formula("mesh_kr", nm3, algo_files))
    L.append("def kdIndexGrid (ns i s n : Int) : Int := %s" % table_formula("mesh_kd", nm3, ["SimulationAlgorithm3DBase.hpp"]))
    L.append("")

    # ---- subscript inventory (G5): every vec[expr] in every engine source file
    inv = []
    for fname in ("SimulationAlgorithm3DBase.hpp", "SimulationAlgorithmGraphBase.hpp", "Euler3D.hpp", "EulerGraph.hpp",
                  "TauLeap3D.hpp", "TauLeapGraph.hpp", "Gillespie3D.hpp", "GillespieGraph.hpp", "engine.cpp"):
        for name, expr in sorted(set(_subscripts(_cpp(repo, fname)))):
            inv.append((fname, name, expr))
    L.append("/-- every `vector[index]` occurrence in the engine sources: (file, vector, index expression) -/")
    L.append("def subscripts : List (String × String × String) := [")
    L.append(",\n".join("  (%s, %s, %s)" % (lean_str(a), lean_str(b), lean_str(c)) for a, b, c in inv))
    L.append("]")
    L.append("\nend Strengths.Gen")
    return "\n".join(L) + "\n"


# =============================================================================================
# G3 : dictionary readers / writers / constructors (key tables of every *_from_dict / *_to_dict)
# =============================================================================================
_DK_CLASSES = [
    # (name, module, reader, writer, constructor class (module, class) or None)
    ("species", "rdnetwork.py", "species_from_dict", "species_to_dict", ("rdnetwork.py", "Species")),
    ("reaction", "rdnetwork.py", "reaction_from_dict", "reaction_to_dict", ("rdnetwork.py", "Reaction")),
    ("network", "rdnetwork.py", "rdnetwork_from_dict", "rdnetwork_to_dict", ("rdnetwork.py", "RDNetwork")),
    ("grid", "rdgridspace.py", "rdgridspace_from_dict", "rdgridspace_to_dict", ("rdgridspace.py", "RDGridSpace")),
    ("node", "rdgraphspace.py", "rdgraphspacenode_from_dict", "rdgraphspacenode_to_dict", ("rdgraphspace.py", "RDGraphSpaceNode")),
    ("edge", "rdgraphspace.py", "rdgraphspaceedge_from_dict", "rdgraphspaceedge_to_dict", ("rdgraphspace.py", "RDGraphSpaceEdge")),
    ("graph", "rdgraphspace.py", "rdgraphspace_from_dict", "rdgraphspace_to_dict", ("rdgraphspace.py", "RDGraphSpace")),
    ("system", "rdsystem.py", "rdsystem_from_dict", "rdsystem_to_dict", ("rdsystem.py", "RDSystem")),
    ("script", "rdscript.py", "rdscript_from_dict", "rdscript_to_dict", ("rdscript.py", "RDScript")),
    ("unitsSystem", "units.py", "unitssystem_from_dict", "unitssystem_to_dict", ("units.py", "UnitsSystem")),
    ("unitArray", "units.py", "unitarray_from_dict", "unitarray_to_dict", None),
    ("trajectory", "rdoutput.py", "load_rdtrajectory", "save_rdtrajectory", ("rdoutput.py", "RDTrajectory")),
]


def _dk_is_d_sub(n):
    """`d["k"]` -> k"""
    if isinstance(n, ast.Subscript) and isinstance(n.value, ast.Name) and n.value.id == "d" \
            and isinstance(n.slice, ast.Constant) and isinstance(n.slice.value, str):
        return n.slice.value
    return None


def _dk_is_d_get(n):
    """`d.get("k", default)` -> k"""
    if isinstance(n, ast.Call) and isinstance(n.func, ast.Attribute) and n.func.attr == "get" \
            and isinstance(n.func.value, ast.Name) and n.func.value.id == "d" and n.args \
            and isinstance(n.args[0], ast.Constant) and isinstance(n.args[0].value, str):
        return n.args[0].value
    return None


def _dk_guard_key(test):
    """`"k" in d` -> k ;  `"k" in d and d["k"] is not None` -> k (the caller records that None counts as omitted)"""
    if isinstance(test, ast.BoolOp) and isinstance(test.op, ast.And) and len(test.values) == 2:
        k = _dk_guard_key(test.values[0])
        t = test.values[1]
        if k is not None and isinstance(t, ast.Compare) and len(t.ops) == 1 and isinstance(t.ops[0], ast.IsNot) \
                and _dk_is_d_sub(t.left) == k and isinstance(t.comparators[0], ast.Constant) and t.comparators[0].value is None:
            return k
        return None
    if isinstance(test, ast.Compare) and len(test.ops) == 1 and isinstance(test.ops[0], ast.In) \
            and isinstance(test.left, ast.Constant) and isinstance(test.left.value, str) \
            and isinstance(test.comparators[0], ast.Name) and test.comparators[0].id == "d":
        return test.left.value
    return None


def _dk_reader(src, fn):
    aliases = None
    for n in ast.walk(fn):
        if isinstance(n, ast.Call) and isinstance(n.func, ast.Attribute) and n.func.attr == "process_input_dict_keys":
            if len(n.args) < 2 or not isinstance(n.args[1], ast.List):
                raise AnchorLost("%s:%s process_input_dict_keys synonyms literal" % (src.rel, fn.name))
            aliases = [str_list(g) for g in n.args[1].elts]
            extra = [k.arg for k in n.keywords] + (["policy"] if len(n.args) > 2 else [])
            if extra:
                raise AnchorLost("%s:%s process_input_dict_keys called with a policy" % (src.rel, fn.name))
    wiring, mandatory, optional_get, units_default = [], [], [], None
    none_as_omitted, reader_default = [], []
    varkeys = {}
    # the dictionary of constructor arguments: the name splatted into a call (`Cls(**da)`), whatever it is called
    kw_name = "da"
    for n in ast.walk(fn):
        if isinstance(n, ast.Call):
            for kw in n.keywords:
                if kw.arg is None and isinstance(kw.value, ast.Name) and kw.value.id != "d":
                    kw_name = kw.value.id

    def keys_of(expr):
        ks = []
        for n in ast.walk(expr):
            k = _dk_is_d_sub(n)
            if k is None:
                k = _dk_is_d_get(n)
            if k is not None and k not in ks:
                ks.append(k)
        return ks

    def retrieve_default(expr):
        for n in ast.walk(expr):
            if isinstance(n, ast.Call) and getattr(n.func, "attr", getattr(n.func, "id", "")) == "retrive_units_system_from_dict":
                for kw in n.keywords:
                    if kw.arg == "default":
                        return const_str(kw.value)
                if len(n.args) >= 2:
                    return const_str(n.args[1])
                raise AnchorLost("%s:%s retrive_units_system_from_dict default" % (src.rel, fn.name))
        return None

    def add_wire(k, p):
        if (k, p) not in wiring:
            wiring.append((k, p))

    def visit(stmts, guards):
        nonlocal units_default
        for st in stmts:
            if isinstance(st, ast.If):
                gk = _dk_guard_key(st.test)
                if gk is not None:
                    if isinstance(st.test, ast.BoolOp) and gk not in none_as_omitted:
                        none_as_omitted.append(gk)
                    visit(st.body, guards + [gk])
                    if any(isinstance(x, ast.Raise) for x in st.orelse):
                        if gk not in mandatory:
                            mandatory.append(gk)
                    else:
                        # an else branch that fills the constructor argument itself: the reader's own default
                        for x in st.orelse:
                            if isinstance(x, ast.Assign) and len(x.targets) == 1 and isinstance(x.targets[0], ast.Subscript) \
                                    and isinstance(x.targets[0].value, ast.Name) and x.targets[0].value.id == kw_name:
                                reader_default.append((gk, re.sub(r"\s+", "", src.seg(x.value))))
                        visit(st.orelse, guards)
                else:
                    # unguarded subscripts in the test itself are mandatory reads
                    for k in keys_of(st.test):
                        if k not in guards and not any(_dk_is_d_get(n) == k for n in ast.walk(st.test)) and k not in mandatory:
                            mandatory.append(k)
                    visit(st.body, guards)
                    visit(st.orelse, guards)
                continue
            if isinstance(st, (ast.For, ast.While, ast.With, ast.Try)):
                visit(getattr(st, "body", []), guards)
                continue
            # mandatory: a plain d["k"] outside a guard for k (a `d.get("k", ..)` test in the same statement is a guard)
            got = [_dk_is_d_get(n) for n in ast.walk(st)]
            for n in ast.walk(st):
                k = _dk_is_d_sub(n)
                if k is not None and k not in guards and k not in got and k not in mandatory:
                    mandatory.append(k)
                k = _dk_is_d_get(n)
                if k is not None and k not in optional_get:
                    optional_get.append(k)
            if isinstance(st, ast.Assign) and len(st.targets) == 1:
                tgt = st.targets[0]
                ud = retrieve_default(st.value)
                ks = keys_of(st.value)
                for n in ast.walk(st.value):
                    if isinstance(n, ast.Name) and n.id in varkeys:
                        for k in varkeys[n.id]:
                            if k not in ks:
                                ks.append(k)
                if isinstance(tgt, ast.Name) and tgt.id != "d":
                    if ud is not None:
                        ks = ks + ["units"]
                    if ks:
                        varkeys[tgt.id] = ks
                    elif guards and tgt.id in varkeys:
                        pass
                elif isinstance(tgt, ast.Subscript) and isinstance(tgt.value, ast.Name) and tgt.value.id == kw_name \
                        and isinstance(tgt.slice, ast.Constant):
                    p = tgt.slice.value
                    if ud is not None:
                        units_default = ud
                        add_wire("units", p)
                    else:
                        if guards:
                            add_wire(guards[-1], p)
                        else:
                            for k in ks:
                                add_wire(k, p)
            if isinstance(st, ast.Return) and st.value is not None:
                v = st.value
                if isinstance(v, ast.Call):
                    if any(kw.arg is None and isinstance(kw.value, ast.Name) and kw.value.id == "d" for kw in v.keywords):
                        for g in (aliases or []):          # Cls(**d): every canonical key is its own parameter
                            add_wire(g[0], g[0])
                    for kw in v.keywords:
                        if kw.arg is None:
                            continue
                        ks = keys_of(kw.value)
                        for n in ast.walk(kw.value):
                            if isinstance(n, ast.Name) and n.id in varkeys:
                                ks += [k for k in varkeys[n.id] if k not in ks]
                        for k in ks:
                            add_wire(k, kw.arg)

    visit(fn.body, [])
    return aliases, wiring, mandatory, optional_get, units_default, none_as_omitted, reader_default


def _dk_writer(src, fn):
    emitted, cond = [], []
    lit = None
    for n in ast.walk(fn):
        if isinstance(n, ast.Assign) and len(n.targets) == 1 and isinstance(n.targets[0], ast.Name) \
                and n.targets[0].id == "d" and isinstance(n.value, ast.Dict) and lit is None:
            lit = n.value
        if isinstance(n, ast.Return) and isinstance(n.value, ast.Dict) and lit is None:
            lit = n.value
    if lit is None:
        raise AnchorLost("%s:%s dict literal" % (src.rel, fn.name))
    for k in lit.keys:
        emitted.append(const_str(k))

    def visit(stmts, conditional):
        for st in stmts:
            if isinstance(st, ast.If):
                # a key assigned in both branches of an if/else is unconditional
                def assigned(body):
                    out = []
                    for s in body:
                        if isinstance(s, ast.Assign) and len(s.targets) == 1:
                            k = _dk_is_d_sub(s.targets[0])
                            if k is not None:
                                out.append(k)
                    return out
                a, b = assigned(st.body), assigned(st.orelse)
                for k in a + b:
                    if k in a and k in b and not conditional:
                        if k not in emitted:
                            emitted.append(k)
                    elif k not in emitted and k not in cond:
                        cond.append(k)
                continue
            if isinstance(st, ast.Assign) and len(st.targets) == 1:
                k = _dk_is_d_sub(st.targets[0])
                if k is not None:
                    (cond if conditional else emitted).append(k) if k not in emitted + cond else None
    visit(fn.body, False)
    return emitted, cond


def _dk_ctor(repo, mod, cls):
    src = PySrc(repo, "src/strengths/" + mod)
    init = src.func("__init__", cls)
    a = init.args
    if a.vararg or a.kwarg or a.kwonlyargs:
        raise AnchorLost("%s:%s.__init__ signature shape" % (mod, cls))
    names = [x.arg for x in a.args][1:]
    defaults = [None] * (len(names) - len(a.defaults)) + [re.sub(r"\s+", "", src.seg(d)) for d in a.defaults]
    return list(zip(names, defaults))


@group
def gen_DictKeys(repo):
    def opt(s):
        return "none" if s is None else "(some %s)" % lean_str(s)

    L = ["namespace Strengths.Gen.DictKeys\n",
         "/-- what the source says about one dictionary form: the synonym groups its reader accepts, how the\n"
         "canonical keys are wired to constructor parameters, which keys the reader insists on, the default of the\n"
         "`units` key, the keys its writer emits (always / under a condition) and the constructor signature -/",
         "structure Table where",
         "  name : String",
         "  aliases : List (List String)",
         "  wiring : List (String × String)",
         "  mandatory : List String",
         "  optionalGet : List String",
         "  unitsDefault : Option String",
         "  noneAsOmitted : List String",
         "  readerDefault : List (String × String)",
         "  emitted : List String",
         "  emittedCond : List String",
         "  ctor : List (String × Option String)",
         "  deriving DecidableEq, Repr\n"]
    srcs = {}
    names = []
    for name, mod, reader, writer, ctor in _DK_CLASSES:
        if mod not in srcs:
            srcs[mod] = PySrc(repo, "src/strengths/" + mod)
        src = srcs[mod]
        aliases, wiring, mandatory, optget, udef, none_om, rdef = _dk_reader(src, src.func(reader))
        if aliases is None and name != "trajectory":
            raise AnchorLost("%s:%s process_input_dict_keys call" % (mod, reader))
        if name == "trajectory":
            aliases = [[k] for k in mandatory + [k for k in optget if k not in mandatory]]
        emitted, cond = _dk_writer(src, src.func(writer))
        params = _dk_ctor(repo, *ctor) if ctor else []
        if name == "unitArray":
            # UnitArray(d["value"], d["units"]) : positional wiring onto the data parameters
            wiring = [("value", "value"), ("units", "units")]
            params = [(p, d) for p, d in _dk_ctor(repo, "units.py", "UnitArray") if p in ("value", "units")]
        L.append("/-- `%s` / `%s`%s -/" % (reader, writer, (" / `%s.__init__`" % ctor[1]) if ctor else ""))
        L.append("def %s : Table where" % name)
        L.append("  name := %s" % lean_str(name))
        L.append("  aliases := %s" % lean_list([lean_list([lean_str(k) for k in g]) for g in aliases]))
        L.append("  wiring := %s" % lean_list(["(%s, %s)" % (lean_str(k), lean_str(p)) for k, p in wiring]))
        L.append("  mandatory := %s" % lean_list([lean_str(k) for k in mandatory]))
        L.append("  optionalGet := %s" % lean_list([lean_str(k) for k in optget]))
        L.append("  unitsDefault := %s" % opt(udef))
        L.append("  noneAsOmitted := %s" % lean_list([lean_str(k) for k in none_om]))
        L.append("  readerDefault := %s" % lean_list(["(%s, %s)" % (lean_str(k), lean_str(v)) for k, v in rdef]))
        L.append("  emitted := %s" % lean_list([lean_str(k) for k in emitted]))
        L.append("  emittedCond := %s" % lean_list([lean_str(k) for k in cond]))
        L.append("  ctor := %s\n" % lean_list(["(%s, %s)" % (lean_str(p), opt(d)) for p, d in params]))
        names.append(name)
    L.append("def all : List Table := %s\n" % lean_list(names))

    # ---- accepted-value lists used by the constructors behind the readers
    def not_in_list(src, fn, what):
        for n in ast.walk(fn):
            if isinstance(n, ast.Compare) and len(n.ops) == 1 and isinstance(n.ops[0], (ast.NotIn, ast.In)) \
                    and isinstance(n.comparators[0], ast.List):
                try:
                    return str_list(n.comparators[0])
                except AnchorLost:
                    continue
        raise AnchorLost("%s:%s accepted-value list (%s)" % (src.rel, fn.name, what))

    def setter(src, cls, prop):
        for n in src.tree.body:
            if isinstance(n, ast.ClassDef) and n.name == cls:
                for f in n.body:
                    if isinstance(f, ast.FunctionDef) and f.name == prop and any(
                            isinstance(d, ast.Attribute) and d.attr == "setter" for d in f.decorator_list):
                        return f
        raise AnchorLost("%s:%s.%s setter" % (src.rel, cls, prop))

    scr = srcs["rdscript.py"]
    L.append("/-- accepted values of `RDScript.sampling_policy` / `init_state_processing` -/")
    L.append("def pyPolicies : List String := %s" % lean_list([lean_str(s) for s in not_in_list(scr, setter(scr, "RDScript", "sampling_policy"), "policies")]))
    L.append("def pyModes : List String := %s" % lean_list([lean_str(s) for s in not_in_list(scr, setter(scr, "RDScript", "init_state_processing"), "modes")]))
    grid = srcs["rdgridspace.py"]
    sbc = grid.func("set_boundary_conditions", "RDGridSpace")
    lists = []
    for n in ast.walk(sbc):
        if isinstance(n, ast.Compare) and len(n.ops) == 1 and isinstance(n.ops[0], ast.NotIn) and isinstance(n.comparators[0], ast.List):
            lists.append(str_list(n.comparators[0]))
    if len(lists) != 2:
        raise AnchorLost("rdgridspace.py:set_boundary_conditions axis / condition lists")
    L.append("/-- `set_boundary_conditions`: accepted axes, accepted conditions, initial condition per axis -/")
    L.append("def bcAxes : List String := %s" % lean_list([lean_str(s) for s in lists[0]]))
    L.append("def bcValues : List String := %s" % lean_list([lean_str(s) for s in lists[1]]))
    init_bc = None
    for n in ast.walk(sbc):
        if isinstance(n, ast.Assign) and isinstance(n.value, ast.Dict) and isinstance(n.targets[0], ast.Attribute) \
                and n.targets[0].attr == "_boundary_conditions":
            init_bc = [(const_str(k), const_str(v)) for k, v in zip(n.value.keys, n.value.values)]
    if init_bc is None:
        raise AnchorLost("rdgridspace.py:set_boundary_conditions initial dict")
    L.append("def bcInitial : List (String × String) := %s" % lean_list(["(%s, %s)" % (lean_str(a), lean_str(b)) for a, b in init_bc]))
    # rdspace_from_dict dispatch on "type"
    sp = PySrc(repo, "src/strengths/rdspace.py")
    f = sp.func("rdspace_from_dict")
    types, dflt_type = [], None
    for n in ast.walk(f):
        if isinstance(n, ast.Compare) and len(n.ops) == 1 and isinstance(n.ops[0], ast.Eq) and _dk_is_d_sub(n.left) == "type":
            types.append(const_str(n.comparators[0]))
        if isinstance(n, ast.Assign) and _dk_is_d_sub(n.targets[0]) == "type":
            dflt_type = const_str(n.value)
    if not types or dflt_type is None:
        raise AnchorLost("rdspace.py:rdspace_from_dict type dispatch")
    L.append("/-- `rdspace_from_dict`: dispatch values of \"type\" and the value assumed when the key is absent -/")
    L.append("def spaceTypes : List String := %s" % lean_list([lean_str(s) for s in types]))
    L.append("def spaceTypeDefault : String := %s" % lean_str(dflt_type))
    L.append("\nend Strengths.Gen.DictKeys")
    return "\n".join(L) + "\n"


# =============================================================================================
# C18 : the text pipeline of units.py (parse_units pre/post-processing, parse_unitvalue,
#       Units.__str__, UnitValue.__str__, Units.__eq__)
# =============================================================================================
@group
def gen_UnitsText(repo):
    units = PySrc(repo, "src/strengths/units.py")

    def norm(node):
        return re.sub(r"\s+", "", units.seg(node))

    # ------------------------------------------------------------------ parse_units
    pu = units.func("parse_units")
    top = [n for n in pu.body]
    # order of the top-level preprocessing statements: replace chain, strip, empty test, whitespace guard
    idx_strip = idx_empty = idx_guard = idx_loop = None
    for i, n in enumerate(top):
        if isinstance(n, ast.Assign) and norm(n) == "s=s.strip()":
            idx_strip = i
        if isinstance(n, ast.If) and norm(n.test) == 's==""' and any(isinstance(b, ast.Return) for b in n.body):
            idx_empty = i
        if isinstance(n, ast.If) and norm(n.test) == "any(c.isspace()forcins)" and any(isinstance(b, ast.Raise) for b in n.body):
            idx_guard = i
        if isinstance(n, ast.For) and norm(n.iter) == "s" and idx_loop is None:
            idx_loop = i
    if idx_strip is None or idx_empty is None or idx_loop is None:
        raise AnchorLost("units.py:parse_units strip / empty test / character loop")
    if not (idx_strip < idx_empty < idx_loop):
        raise AnchorLost("units.py:parse_units order of strip, empty test, character loop")
    guard = idx_guard is not None and idx_empty < idx_guard < idx_loop
    if idx_guard is not None and not guard:
        raise AnchorLost("units.py:parse_units whitespace guard position")
    # replace chain must come before the strip
    for i, n in enumerate(top):
        if isinstance(n, ast.Assign) and isinstance(n.value, ast.Call) and isinstance(n.value.func, ast.Attribute) \
                and n.value.func.attr == "replace" and i > idx_strip:
            raise AnchorLost("units.py:parse_units replace after strip")
    # first block
    first_sep = None
    for n in top:
        if isinstance(n, ast.Assign) and norm(n.targets[0]) == "blocks" and isinstance(n.value, ast.List) \
                and len(n.value.elts) == 1 and isinstance(n.value.elts[0], ast.List):
            e = n.value.elts[0].elts
            if len(e) == 3 and const_str(e[1]) == "" and const_str(e[2]) == "":
                first_sep = const_str(e[0])
    if first_sep is None or len(first_sep) != 1:
        raise AnchorLost("units.py:parse_units initial block")
    # second pass over the blocks: default exponent, reader, negation separator
    dflt_exp = reader = neg_sep = None
    strict_exp = False
    for n in top:
        if isinstance(n, ast.For) and norm(n.iter) == "blocks" and norm(n.target) == "b":
            for st in n.body:
                if isinstance(st, ast.If) and norm(st.test) == 'b[2]==""' and len(st.body) == 1 \
                        and isinstance(st.body[0], ast.Assign) and norm(st.body[0].targets[0]) == "b[2]":
                    dflt_exp = const_str(st.body[0].value)
                    # optional `elif not (<strict ASCII integer test>): raise` before int()
                    if not st.orelse:
                        strict_exp = False
                    elif len(st.orelse) == 1 and isinstance(st.orelse[0], ast.If) and not st.orelse[0].orelse \
                            and any(isinstance(x, ast.Raise) for x in st.orelse[0].body) \
                            and norm(st.orelse[0].test) == 'not(b[2].isascii()and(b[2][1:]ifb[2][0]=="-"elseb[2]).isdecimal())':
                        strict_exp = True
                    else:
                        raise AnchorLost("units.py:parse_units exponent guard (elif after the default exponent)")
                if isinstance(st, ast.Assign) and norm(st.targets[0]) == "b[2]" and isinstance(st.value, ast.Call) \
                        and isinstance(st.value.func, ast.Name) and norm(st.value.args[0]) == "b[2]" and len(st.value.args) == 1:
                    reader = st.value.func.id
                if isinstance(st, ast.If) and isinstance(st.test, ast.Compare) and norm(st.test.left) == "b[0]" \
                        and isinstance(st.test.ops[0], ast.Eq) and len(st.body) == 1 and norm(st.body[0]) == "b[2]=-b[2]":
                    neg_sep = const_str(st.test.comparators[0])
            if reader is not None:
                break
    if dflt_exp is None or reader is None or neg_sep is None or len(neg_sep) != 1:
        raise AnchorLost("units.py:parse_units exponent pass (default exponent / int() / '/' negation)")
    # addunit: same-base consistency test
    au = units.nested_func(pu, "addunit")
    au_test = None
    for n in au.body:
        if isinstance(n, ast.If):
            au_test = norm(n.test)
            au_else_raises = any(isinstance(b, ast.Raise) for b in n.orelse)
    if au_test is None:
        raise AnchorLost("units.py:parse_units.addunit test")
    # unknown unit: `if unittype == None: raise`
    unk = False
    for n in ast.walk(pu):
        if isinstance(n, ast.If) and norm(n.test) == "unittype==None" and any(isinstance(b, ast.Raise) for b in n.body):
            unk = True

    # ------------------------------------------------------------------ parse_unitvalue
    pv = units.func("parse_unitvalue")
    strips = any(isinstance(n, ast.Assign) and norm(n) == "s=s.strip()" for n in pv.body)
    splitter = None
    for n in pv.body:
        if isinstance(n, ast.Assign) and norm(n.targets[0]) == "tok":
            splitter = norm(n.value)
    if splitter is None:
        raise AnchorLost("units.py:parse_unitvalue tok = s.split()")
    value_reader = join = empty_value = empty_units = None
    units_arg = None
    for n in ast.walk(pv):
        if isinstance(n, ast.Assign) and norm(n.targets[0]) == "value" and isinstance(n.value, ast.Call) \
                and isinstance(n.value.func, ast.Name) and len(n.value.args) == 1:
            value_reader = "%s(%s)" % (n.value.func.id, norm(n.value.args[0]))
        if isinstance(n, ast.Assign) and norm(n.targets[0]) == "value" and isinstance(n.value, ast.Constant):
            empty_value = const_number(units, n.value, {})
        if isinstance(n, ast.Assign) and norm(n.targets[0]) == "us":
            v = n.value
            if isinstance(v, ast.Call) and isinstance(v.func, ast.Attribute) and v.func.attr == "join" \
                    and len(v.args) == 1 and norm(v.args[0]) == "tok[1:]":
                join = const_str(v.func.value)
        if isinstance(n, ast.AugAssign) and norm(n.target) == "us" and isinstance(n.op, ast.Add) and norm(n.value) == "tok[i]" \
                and join is None:
            join = ""    # token concatenation loop (`us += tok[i]`)
        if isinstance(n, ast.Assign) and norm(n.targets[0]) == "units" and isinstance(n.value, ast.Call) \
                and norm(n.value.func) == "parse_units" and len(n.value.args) == 1:
            a = n.value.args[0]
            if isinstance(a, ast.Constant):
                empty_units = const_str(a)
            else:
                units_arg = norm(a)
    if value_reader is None or join is None or empty_value is None or empty_units is None or units_arg is None:
        raise AnchorLost("units.py:parse_unitvalue value / join / empty case")

    # ------------------------------------------------------------------ Units.__str__ / UnitValue.__str__ / Units.__eq__
    us = units.func("__str__", "Units")
    skip = bare = sep = None
    keys = None
    for n in ast.walk(us):
        if isinstance(n, ast.For) and norm(n.iter) == "self.sys.keys()":
            keys = "self.sys.keys()"
        if isinstance(n, ast.If) and isinstance(n.test, ast.Compare) and norm(n.test.left) == "self.dim[k]" \
                and isinstance(n.test.ops[0], ast.NotEq):
            val = const_number(units, n.test.comparators[0], {})
            inner = [b for b in n.body if isinstance(b, ast.If)]
            if inner:
                skip = val
            else:
                bare = val
                if not (len(n.body) == 1 and norm(n.body[0]) == "s.append(self.sys[k]+str(self.dim[k]))"
                        and len(n.orelse) == 1 and norm(n.orelse[0]) == "s.append(self.sys[k])"):
                    raise AnchorLost("units.py:Units.__str__ append statements")
        if isinstance(n, ast.AugAssign) and norm(n.target) == "out" and isinstance(n.value, ast.Constant):
            sep = const_str(n.value)
    if skip is None or bare is None or sep is None or keys is None:
        raise AnchorLost("units.py:Units.__str__ structure")
    kf = units.func("keys", "_UnitsComponentDict")
    key_list = None
    for n in ast.walk(kf):
        if isinstance(n, ast.Return):
            key_list = str_list(n.value)
    if key_list is None:
        raise AnchorLost("units.py:_UnitsComponentDict.keys")
    vs = units.func("__str__", "UnitValue")
    vsep = None
    for n in ast.walk(vs):
        if isinstance(n, ast.Return):
            m = re.fullmatch(r'str\(self\.value\)\+("[^"]*")\+self\.units\.__str__\(\)', norm(n.value))
            if m:
                vsep = ast.literal_eval(m.group(1))
            # note: a blank inside the literal survives `norm` only if quoted text is kept; re-read from the AST
            if isinstance(n.value, ast.BinOp) and isinstance(n.value.left, ast.BinOp) \
                    and isinstance(n.value.left.right, ast.Constant) and isinstance(n.value.left.right.value, str) \
                    and norm(n.value.left.left) == "str(self.value)" and norm(n.value.right) == "self.units.__str__()":
                vsep = n.value.left.right.value
    if vsep is None:
        raise AnchorLost("units.py:UnitValue.__str__ return")
    ue = units.func("__eq__", "Units")
    eq_keys, eq_tests = None, []
    for n in ast.walk(ue):
        if isinstance(n, ast.For) and isinstance(n.iter, (ast.List, ast.Tuple)):
            eq_keys = str_list(n.iter)
            for st in n.body:
                if isinstance(st, ast.If) and len(st.body) == 1 and norm(st.body[0]) == "returnFalse":
                    eq_tests.append(norm(st.test))
    if eq_keys is None or not eq_tests:
        raise AnchorLost("units.py:Units.__eq__ loop")

    L = []
    L.append("namespace Strengths.Gen\n")
    L.append("/-- `parse_units`: the replace chain, then `s = s.strip()`, then `if s == \"\": return` default units,")
    L.append("then (when present) `if any(c.isspace() for c in s): raise`, then the character loop -/")
    L.append("def puRejectsInnerBlank : Bool := %s" % ("true" if guard else "false"))
    L.append("def puFirstBlockSep : Char := '%s'" % first_sep)
    L.append("/-- exponent pass: `if b[2] == \"\": b[2] = <default>`, `b[2] = <reader>(b[2])`, `if b[0] == <sep>: b[2] = -b[2]` -/")
    L.append("def puDefaultExp : String := %s" % lean_str(dflt_exp))
    L.append("def puExpReader : String := %s" % lean_str(reader))
    L.append("/-- `elif not (b[2].isascii() and (b[2][1:] if b[2][0] == \"-\" else b[2]).isdecimal()): raise` present before the reader -/")
    L.append("def puStrictExponent : Bool := %s" % ("true" if strict_exp else "false"))
    L.append("def puNegSep : Char := '%s'" % neg_sep)
    L.append("/-- `addunit`: accept test, and whether the else branch raises -/")
    L.append("def puAddUnitTest : String := %s" % lean_str(au_test))
    L.append("def puAddUnitElseRaises : Bool := %s" % ("true" if au_else_raises else "false"))
    L.append("def puUnknownUnitRaises : Bool := %s\n" % ("true" if unk else "false"))
    L.append("/-- `parse_unitvalue` -/")
    L.append("def uvStrips : Bool := %s" % ("true" if strips else "false"))
    L.append("def uvSplitter : String := %s" % lean_str(splitter))
    L.append("def uvValueReader : String := %s" % lean_str(value_reader))
    L.append("def uvUnitTokJoin : String := %s" % lean_str(join))
    L.append("def uvUnitsArg : String := %s" % lean_str(units_arg))
    L.append("def uvEmptyValue : Rat := %s" % lean_rat(empty_value))
    L.append("def uvEmptyUnits : String := %s\n" % lean_str(empty_units))
    L.append("/-- `Units.__str__`: skip exponent, bare-symbol exponent, separator, key order -/")
    L.append("def strSkipExp : Int := %d" % int(skip))
    L.append("def strBareExp : Int := %d" % int(bare))
    L.append("def strSep : String := %s" % lean_str(sep))
    L.append("def strKeys : List String := %s" % lean_list([lean_str(k) for k in key_list]))
    L.append("/-- `UnitValue.__str__` = str(value) + <sep> + str(units) -/")
    L.append("def uvStrSep : String := %s\n" % lean_str(vsep))
    L.append("/-- `Units.__eq__`: keys of the loop and the tests that return False -/")
    L.append("def unitsEqKeys : List String := %s" % lean_list([lean_str(k) for k in eq_keys]))
    L.append("def unitsEqTests : List String := %s" % lean_list([lean_str(k) for k in eq_tests]))
    L.append("\nend Strengths.Gen")
    return "\n".join(L) + "\n"


# =============================================================================================
# UnitsOps : operator wiring of UnitValue / UnitArray (C05) — normalised source text, no evaluation
# =============================================================================================
@group
def gen_UnitsOps(repo):
    units = PySrc(repo, "src/strengths/units.py")

    def norm(node):
        txt = re.sub(r"\s+", "", units.seg(node))
        return re.sub(r"\"[^\"]*\"|'[^']*'", '""', txt)

    def stmt(s):
        if isinstance(s, ast.Expr) and isinstance(s.value, ast.Constant) and isinstance(s.value.value, str):
            return None   # docstring
        if isinstance(s, ast.Return):
            return "return " + (norm(s.value) if s.value is not None else "")
        if isinstance(s, ast.Raise):
            e = s.exc
            name = e.func.id if isinstance(e, ast.Call) and isinstance(e.func, ast.Name) else (e.id if isinstance(e, ast.Name) else None)
            if name is None:
                raise AnchorLost("units.py: raise of an unexpected form: " + units.seg(s)[:60])
            return "raise " + name
        if isinstance(s, ast.If):
            out = "if " + norm(s.test) + ":{" + body(s.body) + "}"
            if s.orelse:
                out += "else:{" + body(s.orelse) + "}"
            return out
        if isinstance(s, (ast.Assign, ast.AugAssign)):
            return norm(s)
        if isinstance(s, ast.For):
            return "for " + norm(s.target) + " in " + norm(s.iter) + ":{" + body(s.body) + "}"
        raise AnchorLost("units.py: statement outside the normalised subset: " + units.seg(s)[:60])

    def body(stmts):
        return ";".join(x for x in (stmt(s) for s in stmts) if x is not None)

    def branches(fn):
        """the top-level if/elif/else chain of a method: [(test, body)]; other statements: ("", stmt)"""
        out = []
        for s in fn.body:
            if isinstance(s, ast.If):
                node = s
                while True:
                    out.append((norm(node.test), body(node.body)))
                    if len(node.orelse) == 1 and isinstance(node.orelse[0], ast.If):
                        node = node.orelse[0]
                    else:
                        if node.orelse:
                            out.append(("else", body(node.orelse)))
                        break
            else:
                t = stmt(s)
                if t is not None:
                    out.append(("", t))
        if not out:
            raise AnchorLost("units.py:%s has no statements" % fn.name)
        return out

    def table(name, rows):
        return "def %s : List (String × String) := %s" % (
            name, lean_list(["(%s, %s)" % (lean_str(a), lean_str(b)) for a, b in rows]))

    L = ["namespace Strengths.Gen\n"]
    dunders = ["__add__", "__radd__", "__sub__", "__rsub__", "__mul__", "__rmul__", "__truediv__", "__rtruediv__",
               "__mod__", "__rmod__", "__neg__", "__abs__", "invert"]
    for cls, pre in (("UnitValue", "uval"), ("UnitArray", "uarr")):
        rows = []
        for m in dunders:
            fn = units.func(m, cls=cls)
            b = branches(fn)
            if len(b) != 1 or b[0][0] != "" or not b[0][1].startswith("return "):
                raise AnchorLost("units.py:%s.%s is not a single return" % (cls, m))
            rows.append((m, b[0][1][len("return "):]))
        L.append("/-- `%s`: the return expression of every operator method (whitespace removed) -/" % cls)
        L.append(table(pre + "Wiring", rows))
        for m in ("_sum", "_product", "_modulo", "_rmodulo"):
            L.append("/-- `%s.%s`: (test, normalised body) per branch -/" % (cls, m))
            L.append(table(pre + m, branches(units.func(m, cls=cls))))
        for m in ("__pow__", "__rpow__"):
            L.append(table(pre + m.strip("_").capitalize(), branches(units.func(m, cls=cls))))
        # comparison methods the class defines (Python derives `!=` from `__eq__` only when `__ne__` is absent)
        cdef = None
        for n in units.tree.body:
            if isinstance(n, ast.ClassDef) and n.name == cls:
                cdef = n
        names = [f.name for f in cdef.body if isinstance(f, ast.FunctionDef)
                 and f.name in ("__eq__", "__ne__", "__neq__", "__gt__", "__ge__", "__lt__", "__le__")]
        L.append("def %sCmpMethods : List String := %s" % (pre, lean_list([lean_str(x) for x in names])))
        L.append("")
    for m in ("__eq__", "__gt__", "__ge__", "__lt__", "__le__"):
        L.append("/-- `UnitValue.%s` -/" % m)
        L.append(table("uvalCmp_" + m.strip("_"), branches(units.func(m, cls="UnitValue"))))
    L.append("")
    for m in ("invert", "multiply", "raiseto"):
        L.append("/-- `Units.%s` -/" % m)
        L.append(table("units_" + m, branches(units.func(m, cls="Units"))))
    for m in ("_neg", "_inv"):
        L.append("/-- module function `%s` -/" % m)
        L.append(table("fn" + m, branches(units.func(m))))
    L.append("\nend Strengths.Gen")
    return "\n".join(L) + "\n"


# =============================================================================================
# Geometry on the Python side (C15): are_neighbors, get_neighbors, the neighbour enumeration of
# kinetics._compute_dspeciesdt_grid, coarsegrain.grid_to_graph, RDGraphSpace.get_edge/get_cell_index
# =============================================================================================
class _ExprTrMin(ExprTr):
    """ExprTr + two-argument `min(a, b)`"""

    def tr(self, n):
        k = self.key(n)
        if k in self.names:
            return self.names[k]
        if isinstance(n, ast.Call) and isinstance(n.func, ast.Name) and n.func.id == "min" and len(n.args) == 2 and not n.keywords:
            return "(min %s %s)" % (self.tr(n.args[0]), self.tr(n.args[1]))
        return ExprTr.tr(self, n)


def _norm(src, node):
    return re.sub(r"\s+", "", src.seg(node))


def _triple(src, node, names, what):
    if not isinstance(node, (ast.Tuple, ast.List)) or len(node.elts) != 3:
        raise AnchorLost(what + ": coordinate triple")
    return "(%s, %s, %s)" % tuple(_ExprTrMin(src, names).tr(e) for e in node.elts)


def _single_call_arg(node, attr):
    """node is `<something>.<attr>(ARG)`: return ARG"""
    if isinstance(node, ast.Call) and isinstance(node.func, ast.Attribute) and node.func.attr == attr and len(node.args) == 1 \
            and not node.keywords:
        return node.args[0]
    return None


@group
def gen_GeomPy(repo):
    grid = PySrc(repo, "src/strengths/rdgridspace.py")
    L = ["namespace Strengths.Gen\n"]
    AX = "xyz"
    SZ = {"x": "self.w", "y": "self.h", "z": "self.d"}

    # ---------------------------------------------------------------- RDGridSpace.are_neighbors
    an = grid.func("are_neighbors", "RDGridSpace")
    guards = 0
    for st in an.body:
        if isinstance(st, ast.If) and re.fullmatch(r"notself\.is_within_bounds\(position[12]\)", _norm(grid, st.test)) \
                and any(isinstance(b, ast.Raise) for b in st.body):
            guards += 1
    coord_src = {}
    for st in an.body:
        if isinstance(st, ast.Assign) and len(st.targets) == 1 and isinstance(st.targets[0], ast.Name) \
                and st.targets[0].id in ("coord1", "coord2"):
            coord_src[st.targets[0].id] = _norm(grid, st.value)
    for k in (1, 2):
        if coord_src.get("coord%d" % k) != "self.get_cell_coordinates(self.get_cell_index(position%d))" % k:
            raise AnchorLost("rdgridspace.py:are_neighbors coord%d assignment" % k)
    dist, wrap = {}, {}
    for st in an.body:
        if isinstance(st, ast.Assign) and len(st.targets) == 1 and isinstance(st.targets[0], ast.Name) \
                and st.targets[0].id in ("dx", "dy", "dz"):
            a = AX.index(st.targets[0].id[1])
            dist[a] = _ExprTrMin(grid, {"coord1[%d]" % a: "p", "coord2[%d]" % a: "q"}).tr(st.value)
        if isinstance(st, ast.If):
            m = re.fullmatch(r'self\._boundary_conditions\["([xyz])"\]=="periodical"', _norm(grid, st.test))
            if m:
                ax = m.group(1)
                if len(st.body) != 1 or st.orelse or not isinstance(st.body[0], ast.Assign) \
                        or _norm(grid, st.body[0].targets[0]) != "d" + ax:
                    raise AnchorLost("rdgridspace.py:are_neighbors periodic branch of axis " + ax)
                wrap[AX.index(ax)] = _ExprTrMin(grid, {"d" + ax: "dd", SZ[ax]: "n"}).tr(st.body[0].value)
    if sorted(dist) != [0, 1, 2] or sorted(wrap) != [0, 1, 2]:
        raise AnchorLost("rdgridspace.py:are_neighbors distance / periodic lines")
    ret = None
    for st in an.body:
        if isinstance(st, ast.Return):
            ret = _ExprTrMin(grid, {"dx": "dx", "dy": "dy", "dz": "dz"}).tr(st.value)
    if ret is None:
        raise AnchorLost("rdgridspace.py:are_neighbors return")
    L.append("/-- `RDGridSpace.are_neighbors`: number of leading `if not self.is_within_bounds(positionK) : raise` guards -/")
    L.append("def areNbrGuards : Nat := %d" % guards)
    for a in range(3):
        L.append("/-- axis %d: `d = abs(coord1[%d] - coord2[%d])` -/" % (a, a, a))
        L.append("def areNbrDist%d (p q : Int) : Int := %s" % (a, dist[a]))
        L.append("/-- axis %d, periodic: new distance from axis size `n` and distance `dd` -/" % a)
        L.append("def areNbrWrap%d (n dd : Int) : Int := %s" % (a, wrap[a]))
    L.append("def areNbrTest (dx dy dz : Int) : Bool := %s\n" % ret)

    # ---------------------------------------------------------------- RDGridSpace.get_neighbors
    gn = grid.func("get_neighbors", "RDGridSpace")
    names = {"x": "x", "y": "y", "z": "z", "self.w": "w", "self.h": "h", "self.d": "d",
             'self._boundary_conditions["x"]=="periodical"': "px",
             'self._boundary_conditions["y"]=="periodical"': "py",
             'self._boundary_conditions["z"]=="periodical"': "pz"}
    # structural prologue: L1 = self.get_cell_index(<param>); a, b, c = self.get_cell_coordinates(L1); LST = [] ... return LST
    # (the names of the locals are free: a local rename does not lose the anchor)
    npar = gn.args.args[1].arg
    iloc = [st.targets[0].id for st in gn.body if isinstance(st, ast.Assign) and isinstance(st.targets[0], ast.Name)
            and _norm(grid, st.value) == "self.get_cell_index(%s)" % npar]
    cloc = [[e.id for e in st.targets[0].elts] for st in gn.body if isinstance(st, ast.Assign) and isinstance(st.targets[0], ast.Tuple)
            and len(iloc) == 1 and _norm(grid, st.value) == "self.get_cell_coordinates(%s)" % iloc[0]
            and all(isinstance(e, ast.Name) for e in st.targets[0].elts)]
    lst = [st.targets[0].id for st in gn.body if isinstance(st, ast.Assign) and isinstance(st.targets[0], ast.Name)
           and _norm(grid, st.value) == "[]"]
    ret = gn.body[-1]
    if len(iloc) != 1 or len(cloc) != 1 or len(cloc[0]) != 3 or len(lst) != 1 \
            or not (isinstance(ret, ast.Return) and _norm(grid, ret.value) == lst[0]):
        raise AnchorLost("rdgridspace.py:get_neighbors prologue")
    names = dict(names)
    for k in ("x", "y", "z"):
        names.pop(k, None)
    names.update({cloc[0][0]: "x", cloc[0][1]: "y", cloc[0][2]: "z"})
    rules = []
    for st in gn.body:
        if isinstance(st, ast.If):
            if st.orelse or len(st.body) != 1 or not isinstance(st.body[0], ast.Expr):
                raise AnchorLost("rdgridspace.py:get_neighbors rule shape")
            arg = _single_call_arg(st.body[0].value, "append")
            inner = _single_call_arg(arg, "get_cell_index") if arg is not None else None
            if inner is None or _norm(grid, st.body[0].value.func) != lst[0] + ".append":
                raise AnchorLost("rdgridspace.py:get_neighbors rule body")
            rules.append("(%s, %s)" % (_ExprTrMin(grid, names).tr(st.test), _triple(grid, inner, names, "get_neighbors")))
    if not rules:
        raise AnchorLost("rdgridspace.py:get_neighbors rules")
    L.append("/-- `RDGridSpace.get_neighbors`: the `if COND : neighbors.append(self.get_cell_index((a, b, c)))` lines, in order -/")
    L.append("def getNbrRules (w h d : Int) (px py pz : Bool) (x y z : Int) : List (Bool × Int × Int × Int) := [\n  %s]\n"
             % ",\n  ".join(rules))

    # ---------------------------------------------------------------- kinetics._compute_dspeciesdt_grid
    kin = PySrc(repo, "src/strengths/kinetics.py")
    fn = kin.func("_compute_dspeciesdt_grid")
    loop = None
    for st in fn.body:
        if isinstance(st, ast.For) and isinstance(st.target, ast.Name) and st.target.id == "c" and isinstance(st.iter, ast.List):
            loop = st
    if loop is None:
        raise AnchorLost("kinetics.py:_compute_dspeciesdt_grid neighbour loop")
    p_src = None
    for st in fn.body:
        if isinstance(st, ast.Assign) and _norm(kin, st.targets[0]) == "p":
            p_src = _norm(kin, st.value)
    if p_src != "system.space.get_cell_coordinates(system.space.get_cell_index(position))":
        raise AnchorLost("kinetics.py:_compute_dspeciesdt_grid p assignment")
    pn = {"p[0]": "x", "p[1]": "y", "p[2]": "z"}
    deltas = [_triple(kin, e, pn, "kinetics neighbour list") for e in loop.iter.elts]
    ksz = {"x": "system.space.w", "y": "system.space.h", "z": "system.space.d"}
    kcond, kwrap, kguard, kcall = {}, {}, False, None
    for st in loop.body:
        if not isinstance(st, ast.If):
            raise AnchorLost("kinetics.py:_compute_dspeciesdt_grid loop body statement")
        t = _norm(kin, st.test)
        if t == "system.space.is_within_bounds(c)":
            kguard = True
            for b in st.body:
                if isinstance(b, ast.Assign) and isinstance(b.value, ast.Call) and _norm(kin, b.value.func) == "compute_diffusion_rates":
                    kcall = [_norm(kin, a) for a in b.value.args]
            continue
        m = re.search(r'system\.space\._boundary_conditions\["([xyz])"\]', t)
        if not m:
            raise AnchorLost("kinetics.py:_compute_dspeciesdt_grid unexpected condition " + t[:60])
        ax = m.group(1)
        a = AX.index(ax)
        if st.orelse or len(st.body) != 1 or not isinstance(st.body[0], ast.Assign) or _norm(kin, st.body[0].targets[0]) != "c[%d]" % a:
            raise AnchorLost("kinetics.py:_compute_dspeciesdt_grid wrap line of axis " + ax)
        kcond[a] = _ExprTrMin(kin, {'system.space._boundary_conditions["%s"]=="periodical"' % ax: "p", ksz[ax]: "n"}).tr(st.test)
        kwrap[a] = _ExprTrMin(kin, {ksz[ax]: "n", "c[%d]" % a: "c"}).tr(st.body[0].value)
    if sorted(kcond) != [0, 1, 2] or not kguard or kcall is None:
        raise AnchorLost("kinetics.py:_compute_dspeciesdt_grid wrap lines / bounds guard")
    if kcall[:4] != ["system", "species", "p", "c"]:
        raise AnchorLost("kinetics.py:_compute_dspeciesdt_grid compute_diffusion_rates arguments")
    L.append("/-- `_compute_dspeciesdt_grid`: the candidate list `for c in [[p[0]+1, p[1], p[2]], …]` -/")
    L.append("def kinDeltas (x y z : Int) : List (Int × Int × Int) := %s" % lean_list(deltas))
    for a in range(3):
        L.append("/-- axis %d: condition of the wrap line (`p` = axis is periodical, `n` = axis size) and the wrapped coordinate -/" % a)
        L.append("def kinWrapCond%d (p : Bool) (n : Int) : Bool := %s" % (a, kcond[a]))
        L.append("def kinWrap%d (n c : Int) : Int := %s" % (a, kwrap[a]))
    L.append("/-- the candidate is used only `if system.space.is_within_bounds(c)` -/")
    L.append("def kinBoundsGuard : Bool := true\n")
    # compute_diffusion_rates: the neighbour tests
    cdr = kin.func("compute_diffusion_rates")
    tests = []
    for st in cdr.body:
        if isinstance(st, ast.If) and any(isinstance(b, ast.Raise) for b in st.body):
            tests.append(_norm(kin, st.test))
    want = ["type(system.space)==RDGridSpaceandnotsystem.space.are_neighbors(src_position_index,dst_position_index)",
            "type(system.space)==RDGraphSpaceandsystem.space.get_edge(src_position_index,dst_position_index)isNone"]
    L.append("/-- `compute_diffusion_rates`: the two raising neighbour tests (normalised text) -/")
    L.append("def diffRateNbrTests : List String := %s\n" % lean_list([lean_str(t) for t in tests]))

    # ---------------------------------------------------------------- coarsegrain.grid_to_graph
    cg = PySrc(repo, "src/strengths/coarsegrain.py")
    g2g = cg.func("grid_to_graph")
    gnm = {"x": "x", "y": "y", "z": "z", "grid.w": "w", "grid.h": "h", "grid.d": "d"}
    assigns = {}
    for st in g2g.body:
        if isinstance(st, ast.Assign) and isinstance(st.targets[0], ast.Name):
            assigns[st.targets[0].id] = _norm(cg, st.value)
    for k in ("edge_dst", "edge_sfc", "graph"):
        if k not in assigns:
            raise AnchorLost("coarsegrain.py:grid_to_graph assignment to " + k)

    def kwargs(call):
        return [(kw.arg, _norm(cg, kw.value)) for kw in call.keywords]

    def edge_call(stmt, what):
        """stmt: `edges.append(RDGraphSpaceEdge(i=grid.get_cell_index(T1), j=grid.get_cell_index(T2), surface=…, …))`"""
        if not isinstance(stmt, ast.Expr):
            raise AnchorLost(what + ": statement")
        arg = _single_call_arg(stmt.value, "append")
        if arg is None or _norm(cg, stmt.value.func) != "edges.append" or not isinstance(arg, ast.Call) \
                or _norm(cg, arg.func) != "RDGraphSpaceEdge" or arg.args:
            raise AnchorLost(what + ": edges.append(RDGraphSpaceEdge(...))")
        kw = {k.arg: k.value for k in arg.keywords}
        ends = []
        for nm in ("i", "j"):
            t = _single_call_arg(kw.get(nm), "get_cell_index") if nm in kw else None
            if t is None or _norm(cg, kw[nm].func) != "grid.get_cell_index":
                raise AnchorLost(what + ": end " + nm)
            ends.append(_triple(cg, t, gnm, what))
        rest = sorted((k, _norm(cg, v)) for k, v in kw.items() if k not in ("i", "j"))
        return ends, rest

    def loops(st, what):
        """nest of `for v in range(grid.X)`; returns ([(v, bound)], innermost body)"""
        order = []
        while True:
            if not (isinstance(st, ast.For) and isinstance(st.target, ast.Name) and not st.orelse):
                raise AnchorLost(what + ": loop nest")
            b = _single_call_arg(st.iter, "range") if isinstance(st.iter, ast.Call) and isinstance(st.iter.func, ast.Attribute) else None
            if not (isinstance(st.iter, ast.Call) and isinstance(st.iter.func, ast.Name) and st.iter.func.id == "range" and len(st.iter.args) == 1):
                raise AnchorLost(what + ": range loop")
            order.append((st.target.id, _norm(cg, st.iter.args[0])))
            if len(st.body) == 1 and isinstance(st.body[0], ast.For):
                st = st.body[0]
            else:
                return order, st.body

    node_kw, inner_order, inner_rules, edge_rest = None, None, [], set()
    per = {}
    per_order = []
    for st in g2g.body:
        if isinstance(st, ast.For):
            order, body = loops(st, "grid_to_graph")
            if len(order) == 1:   # node loop
                if order != [("i", "grid.size()")] or len(body) != 1:
                    raise AnchorLost("coarsegrain.py:grid_to_graph node loop")
                arg = _single_call_arg(body[0].value, "append") if isinstance(body[0], ast.Expr) else None
                if arg is None or _norm(cg, body[0].value.func) != "nodes.append" or _norm(cg, arg.func) != "RDGraphSpaceNode" or arg.args:
                    raise AnchorLost("coarsegrain.py:grid_to_graph node construction")
                node_kw = kwargs(arg)
            else:
                inner_order = order
                for b in body:
                    if not isinstance(b, ast.If) or b.orelse or len(b.body) != 1:
                        raise AnchorLost("coarsegrain.py:grid_to_graph inner rule shape")
                    ends, rest = edge_call(b.body[0], "grid_to_graph inner edge")
                    edge_rest.add(tuple(rest))
                    inner_rules.append("(%s, %s, %s)" % (_ExprTrMin(cg, gnm).tr(b.test), ends[0], ends[1]))
        elif isinstance(st, ast.If):
            m = re.fullmatch(r'grid\.get_boundary_conditions\(\)\["([xyz])"\]=="periodical"', _norm(cg, st.test))
            if not m or st.orelse or len(st.body) != 1:
                raise AnchorLost("coarsegrain.py:grid_to_graph periodic block")
            order, body = loops(st.body[0], "grid_to_graph periodic block")
            if len(body) != 1:
                raise AnchorLost("coarsegrain.py:grid_to_graph periodic block body")
            ends, rest = edge_call(body[0], "grid_to_graph periodic edge")
            edge_rest.add(tuple(rest))
            per[m.group(1)] = (order, ends)
            per_order.append(m.group(1))
    if node_kw is None or inner_order is None or not inner_rules or sorted(per) != ["x", "y", "z"]:
        raise AnchorLost("coarsegrain.py:grid_to_graph structure")
    if len(edge_rest) != 1:
        raise AnchorLost("coarsegrain.py:grid_to_graph edges do not all use the same surface/distance/units arguments")

    def pairs(l):
        return lean_list(["(%s, %s)" % (lean_str(a), lean_str(b)) for a, b in l])
    L.append("/-- `grid_to_graph`: edge length and face area expressions, node and edge constructor arguments -/")
    L.append("def g2gEdgeDst : String := %s" % lean_str(assigns["edge_dst"]))
    L.append("def g2gEdgeSfc : String := %s" % lean_str(assigns["edge_sfc"]))
    L.append("def g2gNodeArgs : List (String × String) := %s" % pairs(node_kw))
    L.append("def g2gEdgeArgs : List (String × String) := %s" % pairs(list(edge_rest)[0]))
    L.append("def g2gGraphCtor : String := %s" % lean_str(assigns["graph"]))
    L.append("/-- loop nest of the interior edges (outermost first) and its `if COND : edge(i-coords, j-coords)` lines -/")
    L.append("def g2gInnerLoops : List (String × String) := %s" % pairs(inner_order))
    L.append("def g2gInnerRules (w h d x y z : Int) : List (Bool × (Int × Int × Int) × (Int × Int × Int)) := [\n  %s]"
             % ",\n  ".join(inner_rules))
    L.append("/-- the periodic blocks, in source order; per axis: loop nest, i-coords, j-coords -/")
    L.append("def g2gPerOrder : List String := %s" % lean_list([lean_str(a) for a in per_order]))
    for a, ax in enumerate(AX):
        order, ends = per[ax]
        L.append("def g2gPerLoops%d : List (String × String) := %s" % (a, pairs(order)))
        L.append("def g2gPerI%d (w h d x y z : Int) : Int × Int × Int := %s" % (a, ends[0]))
        L.append("def g2gPerJ%d (w h d x y z : Int) : Int × Int × Int := %s" % (a, ends[1]))
    L.append("")

    # ---------------------------------------------------------------- RDGraphSpace.get_edge / get_cell_index
    graph = PySrc(repo, "src/strengths/rdgraphspace.py")
    ge = graph.func("get_edge", "RDGraphSpace")
    em = None
    for st in ge.body:
        if isinstance(st, ast.For) and _norm(graph, st.iter) == "self.edges" and _norm(graph, st.target) == "edge":
            for b in st.body:
                if isinstance(b, ast.If) and any(isinstance(r, ast.Return) and _norm(graph, r.value) == "edge" for r in b.body):
                    em = _ExprTrMin(graph, {"edge.i": "ei", "edge.j": "ej", "i": "i", "j": "j"}).tr(b.test)
    last = ge.body[-1]
    if em is None or not (isinstance(last, ast.Return) and _norm(graph, last.value) == "None"):
        raise AnchorLost("rdgraphspace.py:get_edge loop / final return None")
    L.append("/-- `RDGraphSpace.get_edge`: the first edge satisfying this test is returned, `None` when there is none -/")
    L.append("def edgeMatches (ei ej i j : Int) : Bool := %s" % em)
    gci = graph.func("get_cell_index", "RDGraphSpace")
    bad = None
    # the local that holds `int(<position parameter>)`, whatever it is called (a local rename does not lose the anchor)
    gpar = gci.args.args[1].arg
    gloc = [st.targets[0].id for st in gci.body if isinstance(st, ast.Assign) and isinstance(st.targets[0], ast.Name)
            and _norm(graph, st.value) == "int(%s)" % gpar]
    for st in gci.body:
        if isinstance(st, ast.If) and any(isinstance(b, ast.Raise) for b in st.body) and len(gloc) == 1:
            bad = _ExprTrMin(graph, {gloc[0]: "p", "self.size()": "size"}).tr(st.test)
    if bad is None:
        raise AnchorLost("rdgraphspace.py:get_cell_index range test")
    L.append("/-- `RDGraphSpace.get_cell_index`: raises when this holds -/")
    L.append("def graphIndexBad (size p : Int) : Bool := %s" % bad)
    L.append("\nend Strengths.Gen")
    return "\n".join(L) + "\n"


# =============================================================================================
# RDSystem defaults and accessors (C13): which units system the default state is expressed in, the fallback chain of
# get_value_in_env, the default density / chemostat values, the wrapping of raw numbers in set_state
# =============================================================================================
@group
def gen_SystemPy(repo):
    rds = PySrc(repo, "src/strengths/rdsystem.py")
    vp = PySrc(repo, "src/strengths/value_processing.py")
    L = ["namespace Strengths.Gen\n"]

    # ---- get_value_in_env: dict -> [environment, "default"] -> default ; else the value itself
    gv = vp.func("get_value_in_env")
    top = gv.body[-1] if isinstance(gv.body[-1], ast.If) else None
    if top is None or _norm(vp, top.test) != "isdict(value)" or len(top.orelse) != 1 or _norm(vp, top.orelse[0]) != "returnvalue":
        raise AnchorLost("value_processing.py:get_value_in_env outer shape")
    chain = []
    node = top.body[0] if len(top.body) == 1 else None
    while isinstance(node, ast.If):
        m = re.fullmatch(r"(.+)inlist\(value\)", _norm(vp, node.test))
        if not m or len(node.body) != 1 or _norm(vp, node.body[0]) != "returnvalue[%s]" % m.group(1):
            raise AnchorLost("value_processing.py:get_value_in_env lookup chain")
        chain.append(m.group(1))
        if len(node.orelse) == 1 and isinstance(node.orelse[0], ast.If):
            node = node.orelse[0]
        else:
            if len(node.orelse) != 1 or _norm(vp, node.orelse[0]) != "returndefault":
                raise AnchorLost("value_processing.py:get_value_in_env final default")
            node = None
    if not chain or chain[0] != "environment":
        raise AnchorLost("value_processing.py:get_value_in_env first lookup")
    fall = []
    for c in chain[1:]:
        if not (c.startswith('"') and c.endswith('"')):
            raise AnchorLost("value_processing.py:get_value_in_env fallback key " + c)
        fall.append(c[1:-1])
    L.append("/-- `get_value_in_env`: keys tried after the environment label itself, in order; then the `default` argument -/")
    L.append("def envFallbackKeys : List String := %s\n" % lean_list([lean_str(c) for c in fall]))

    # ---- generate_species_state
    gss = rds.func("generate_species_state")
    call_ = None
    formula = None
    for n in ast.walk(gss):
        if isinstance(n, ast.Call) and _norm(rds, n.func) == "valproc.get_value_in_env":
            call_ = {k.arg: k.value for k in n.keywords}
        if isinstance(n, ast.Assign) and _norm(rds, n.targets[0]) == "state[i]":
            formula = _norm(rds, n.value)
    if call_ is None or sorted(call_) != ["default", "environment", "value"]:
        raise AnchorLost("rdsystem.py:generate_species_state get_value_in_env call")
    if _norm(rds, call_["value"]) != "species.density" or _norm(rds, call_["environment"]) != "network.environments[cell_env[i]]":
        raise AnchorLost("rdsystem.py:generate_species_state value / environment arguments")
    dflt = call_["default"]
    if not (isinstance(dflt, ast.Call) and _norm(rds, dflt.func) == "UnitValue" and len(dflt.args) == 2):
        raise AnchorLost("rdsystem.py:generate_species_state default density")
    dval = const_number(rds, dflt.args[0], {})
    dunit = const_str(dflt.args[1])
    ret = _norm(rds, gss.body[-1].value) if isinstance(gss.body[-1], ast.Return) else None
    if formula is None or ret is None:
        raise AnchorLost("rdsystem.py:generate_species_state entry formula / return")
    L.append("/-- `generate_species_state`: default density, entry formula, returned array (normalised source text) -/")
    L.append("def defaultDensityValue : Rat := %s" % lean_rat(dval))
    L.append("def defaultDensityUnit : String := %s" % lean_str(dunit))
    L.append("def speciesStateEntry : String := %s" % lean_str(formula))
    L.append("def speciesStateReturn : String := %s\n" % lean_str(ret))

    # ---- generate_species_chemostats
    gsc = rds.func("generate_species_chemostats")
    call_, entry = None, None
    for n in ast.walk(gsc):
        if isinstance(n, ast.Call) and _norm(rds, n.func) == "valproc.get_value_in_env":
            call_ = {k.arg: k.value for k in n.keywords}
        if isinstance(n, ast.Assign) and _norm(rds, n.targets[0]) == "chstt[i]":
            entry = _norm(rds, n.value)
    if call_ is None or _norm(rds, call_.get("value")) != "species.chstt" \
            or _norm(rds, call_.get("environment")) != "network.environments[cell_env[i]]" or entry is None:
        raise AnchorLost("rdsystem.py:generate_species_chemostats")
    L.append("/-- `generate_species_chemostats`: default flag and entry conversion -/")
    L.append("def defaultChemostatValue : Int := (%d : Int)" % int(const_number(rds, call_["default"], {})))
    L.append("def speciesChemEntry : String := %s\n" % lean_str(entry))

    # ---- generate_system_state / chemostats: per species, default branch, concatenation order
    def concat_of(fn, what):
        loop = None
        for st in fn.body:
            if isinstance(st, ast.For) and _norm(rds, st.iter) == "network.species":
                loop = st
        if loop is None or len(loop.body) != 1 or not isinstance(loop.body[0], ast.If):
            raise AnchorLost("rdsystem.py:%s species loop" % what)
        return [_norm(rds, s) for s in loop.body[0].orelse]
    L.append("/-- `generate_system_state` / `generate_system_chemostats`: the default branch of the per-species loop -/")
    L.append("def systemStateDefaultBranch : List String := %s" % lean_list([lean_str(x) for x in concat_of(rds.func("generate_system_state"), "generate_system_state")]))
    L.append("def systemChemDefaultBranch : List String := %s\n" % lean_list([lean_str(x) for x in concat_of(rds.func("generate_system_chemostats"), "generate_system_chemostats")]))

    # ---- RDSystem.set_default_state / set_default_chemostats / set_state / set_chemostat / getters
    def body_text(name):
        fn = rds.func(name, "RDSystem")
        return [_norm(rds, s) for s in fn.body if not (isinstance(s, ast.Expr) and isinstance(s.value, ast.Constant))]
    sds = body_text("set_default_state")
    m = re.fullmatch(r"self\._state=generate_system_state\(self\.network,self\.space,(self\.[a-z_.]+),override_species_state_dict\)", sds[0]) if len(sds) == 1 else None
    if not m:
        raise AnchorLost("rdsystem.py:RDSystem.set_default_state")
    L.append("/-- `set_default_state`: the units system the default state is expressed in -/")
    L.append("def defaultStateUnitsSource : String := %s" % lean_str(m.group(1)))
    L.append("def setDefaultChemostatsBody : List String := %s" % lean_list([lean_str(x) for x in body_text("set_default_chemostats")]))
    L.append("def setStateBody : List String := %s" % lean_list([lean_str(x) for x in body_text("set_state")]))
    L.append("def setChemostatBody : List String := %s" % lean_list([lean_str(x) for x in body_text("set_chemostat")]))
    L.append("def getStateBody : List String := %s" % lean_list([lean_str(x) for x in body_text("get_state")]))
    L.append("def getChemostatBody : List String := %s" % lean_list([lean_str(x) for x in body_text("get_chemostat")]))
    L.append("def getStateIndexBody : List String := %s" % lean_list([lean_str(x) for x in body_text("get_state_index")]))
    # ---- RDSystem.space setter: validation of the space's environment map against the network (absent in older trees)
    bad = None
    for n in rds.tree.body:
        if isinstance(n, ast.ClassDef) and n.name == "RDSystem":
            for fn in n.body:
                if isinstance(fn, ast.FunctionDef) and fn.name == "space" and len(fn.args.args) == 2:
                    for st in fn.body:
                        if isinstance(st, ast.For) and _norm(rds, st.iter) == "v.get_cell_env_array()" and _norm(rds, st.target) == "e":
                            for b in st.body:
                                if isinstance(b, ast.If) and any(isinstance(r, ast.Raise) for r in b.body):
                                    bad = _ExprTrMin(rds, {"int(e)": "e", "self.network.nenvironments()": "nenv"}).tr(b.test)
    L.append("/-- `RDSystem.space` setter: a cell environment index for which this holds is rejected (`false` = no validation) -/")
    L.append("def spaceEnvBad (nenv e : Int) : Bool := %s\n" % (bad if bad is not None else "false"))

    # ---- constructor defaults of the space classes (documented: 1 x 1 x 1 grid, environment 0, cell volume 1 in the SPACE's
    #      units system, reflecting boundaries; graph node: volume 1, environment 0; edge: surface 1, distance 1)
    gridsrc = PySrc(repo, "src/strengths/rdgridspace.py")
    graphsrc = PySrc(repo, "src/strengths/rdgraphspace.py")

    def ctor_defaults(src, cls):
        fn = src.func("__init__", cls)
        args = fn.args.args[1:]
        dfl = fn.args.defaults
        pad = [None] * (len(args) - len(dfl)) + list(dfl)
        return [(a.arg, None if v is None else _norm(src, v), v) for a, v in zip(args, pad)]

    def num_default(lst, name, what):
        """the default of parameter `name` as an exact number when it is a numeric literal, else None (e.g. a unit string:
        then the value no longer lives in the owner's units system)"""
        for a, txt, node in lst:
            if a == name:
                try:
                    return const_number(src_of[what], node, {})
                except AnchorLost:
                    return None
        raise AnchorLost("%s.__init__ parameter %s" % (what, name))
    src_of = {"RDGridSpace": gridsrc, "RDGraphSpaceNode": graphsrc, "RDGraphSpaceEdge": graphsrc, "RDGraphSpace": graphsrc, "RDSystem": rds}
    dl = {c: ctor_defaults(src_of[c], c) for c in src_of}

    def pairs2(lst):
        return lean_list(["(%s, %s)" % (lean_str(a), lean_str("<required>" if t is None else t)) for a, t, _ in lst])
    L.append("/-- constructor signatures with their defaults (normalised source text), in order -/")
    L.append("def gridCtorDefaults : List (String × String) := %s" % pairs2(dl["RDGridSpace"]))
    L.append("def graphNodeCtorDefaults : List (String × String) := %s" % pairs2(dl["RDGraphSpaceNode"]))
    L.append("def graphEdgeCtorDefaults : List (String × String) := %s" % pairs2(dl["RDGraphSpaceEdge"]))
    L.append("def graphCtorDefaults : List (String × String) := %s" % pairs2(dl["RDGraphSpace"]))
    L.append("def systemCtorDefaults : List (String × String) := %s" % pairs2(dl["RDSystem"]))

    def opt_rat(v):
        return "none" if v is None else "(some %s)" % lean_rat(v)
    L.append("/-- numeric defaults (`none` when the default is not a bare number, i.e. not expressed in the owner's units system) -/")
    L.append("def gridDefaultCellVol : Option Rat := %s" % opt_rat(num_default(dl["RDGridSpace"], "cell_vol", "RDGridSpace")))
    L.append("def gridDefaultCellEnv : Option Rat := %s" % opt_rat(num_default(dl["RDGridSpace"], "cell_env", "RDGridSpace")))
    L.append("def gridDefaultW : Option Rat := %s" % opt_rat(num_default(dl["RDGridSpace"], "w", "RDGridSpace")))
    L.append("def gridDefaultH : Option Rat := %s" % opt_rat(num_default(dl["RDGridSpace"], "h", "RDGridSpace")))
    L.append("def gridDefaultD : Option Rat := %s" % opt_rat(num_default(dl["RDGridSpace"], "d", "RDGridSpace")))
    L.append("def nodeDefaultVolume : Option Rat := %s" % opt_rat(num_default(dl["RDGraphSpaceNode"], "volume", "RDGraphSpaceNode")))
    L.append("def nodeDefaultEnv : Option Rat := %s" % opt_rat(num_default(dl["RDGraphSpaceNode"], "environment", "RDGraphSpaceNode")))
    # the boundary conditions a grid starts from (set_boundary_conditions: the literal dict it assigns before applying the argument)
    sbc = gridsrc.func("set_boundary_conditions", "RDGridSpace")
    init = None
    for st in ast.walk(sbc):
        if isinstance(st, ast.Assign) and _norm(gridsrc, st.targets[0]) == "self._boundary_conditions" and isinstance(st.value, ast.Dict):
            init = [(const_str(k), const_str(v)) for k, v in zip(st.value.keys, st.value.values)]
    ini = gridsrc.func("__init__", "RDGridSpace")
    none_to_empty = any(isinstance(st, ast.If) and _norm(gridsrc, st.test) == "isnone(boundary_conditions)"
                        and [_norm(gridsrc, b) for b in st.body] == ["boundary_conditions={}"] for st in ini.body)
    if init is None or not none_to_empty:
        raise AnchorLost("rdgridspace.py: initial boundary conditions")
    # ---- copy() of the classes a system is made of: body as normalised statements (deep copy of the whole object)
    netsrc = PySrc(repo, "src/strengths/rdnetwork.py")

    def copy_body(src, cls):
        fn = src.func("copy", cls)
        return [_norm(src, st) for st in fn.body if not (isinstance(st, ast.Expr) and isinstance(st.value, ast.Constant))]
    L.append("/-- `copy()` bodies (normalised statements): RDSystem, RDGridSpace, RDGraphSpace, RDNetwork, Species -/")
    for nm, src_, cls in (("systemCopyBody", rds, "RDSystem"), ("gridCopyBody", gridsrc, "RDGridSpace"), ("graphCopyBody", graphsrc, "RDGraphSpace"),
                          ("networkCopyBody", netsrc, "RDNetwork"), ("speciesCopyBody", netsrc, "Species")):
        L.append("def %s : List String := %s" % (nm, lean_list([lean_str(x) for x in copy_body(src_, cls)])))
    L.append("/-- boundary conditions of a grid built without the argument (`None` -> `{}` -> this dictionary) -/")
    L.append("def gridDefaultBoundary : List (String × String) := %s" %
             lean_list(["(%s, %s)" % (lean_str(a), lean_str(b)) for a, b in init]))
    L.append("\nend Strengths.Gen")
    return "\n".join(L) + "\n"


# =============================================================================================
# C19: reaction equations (rdnetwork.py Reaction, value_processing label rules)
# =============================================================================================
def _norm(src, node):
    return re.sub(r"\s+", "", src.seg(node))


def _string_consts(fn, skip_doc=True):
    """string constants of a function body in source order (docstrings skipped)"""
    doc_nodes = set()
    for n in ast.walk(fn):
        if isinstance(n, (ast.FunctionDef, ast.ClassDef)) and n.body and isinstance(n.body[0], ast.Expr) \
                and isinstance(n.body[0].value, ast.Constant) and isinstance(n.body[0].value.value, str):
            doc_nodes.add(id(n.body[0].value))
    out = []
    for n in ast.walk(fn):
        if isinstance(n, ast.Constant) and isinstance(n.value, str) and id(n) not in doc_nodes:
            out.append((n.lineno, n.col_offset, n.value))
    return [v for _, _, v in sorted(out)]


def _raises(stmts):
    return any(isinstance(s, ast.Raise) for s in stmts)


def _locals_of(fn):
    """local variable names of a function (parameters except self, assignment / for / with targets, of nested
    functions too), in order of first binding"""
    found = []

    def add(name, pos):
        if name != "self":
            found.append((pos, name))
    for n in ast.walk(fn):
        if isinstance(n, (ast.FunctionDef, ast.Lambda)):
            for a in n.args.args + n.args.kwonlyargs:
                add(a.arg, (a.lineno, a.col_offset))
        elif isinstance(n, ast.Name) and isinstance(n.ctx, ast.Store):
            add(n.id, (n.lineno, n.col_offset))
    out = []
    for _, name in sorted(found):
        if name not in out:
            out.append(name)
    return out


def _alpha(fn):
    """text normaliser that replaces the function's local variable names by v0, v1, … (order of first binding), so that
    anchors on statement text do not depend on how locals are called"""
    names = _locals_of(fn)
    if not names:
        return lambda t: t
    rx = re.compile(r"(?<![\.\w\"'])(%s)(?![\w\"'])" % "|".join(re.escape(x) for x in sorted(names, key=len, reverse=True)))
    return lambda t: rx.sub(lambda m: "v%d" % names.index(m.group(1)), t)



def _sum_loop(src, fn):
    """`acc = 0; for k in list(self.X): acc += self.X[k]` with free names: returns (X, acc) or (None, None)"""
    for n in ast.walk(fn):
        if isinstance(n, ast.For) and len(n.body) == 1 and isinstance(n.body[0], ast.AugAssign) \
                and isinstance(n.body[0].op, ast.Add) and isinstance(n.body[0].target, ast.Name) and isinstance(n.target, ast.Name):
            m = re.fullmatch(r"self\.(\w+)\[(\w+)\]", _norm(src, n.body[0].value))
            it = re.fullmatch(r"list\(self\.(\w+)\)", _norm(src, n.iter))
            acc = n.body[0].target.id
            init = [a for a in fn.body if isinstance(a, ast.Assign) and getattr(a.targets[0], "id", "") == acc
                    and isinstance(a.value, ast.Constant) and a.value.value == 0]
            if m and it and m.group(1) == it.group(1) and m.group(2) == n.target.id and init:
                return m.group(1), acc
    return None, None



@group
def gen_Network(repo):
    net = PySrc(repo, "src/strengths/rdnetwork.py")
    vp = PySrc(repo, "src/strengths/value_processing.py")
    L = ["namespace Strengths.Gen\n"]

    # ---- k*_units_dimensions: UnitsDimensions(space=.., time=.., quantity=..) over `count`
    dims = {}
    over = {}
    for fname in ("kf_units_dimensions", "kr_units_dimensions"):
        fn = net.func(fname, "Reaction")
        call = None
        for n in ast.walk(fn):
            if isinstance(n, ast.Return) and isinstance(n.value, ast.Call) and getattr(n.value.func, "id", "") == "UnitsDimensions":
                call = n.value
        if call is None or call.args or sorted(k.arg for k in call.keywords) != ["quantity", "space", "time"]:
            raise AnchorLost("rdnetwork.py:%s return UnitsDimensions(space=,time=,quantity=)" % fname)
        # what is summed: `acc += self._X[k]` inside `for k in list(self._X)`, `acc = 0` before (names free)
        o, accname = _sum_loop(net, fn)
        if o is None:
            raise AnchorLost("rdnetwork.py:%s count loop" % fname)
        tr = ExprTr(net, {accname: "count"})
        dims[fname] = {k.arg: tr.tr(k.value) for k in call.keywords}
        over[fname] = o
    if dims["kf_units_dimensions"] != dims["kr_units_dimensions"]:
        raise AnchorLost("rdnetwork.py: kf/kr_units_dimensions formulas differ")
    d = dims["kf_units_dimensions"]
    L.append("/-- `Reaction.kf_units_dimensions` / `kr_units_dimensions` (identical formulas) over `count` -/")
    L.append("def kDimSpace (count : Int) : Int := %s" % d["space"])
    L.append("def kDimTime (count : Int) : Int := %s" % d["time"])
    L.append("def kDimQty (count : Int) : Int := %s" % d["quantity"])
    L.append("/-- the dictionaries whose values are summed into `count` -/")
    L.append("def kfCountsOver : String := %s" % lean_str(over["kf_units_dimensions"]))
    L.append("def krCountsOver : String := %s\n" % lean_str(over["kr_units_dimensions"]))

    # ---- kf / kr setters: which dimension function, which acceptance flags
    def setter(cls, prop, src=net):
        for n in src.tree.body:
            if isinstance(n, ast.ClassDef) and n.name == cls:
                for f in n.body:
                    if isinstance(f, ast.FunctionDef) and f.name == prop and any(
                            isinstance(dd, ast.Attribute) and dd.attr == "setter" for dd in f.decorator_list):
                        return f
        raise AnchorLost("%s:%s.%s setter" % (src.rel, cls, prop))

    def unitvar_call(fn, src=net):
        for n in ast.walk(fn):
            if isinstance(n, ast.Call) and _norm(src, n.func) == "valproc.process_unitvar_input":
                args = [_norm(src, a) for a in n.args]
                kw = {k.arg: _norm(src, k.value) for k in n.keywords}
                return args, kw
        raise AnchorLost("%s:%s process_unitvar_input call" % (src.rel, fn.name))
    rows = []
    for cls, prop in (("Reaction", "kf"), ("Reaction", "kr"), ("Species", "D"), ("Species", "density")):
        args, kw = unitvar_call(setter(cls, prop))
        if len(args) != 3:
            raise AnchorLost("rdnetwork.py:%s.%s process_unitvar_input positional arguments" % (cls, prop))
        rows.append((cls + "." + prop, args[1], args[2], kw.get("accepts_singlevalue", ""), kw.get("accepts_dict", ""), kw.get("accepts_array", "")))
    L.append("/-- `process_unitvar_input` calls of the setters: (property, units system, dimensions, single, dict, array) -/")
    L.append("def unitVarSetters : List (String × String × String × String × String × String) := %s\n" % lean_list(
        ["(%s)" % ", ".join(lean_str(x) for x in r) for r in rows]))

    # ---- _fromstring: separators, side count, token lengths
    fs = net.func("_fromstring", "Reaction")
    al = _alpha(fs)
    NA = lambda node: re.sub(r"\s+", "", al(net.seg(node)))   # statement text with locals renamed v0, v1, …
    seps = []
    for n in ast.walk(fs):
        if isinstance(n, ast.Call) and isinstance(n.func, ast.Attribute) and n.func.attr == "split" and len(n.args) == 1:
            seps.append((n.lineno, n.col_offset, const_str(n.args[0])))
    seps = [s for _, _, s in sorted(seps)]
    lens = []
    for n in ast.walk(fs):
        if isinstance(n, ast.Compare) and isinstance(n.left, ast.Call) and getattr(n.left.func, "id", "") == "len" \
                and isinstance(n.comparators[0], ast.Constant):
            lens.append((n.lineno, n.col_offset, "%s%s%d" % (NA(n.left), {ast.Eq: "==", ast.NotEq: "!="}.get(type(n.ops[0]), "?"),
                                                                n.comparators[0].value)))
    lens = [s for _, _, s in sorted(lens)]
    if not seps or not lens:
        raise AnchorLost("rdnetwork.py:_fromstring split separators / length tests")
    L.append("/-- `Reaction._fromstring`: separators of the `split(sep)` calls and the `len(..)` tests, in source order -/")
    L.append("def eqSplitSeps : List String := %s" % lean_list([lean_str(s) for s in seps]))
    L.append("def eqLenTests : List String := %s" % lean_list([lean_str(s) for s in lens]))
    # the accumulation `if d.get(label, None) == None : d[label] = coef  else : d[label] += coef`
    acc = None
    for n in ast.walk(fs):
        t = n.test if isinstance(n, ast.If) else None
        if t is not None and isinstance(t, ast.Compare) and len(t.ops) == 1 and isinstance(t.ops[0], ast.Eq) \
                and isinstance(t.left, ast.Call) and getattr(t.left.func, "attr", "") == "get" and len(t.left.args) == 2 \
                and isinstance(t.comparators[0], ast.Constant) and t.comparators[0].value is None \
                and len(n.body) == 1 and len(n.orelse) == 1:
            acc = (NA(n.body[0]), NA(n.orelse[0]))
    if acc is None:
        raise AnchorLost("rdnetwork.py:_fromstring repeated-label accumulation")
    L.append("def eqAccumulate : String × String := (%s, %s)" % (lean_str(acc[0]), lean_str(acc[1])))
    coef = [NA(n) for n in ast.walk(fs) if isinstance(n, ast.Assign) and (
        (isinstance(n.value, ast.Tuple) and all(isinstance(e, ast.Constant) for e in n.value.elts)) or
        (isinstance(n.value, ast.Call) and getattr(n.value.func, "id", "") == "int"))]
    L.append("def eqCoefAssigns : List String := %s\n" % lean_list([lean_str(s) for s in coef]))

    # ---- to_string: the text pieces
    ts = net.func("to_string", "Reaction")
    L.append("/-- string constants of `Reaction.to_string` in source order -/")
    L.append("def toStringConsts : List String := %s" % lean_list([lean_str(s) for s in _string_consts(ts)]))
    alts = _alpha(ts)
    tests = [(n.lineno, re.sub(r"\s+", "", alts(net.seg(n.test)))) for n in ast.walk(ts) if isinstance(n, ast.If)]
    L.append("def toStringTests : List String := %s\n" % lean_list([lean_str(s) for _, s in sorted(tests)]))

    # ---- ssto / psto / dsto / order / rorder
    def ret_listcomp(fname):
        fn = net.func(fname, "Reaction")
        for n in ast.walk(fn):
            if isinstance(n, ast.Return) and isinstance(n.value, ast.ListComp):
                lc = n.value
                if len(lc.generators) != 1 or _norm(net, lc.generators[0].iter) != fn.args.args[1].arg or lc.generators[0].ifs \
                        or not isinstance(lc.generators[0].target, ast.Name):
                    raise AnchorLost("rdnetwork.py:%s comprehension over its label-list parameter" % fname)
                return lc.elt, lc.generators[0].target.id
        raise AnchorLost("rdnetwork.py:%s return [.. for s in species_labels]" % fname)
    L.append("/-- entries of `ssto`, `psto`, `dsto` for one species (sub / prod = its coefficient in the two dictionaries) -/")
    for fname in ("ssto", "psto", "dsto"):
        elt, var = ret_listcomp(fname)
        nm = {"int(self._substrates.get(%s,0))" % var: "sub", "int(self._products.get(%s,0))" % var: "prod"}
        L.append("def %sEntry (sub prod : Int) : Int := %s" % (fname, ExprTr(net, nm).tr(elt)))
    for fname in ("order", "rorder"):
        fn = net.func(fname, "Reaction")
        o, _acc = _sum_loop(net, fn)
        if o is None:
            raise AnchorLost("rdnetwork.py:%s sum loop" % fname)
        L.append("def %sOver : String := %s" % (fname, lean_str(o)))
    L.append("")

    # ---- split(): the two Reaction(...) calls
    sp = net.func("split", "Reaction")
    calls = []
    for n in ast.walk(sp):
        if isinstance(n, ast.Call) and getattr(n.func, "id", "") == "Reaction":
            calls.append((n.lineno, sorted((k.arg, _norm(net, k.value)) for k in n.keywords)))
    if len(calls) != 2:
        raise AnchorLost("rdnetwork.py:split two Reaction(...) calls")
    L.append("/-- keyword arguments of the two `Reaction(...)` calls of `split()` (forward, reverse) -/")
    for tag, (_, kws) in zip(("Fwd", "Rev"), sorted(calls)):
        L.append("def split%s : List (String × String) := %s" % (tag, lean_list(["(%s, %s)" % (lean_str(a), lean_str(b)) for a, b in kws])))
    L.append("")

    # ---- equilibrium_constant: the ratio expressions and the zero tests
    ec = net.func("equilibrium_constant", "Reaction")
    alec = _alpha(ec)
    NE = lambda node: re.sub(r"\s+", "", alec(net.seg(node)))
    divs = sorted((n.lineno, NE(n)) for n in ast.walk(ec) if isinstance(n, ast.BinOp) and isinstance(n.op, ast.Div))
    zeros = sorted((n.lineno, NE(n.test)) for n in ast.walk(ec) if isinstance(n, ast.If) and "value==0" in _norm(net, n.test))
    if not divs or not zeros:
        raise AnchorLost("rdnetwork.py:equilibrium_constant ratio / zero test")
    L.append("def kRatios : List String := %s" % lean_list([lean_str(s) for _, s in divs]))
    L.append("def kZeroTests : List String := %s\n" % lean_list([lean_str(s) for _, s in zeros]))

    # ---- RDNetwork.environments setter: empty list and the reserved name
    es = setter("RDNetwork", "environments")
    empty, reserved = False, None
    envparam = es.args.args[1].arg
    for n in ast.walk(es):
        if isinstance(n, ast.If) and _raises(n.body):
            t = _norm(net, n.test)
            if t == "len(%s)==0" % envparam:
                empty = True
            m = re.fullmatch(r"\w+==\"(\w+)\"", t)
            if m:
                reserved = m.group(1)
    if not empty or reserved is None:
        raise AnchorLost("rdnetwork.py:RDNetwork.environments setter tests")
    L.append("/-- `RDNetwork.environments` setter: raises on an empty array and on this reserved name -/")
    L.append("def envEmptyRejected : Bool := true")
    L.append("def envReserved : String := %s\n" % lean_str(reserved))

    # ---- _assert_validity: the three raise conditions (normalised text)
    av = net.func("_assert_validity", "RDNetwork")
    alav = _alpha(av)
    conds = sorted((n.lineno, re.sub(r"\s+", "", alav(net.seg(n.test)))) for n in ast.walk(av) if isinstance(n, ast.If) and _raises(n.body))
    if len(conds) < 4:
        raise AnchorLost("rdnetwork.py:_assert_validity raise conditions")
    L.append("def validityRaiseConds : List String := %s\n" % lean_list([lean_str(s) for _, s in conds]))

    # ---- ownership of the units system: the constructor and the setter of Species / Reaction / RDNetwork store a COPY
    # of the object they are given (so that later in-place edits of the caller's object, or of the shared default
    # argument, cannot change an object already built)
    rows = []
    for cls in ("Species", "Reaction", "RDNetwork"):
        ini = None
        for n in net.tree.body:
            if isinstance(n, ast.ClassDef) and n.name == cls:
                for f in n.body:
                    if isinstance(f, ast.FunctionDef) and f.name == "__init__":
                        ini = f
        if ini is None:
            raise AnchorLost("rdnetwork.py:%s.__init__" % cls)
        par = "units_system"
        if par not in [a.arg for a in ini.args.args]:
            raise AnchorLost("rdnetwork.py:%s.__init__ units_system parameter" % cls)
        ctor_vals = [_norm(net, n.value) for n in ast.walk(ini) if isinstance(n, ast.Assign)
                     and _norm(net, n.targets[0]) == "self.units_system"]
        st = setter(cls, "units_system")
        spar = st.args.args[1].arg
        set_vals = []
        for n in ast.walk(st):
            if isinstance(n, ast.If) and ("type(%s)==UnitsSystem" % spar) in _norm(net, n.test):
                set_vals += [_norm(net, a.value) for a in n.body if isinstance(a, ast.Assign)]
        if len(ctor_vals) != 1 or len(set_vals) != 1:
            raise AnchorLost("rdnetwork.py:%s units_system assignments" % cls)
        rows.append((cls, ctor_vals[0] == par + ".copy()", set_vals[0] == spar + ".copy()"))
    L.append("/-- (class, the constructor hands a copy of its `units_system` argument to the setter, the setter stores a copy) -/")
    L.append("def unitsSystemCopied : List (String × Bool × Bool) := %s\n" % lean_list(
        ["(%s, %s, %s)" % (lean_str(c), "true" if a else "false", "true" if b else "false") for c, a, b in rows]))

    # ---- label rules
    al_fn = vp.func("assert_string_is_a_valid_label")
    allab = _alpha(al_fn)
    tests = sorted((n.lineno, re.sub(r"\s+", "", allab(vp.seg(n.test)))) for n in ast.walk(al_fn) if isinstance(n, ast.If) and _raises(n.body))
    if not tests:
        raise AnchorLost("value_processing.py:assert_string_is_a_valid_label tests")
    L.append("/-- raise conditions of `assert_string_is_a_valid_label` (per character `c` of the label) -/")
    L.append("def labelRaiseConds : List String := %s" % lean_list([lean_str(s) for _, s in tests]))
    L.append("\nend Strengths.Gen")
    return "\n".join(L) + "\n"


# =============================================================================================
# C20: validation tables (alias lists, mandatory keys, enumerations, size / range tests, field dimensions)
# =============================================================================================
_VAL_MODULES = ["units.py", "rdnetwork.py", "rdgridspace.py", "rdgraphspace.py", "rdsystem.py", "rdscript.py"]


def _class_func(src, cls, name, setter=False):
    for n in src.tree.body:
        if isinstance(n, ast.ClassDef) and n.name == cls:
            for f in n.body:
                if isinstance(f, ast.FunctionDef) and f.name == name:
                    is_setter = any(isinstance(dd, ast.Attribute) and dd.attr == "setter" for dd in f.decorator_list)
                    if is_setter == setter:
                        return f
    raise AnchorLost("%s:%s.%s%s" % (src.rel, cls, name, " setter" if setter else ""))


def _membership_lists(src, fn, var):
    """string lists L of tests `var not in L` / `not var in L` (that guard a raise) inside fn"""
    out = []
    for n in ast.walk(fn):
        if not (isinstance(n, ast.If) and _raises(n.body)):
            continue
        t = n.test
        neg = False
        if isinstance(t, ast.UnaryOp) and isinstance(t.op, ast.Not):
            t, neg = t.operand, True
        if isinstance(t, ast.Compare) and len(t.ops) == 1 and isinstance(t.comparators[0], ast.List) \
                and _norm(src, t.left) == var:
            if (isinstance(t.ops[0], ast.NotIn) and not neg) or (isinstance(t.ops[0], ast.In) and neg):
                out.append(str_list(t.comparators[0]))
    return out


def _raise_tests(src, fn):
    """tests that guard a raise, in order, with the function's locals renamed v0, v1, … (independent of their names)"""
    al = _alpha(fn)
    return [s for _, s in sorted((n.lineno, re.sub(r"\s+", "", al(src.seg(n.test)))) for n in ast.walk(fn)
                                 if isinstance(n, ast.If) and _raises(n.body))]


def _mandatory_keys(src, fn):
    """keys of `d` the function cannot do without: `if "k" in d : .. else : raise`, and `d["k"]` read outside
    any `if "k" in d` guard"""
    mand = []

    def visit(stmts, guarded):
        for st in stmts:
            if isinstance(st, ast.If):
                m = re.fullmatch(r"\"([^\"]+)\"ind", _norm(src, st.test))
                if m is None and isinstance(st.test, ast.BoolOp) and isinstance(st.test.op, ast.And):
                    # `"k" in d and <more about d["k"]>` : the first conjunct guards the others and the body
                    m0 = re.fullmatch(r"\"([^\"]+)\"ind", _norm(src, st.test.values[0]))
                    if m0:
                        for v in st.test.values[1:]:
                            scan(v, guarded | {m0.group(1)})
                        visit(st.body, guarded | {m0.group(1)})
                        visit(st.orelse, guarded)
                        continue
                if m:
                    if _raises(st.orelse) and m.group(1) not in mand:
                        mand.append(m.group(1))
                    scan(st.test, guarded)
                    visit(st.body, guarded | {m.group(1)})
                    visit(st.orelse, guarded)
                    continue
                scan(st.test, guarded)
                visit(st.body, guarded)
                visit(st.orelse, guarded)
            elif isinstance(st, (ast.For, ast.While)):
                scan(st.iter if isinstance(st, ast.For) else st.test, guarded)
                visit(st.body, guarded)
            elif isinstance(st, ast.FunctionDef):
                continue
            else:
                scan(st, guarded)

    def scan(node, guarded):
        for n in ast.walk(node):
            if isinstance(n, ast.Subscript) and isinstance(n.value, ast.Name) and n.value.id == "d" \
                    and isinstance(n.ctx, ast.Load) and isinstance(n.slice, ast.Constant) and isinstance(n.slice.value, str):
                if n.slice.value not in guarded and n.slice.value not in mand:
                    mand.append(n.slice.value)
    visit(fn.body, set())
    return mand


@group
def gen_Validation(repo):
    srcs = {m: PySrc(repo, "src/strengths/" + m) for m in _VAL_MODULES}
    L = ["namespace Strengths.Gen\n"]

    # ---- alias tables and mandatory keys of every function that calls process_input_dict_keys
    tables = []
    for m in _VAL_MODULES:
        src = srcs[m]
        for fn in src.tree.body:
            if not isinstance(fn, ast.FunctionDef):
                continue
            for n in ast.walk(fn):
                if isinstance(n, ast.Call) and _norm(src, n.func).endswith("process_input_dict_keys") and len(n.args) >= 2:
                    if not isinstance(n.args[1], ast.List):
                        raise AnchorLost("%s:%s synonyms literal" % (m, fn.name))
                    syn = [str_list(e) for e in n.args[1].elts]
                    if n.keywords or len(n.args) > 2:
                        raise AnchorLost("%s:%s process_input_dict_keys policy argument" % (m, fn.name))
                    tables.append((fn.name, syn, _mandatory_keys(src, fn)))
    want = {"unitssystem_from_dict", "unitsdimensions_from_dict", "unitarray_from_dict", "species_from_dict", "reaction_from_dict",
            "rdnetwork_from_dict", "rdgridspace_from_dict", "rdgraphspacenode_from_dict", "rdgraphspaceedge_from_dict",
            "rdgraphspace_from_dict", "rdsystem_from_dict", "rdscript_from_dict"}
    missing = want - {t[0] for t in tables}
    if missing:
        raise AnchorLost("process_input_dict_keys call in " + ", ".join(sorted(missing)))
    L.append("/-- synonym lists of every `process_input_dict_keys(d, [[..],..])` call, per enclosing function -/")
    L.append("def aliasTable : List (String × List (List String)) := [")
    L.append(",\n".join("  (%s, %s)" % (lean_str(f), lean_list([lean_list([lean_str(k) for k in s]) for s in syn])) for f, syn, _ in tables))
    L.append("]")
    L.append("/-- keys (canonical names) each of these functions cannot do without -/")
    L.append("def mandatoryKeys : List (String × List String) := %s\n" % lean_list(
        ["(%s, %s)" % (lean_str(f), lean_list([lean_str(k) for k in mand])) for f, _, mand in tables]))

    # ---- process_input_dict_keys itself: the raise sites and the default policy
    vp = PySrc(repo, "src/strengths/value_processing.py")
    pk = vp.func("process_input_dict_keys")
    dflt = [const_str(d) for d in pk.args.defaults]
    tests = []
    for n in ast.walk(pk):
        if isinstance(n, ast.If) and any(isinstance(b, ast.If) and _raises(b.body) for b in n.body):
            inner = [b for b in n.body if isinstance(b, ast.If) and _raises(b.body)][0]
            alpk = _alpha(pk)
            tests.append((n.lineno, re.sub(r"\s+", "", alpk(vp.seg(n.test))), re.sub(r"\s+", "", alpk(vp.seg(inner.test)))))
    tests = sorted(tests)
    if len(tests) != 2 or dflt != ["error"]:
        raise AnchorLost("value_processing.py:process_input_dict_keys raise sites / default policy")
    L.append("/-- `process_input_dict_keys`: default policy and the two (condition, policy test) pairs that raise -/")
    L.append("def keysDefaultPolicy : String := %s" % lean_str(dflt[0]))
    L.append("def keysRaiseSites : List (String × String) := %s" % lean_list(["(%s, %s)" % (lean_str(a), lean_str(b)) for _, a, b in tests]))
    ru = vp.func("retrive_units_system_from_dict")
    words = []
    for n in ast.walk(ru):
        if isinstance(n, ast.Compare) and _norm(vp, n.left) == "v" and isinstance(n.ops[0], ast.Eq):
            words.append((n.lineno, const_str(n.comparators[0])))
    L.append("/-- strings accepted for a \"units\" key -/")
    L.append("def unitsKeywords : List String := %s\n" % lean_list([lean_str(w) for _, w in sorted(words)]))

    # ---- enumerations
    grid, graph, script, net, rds, units = (srcs["rdgridspace.py"], srcs["rdgraphspace.py"], srcs["rdscript.py"],
                                            srcs["rdnetwork.py"], srcs["rdsystem.py"], srcs["units.py"])
    sbc = _class_func(grid, "RDGridSpace", "set_boundary_conditions")
    axes = _membership_lists(grid, sbc, "axis")
    conds = _membership_lists(grid, sbc, "boundary_conditions[axis]")
    pol = _membership_lists(script, _class_func(script, "RDScript", "sampling_policy", setter=True), "sampling_policy")
    modes = _membership_lists(script, _class_func(script, "RDScript", "init_state_processing", setter=True), "init_state_processing")
    for nm, l in (("axes", axes), ("boundary conditions", conds), ("sampling policies", pol), ("processing modes", modes)):
        if len(l) != 1:
            raise AnchorLost("accepted-value list of " + nm)
    L.append("/-- accepted values of the Python setters (anything else raises) -/")
    L.append("def pyAxes : List String := %s" % lean_list([lean_str(x) for x in axes[0]]))
    L.append("def pyBoundary : List String := %s" % lean_list([lean_str(x) for x in conds[0]]))
    L.append("def pyPolicies : List String := %s" % lean_list([lean_str(x) for x in pol[0]]))
    L.append("def pyModes : List String := %s" % lean_list([lean_str(x) for x in modes[0]]))
    # the defaults assigned before validation in set_boundary_conditions
    dfl = None
    for n in sbc.body:
        if isinstance(n, ast.Assign) and _norm(grid, n.targets[0]) == "self._boundary_conditions" and isinstance(n.value, ast.Dict):
            dfl = [(const_str(k), const_str(v)) for k, v in zip(n.value.keys, n.value.values)]
    if dfl is None:
        raise AnchorLost("rdgridspace.py:set_boundary_conditions defaults")
    L.append("def pyBoundaryDefaults : List (String × String) := %s" % lean_list(["(%s, %s)" % (lean_str(a), lean_str(b)) for a, b in dfl]))
    # is anything stored before the input has been validated? (position of the defaults assignment vs the first raising loop)
    i_assign = min(i for i, n in enumerate(sbc.body) if isinstance(n, ast.Assign) and _norm(grid, n.targets[0]) == "self._boundary_conditions")
    i_check = [i for i, n in enumerate(sbc.body) if isinstance(n, ast.For) and any(isinstance(x, ast.Raise) for x in ast.walk(n))]
    if not i_check:
        raise AnchorLost("rdgridspace.py:set_boundary_conditions validation loop")
    stores_in_check_loop = any(isinstance(x, ast.Assign) and _norm(grid, x.targets[0]).startswith("self._boundary_conditions[")
                               for x in ast.walk(sbc.body[i_check[0]]))
    L.append("/-- does `set_boundary_conditions` store anything before the whole input is validated? -/")
    L.append("def bcStoresBeforeValidation : Bool := %s\n" % ("true" if (i_assign < i_check[0] or stores_in_check_loop) else "false"))

    # ---- grid constructor size tests, cell_env length test
    ctor = _class_func(grid, "RDGridSpace", "__init__")
    sz = []
    for n in ctor.body:
        if isinstance(n, ast.If) and _raises(n.body):
            sz.append(ExprTr(grid, {"self._w": "w", "self._h": "h", "self._d": "d"}).tr(n.test))
    if len(sz) != 3:
        raise AnchorLost("rdgridspace.py:RDGridSpace.__init__ size tests")
    L.append("/-- `RDGridSpace.__init__`: raises when one of its three size tests holds -/")
    L.append("def gridSizeBad (w h d : Int) : Bool := (%s)" % " || ".join(sz))
    ce = _class_func(grid, "RDGridSpace", "cell_env", setter=True)
    lt = None
    for n in ast.walk(ce):
        cepar = ce.args.args[1].arg
        if isinstance(n, ast.If) and _raises(n.body) and ("len(%s)" % cepar) in _norm(grid, n.test):
            lt = ExprTr(grid, {"len(%s)" % cepar: "len", "self.size()": "size"}).tr(n.test)
    if lt is None:
        raise AnchorLost("rdgridspace.py:cell_env setter length test")
    L.append("/-- `RDGridSpace.cell_env` setter (array form): raises when -/")
    L.append("def cellEnvLenBad (len size : Int) : Bool := %s\n" % lt)

    # ---- graph index test, species / reaction / environment index tests
    gci = _class_func(graph, "RDGraphSpace", "get_cell_index")
    gt = [n for n in gci.body if isinstance(n, ast.If) and _raises(n.body)]
    # the local that holds `int(<position parameter>)`, whatever it is called
    gpos = gci.args.args[1].arg
    gloc = [n.targets[0].id for n in gci.body if isinstance(n, ast.Assign) and isinstance(n.targets[0], ast.Name)
            and _norm(graph, n.value) == "int(%s)" % gpos]
    if len(gt) != 1 or len(gloc) != 1:
        raise AnchorLost("rdgraphspace.py:get_cell_index range test")
    L.append("/-- `RDGraphSpace.get_cell_index`: raises when -/")
    L.append("def graphNodeIndexBad (size i : Int) : Bool := %s" % ExprTr(graph, {gloc[0]: "i", "self.size()": "size"}).tr(gt[0].test))
    chk = _class_func(graph, "RDGraphSpace", "check")
    et = []
    for lp in ast.walk(chk):
        if isinstance(lp, ast.For) and isinstance(lp.target, ast.Name) and _norm(graph, lp.iter) == "self.edges":
            ev = lp.target.id
            et += [ExprTr(graph, {ev + ".i": "i", ev + ".j": "i", "self.size()": "size"}).tr(n.test) for n in ast.walk(lp)
                   if isinstance(n, ast.If) and _raises(n.body) and "self.size()" in _norm(graph, n.test)]
    if len(et) != 2 or et[0] != et[1]:
        raise AnchorLost("rdgraphspace.py:check edge index tests")
    L.append("def edgeIndexBad (size i : Int) : Bool := %s" % et[0])
    for fname, cnt, lean in (("get_species_index", "self.nspecies()", "speciesIndexOk"), ("get_reaction_index", "self.nreactions()", "reactionIndexOk"),
                             ("get_environment_index", "self.nenvironments()", "environmentIndexOk")):
        fn = _class_func(net, "RDNetwork", fname)
        first = fn.body[-1] if isinstance(fn.body[-1], ast.If) else None
        for st in fn.body:
            if isinstance(st, ast.If):
                first = st
                break
        inner = [b for b in first.body if isinstance(b, ast.If)] if first is not None else []
        ipar = fn.args.args[1].arg
        iloc = [n.targets[0].id for n in (first.body if first is not None else []) if isinstance(n, ast.Assign)
                and isinstance(n.targets[0], ast.Name) and _norm(net, n.value) == "int(%s)" % ipar]
        if first is None or _norm(net, first.test) != "isnumber(%s)" % ipar or len(inner) != 1 or len(iloc) != 1:
            raise AnchorLost("rdnetwork.py:%s number branch" % fname)
        L.append("def %s (n i : Int) : Bool := %s" % (lean, ExprTr(net, {iloc[0]: "i", cnt: "n"}).tr(inner[0].test)))
    L.append("")

    # ---- get_species_index: the object state the lookup depends on (a label must be resolved against the CURRENT list)
    gsx = _class_func(net, "RDNetwork", "get_species_index")
    attrs = sorted({n.attr for n in ast.walk(gsx) if isinstance(n, ast.Attribute) and isinstance(n.value, ast.Name) and n.value.id == "self"})
    L.append("/-- attributes of `self` that `RDNetwork.get_species_index` reads or writes -/")
    L.append("def speciesLookupState : List String := %s\n" % lean_list([lean_str(a) for a in attrs]))

    # ---- named dimensions and the dimension every quantity field demands
    named = {}
    for fn in units.tree.body:
        if isinstance(fn, ast.FunctionDef) and fn.name.endswith("_units_dimensions"):
            for n in ast.walk(fn):
                if isinstance(n, ast.Return) and isinstance(n.value, ast.Call) and getattr(n.value.func, "id", "") == "UnitsDimensions":
                    kw = {k.arg: int(const_number(units, k.value, {})) for k in n.value.keywords}
                    named[fn.name] = (kw.get("space", 0), kw.get("time", 0), kw.get("quantity", 0))
    for k in ("density", "surface", "volume", "quantity", "space", "time"):
        if k + "_units_dimensions" not in named:
            raise AnchorLost("units.py:%s_units_dimensions" % k)

    def dim_of(src, node):
        t = _norm(src, node)
        m = re.fullmatch(r"(\w+)\(\)", t)
        if m and m.group(1) in named:
            return named[m.group(1)]
        if isinstance(node, ast.Dict):
            kw = {const_str(k): int(const_number(src, v, {})) for k, v in zip(node.keys, node.values)}
            return (kw.get("space", 0), kw.get("time", 0), kw.get("quantity", 0))
        raise AnchorLost("%s: dimension expression %s" % (src.rel, t))

    def field_dim(src, cls, prop):
        fn = _class_func(src, cls, prop, setter=True)
        for n in ast.walk(fn):
            if isinstance(n, ast.Call) and _norm(src, n.func) == "valproc.process_unitvar_input" and len(n.args) >= 3:
                return dim_of(src, n.args[2])
            if isinstance(n, ast.Call) and getattr(n.func, "id", "") in ("UnitValue", "UnitArray"):
                conv = {k.arg: _norm(src, k.value) for k in n.keywords}
                for a in n.args[1:2]:
                    if isinstance(a, ast.Call) and getattr(a.func, "id", "") == "Units":
                        dims = [k.value for k in a.keywords if k.arg == "dim"] + list(a.args[1:2])
                        if dims and (conv.get("convert") == "False" or cls == "RDSystem"):
                            return dim_of(src, dims[0])
        raise AnchorLost("%s:%s.%s setter dimension" % (src.rel, cls, prop))
    fields = [(net, "Species", "D"), (net, "Species", "density"), (grid, "RDGridSpace", "cell_vol"),
              (graph, "RDGraphSpaceNode", "volume"), (graph, "RDGraphSpaceEdge", "surface"), (graph, "RDGraphSpaceEdge", "distance"),
              (script, "RDScript", "t_sample"), (script, "RDScript", "time_step"), (script, "RDScript", "t_max"),
              (script, "RDScript", "sampling_interval"), (rds, "RDSystem", "state")]
    L.append("/-- named dimensions of units.py: (space, time, quantity) exponents -/")
    L.append("def namedDims : List (String × Int × Int × Int) := %s" % lean_list(
        ["(%s, (%d : Int), (%d : Int), (%d : Int))" % ((lean_str(k),) + v) for k, v in sorted(named.items())]))
    L.append("/-- the dimension demanded by the setter of each quantity field -/")
    L.append("def fieldDims : List (String × Int × Int × Int) := %s\n" % lean_list(
        ["(%s, (%d : Int), (%d : Int), (%d : Int))" % ((lean_str(c + "." + p),) + field_dim(s, c, p)) for s, c, p in fields]))

    # ---- UnitArray.set_value: are text items of a list recognised (and parsed as quantities)?
    sv = _class_func(units, "UnitArray", "set_value")
    keeps_objects = any(isinstance(n, ast.Call) and _norm(units, n.func) == "np.array" and
                        any(k.arg == "dtype" and _norm(units, k.value) == "object" for k in n.keywords) for n in ast.walk(sv))
    alsv = _alpha(sv)
    str_tests = [re.sub(r"\s+", "", alsv(units.seg(n.test))) for n in ast.walk(sv) if isinstance(n, ast.If) and "str" in _norm(units, n.test)]
    if not str_tests:
        raise AnchorLost("units.py:UnitArray.set_value text item test")
    L.append("/-- `UnitArray.set_value`: the test that recognises text items, and whether the items keep their Python type -/")
    L.append("def arrayTextTests : List String := %s" % lean_list([lean_str(t) for t in str_tests]))
    L.append("def arrayTextItemsParsed : Bool := %s\n" % ("true" if keeps_objects else "false"))

    # ---- units symbol checks: which label list each _check_* consults
    chk = []
    for name in ("_check_space", "_check_time", "_check_quantity"):
        fn = _class_func(units, "UnitsSystem", name)
        m = None
        for n in ast.walk(fn):
            if isinstance(n, ast.If) and _raises(n.body):
                mm = re.fullmatch(r"not%sin_units_labels_dict\[\"(\w+)\"\]" % re.escape(fn.args.args[1].arg), _norm(units, n.test))
                if mm:
                    m = mm.group(1)
        if m is None:
            raise AnchorLost("units.py:UnitsSystem.%s membership test" % name)
        chk.append((name, m))
    L.append("def sysCheckLists : List (String × String) := %s\n" % lean_list(["(%s, %s)" % (lean_str(a), lean_str(b)) for a, b in chk]))

    # ---- which positional accessors of the two space classes validate their position argument
    def guards(src, cls, names):
        rows = []
        for nm in names:
            fn = _class_func(src, cls, nm)
            params = tuple(a.arg for a in fn.args.args[1:])
            g = any(isinstance(n, ast.Call) and _norm(src, n.func) in ("self.get_cell_index", "self.is_within_bounds")
                    and n.args and _norm(src, n.args[0]) in params for n in ast.walk(fn))
            rows.append((nm, g))
        return rows
    acc = ["get_cell_env", "get_cell_vol", "get_neighbors", "are_neighbors"]
    L.append("/-- positional accessors: does the method check its position (calls get_cell_index / is_within_bounds on it)? -/")
    L.append("def gridAccessorGuards : List (String × Bool) := %s" % lean_list(
        ["(%s, %s)" % (lean_str(a), "true" if b else "false") for a, b in guards(grid, "RDGridSpace", acc + ["get_cell_coordinates", "get_cell_index"])]))
    L.append("def graphAccessorGuards : List (String × Bool) := %s\n" % lean_list(
        ["(%s, %s)" % (lean_str(a), "true" if b else "false") for a, b in guards(graph, "RDGraphSpace", acc)]))
    # ---- RDSystem.__init__: default state / chemostat generation (the only place the environment map is looked up)
    # happens for `None` and `dict` arguments only
    rinit = _class_func(rds, "RDSystem", "__init__")
    tests = [(_norm(rds, n.test), [_norm(rds, b) for b in n.body]) for n in ast.walk(rinit) if isinstance(n, ast.If)]
    L.append("def systemInitBranches : List (String × List String) := %s\n" % lean_list(
        ["(%s, %s)" % (lean_str(a), lean_list([lean_str(x) for x in b])) for a, b in tests]))

    sset = _class_func(rds, "RDSystem", "space", setter=True)
    env_checked = any(isinstance(n, ast.If) and _raises(n.body) and "nenvironments()" in _norm(rds, n.test) for n in ast.walk(sset))
    alss = _alpha(sset)
    env_test = [re.sub(r"\s+", "", alss(rds.seg(n.test))) for n in ast.walk(sset) if isinstance(n, ast.If) and _raises(n.body) and "nenvironments()" in _norm(rds, n.test)]
    L.append("/-- does the `RDSystem.space` setter compare the cells' environment indices with the number of environments? -/")
    L.append("def systemSpaceChecksEnv : Bool := %s" % ("true" if env_checked else "false"))
    L.append("def systemSpaceEnvTests : List String := %s\n" % lean_list([lean_str(t) for t in env_test]))

    # ---- engine.cpp: how keywords are compared, and how LibRDEngine.setup surfaces the native error codes
    eng = _cpp(repo, "engine.cpp")
    L.append("/-- body of `CompareStr(str1, str2)` in engine.cpp (normalised) -/")
    L.append("def compareStrBody : String := %s" % lean_str(re.sub(r"\s+", "", cpp_function_body(eng, r"bool\s+CompareStr\s*\([^)]*\)\s*"))))
    lre = PySrc(repo, "src/strengths/librdengine.py")
    codes = []
    for fname in ("_setup_graph", "_setup_grid"):
        fn = _class_func(lre, "LibRDEngine", fname)
        codes.append([re.sub(r"^v\d+", "res", t) for t in _raise_tests(lre, fn) if re.fullmatch(r"v\d+==\d+", t)])
    if not codes[0] or codes[0] != codes[1]:
        raise AnchorLost("librdengine.py: error codes of engineexport_initialize_* turned into exceptions")
    L.append("/-- `LibRDEngine._setup_grid/_setup_graph`: return codes of the native initialisation that raise -/")
    L.append("def engineErrorCodes : List String := %s\n" % lean_list([lean_str(t) for t in codes[0]]))

    # ---- coarse-graining map rules, state-index guard
    cg = PySrc(repo, "src/strengths/coarsegrain.py")
    L.append("/-- raise conditions of `check_index_map_validity`, in order -/")
    L.append("def indexMapRaiseConds : List String := %s" % lean_list([lean_str(s) for s in _raise_tests(cg, cg.func("check_index_map_validity"))]))
    gsi = _class_func(rds, "RDSystem", "get_state_index")
    assigns = [(_norm(rds, n.targets[0]), _norm(rds, n.value)) for n in gsi.body if isinstance(n, ast.Assign)]
    L.append("/-- `RDSystem.get_state_index`: how the two indices are obtained -/")
    L.append("def stateIndexSources : List (String × String) := %s" % lean_list(["(%s, %s)" % (lean_str(a), lean_str(b)) for a, b in assigns]))
    L.append("\nend Strengths.Gen")
    return "\n".join(L) + "\n"


# =============================================================================================
# C17 : RDTrajectory accessors (slices, flat index) and the three sample-index lookups
# =============================================================================================
def _norm(src, node):
    return re.sub(r"\s+", "", src.seg(node))


def _lookup_fn(out, name):
    """translate one `_get_sample_index_*` method: guards before the loop, loop condition, returned index"""
    fn = out.func(name, "RDTrajectory")
    names = {"t": "t", "self.t.get_at(0)": "t0", "self.t.get_at(self.nsamples()-1)": "tl",
             "self.t.get_at(i)": "a", "self.t.get_at(i+1)": "b"}

    def ret_expr(node, in_loop):
        """`none` | `(some (walk, index))`; walk = the value goes through `self._first_sample_with_same_time(…)`"""
        if not isinstance(node, ast.Return):
            raise AnchorLost("rdoutput.py:%s expected return" % name)
        v = node.value
        if v is None or (isinstance(v, ast.Constant) and v.value is None):
            return "none"
        walk = "false"
        if isinstance(v, ast.Call) and _norm(out, v.func) == "self._first_sample_with_same_time" and len(v.args) == 1 and not v.keywords:
            walk = "true"
            v = v.args[0]
        txt = _norm(out, v)
        if isinstance(v, ast.Constant) and isinstance(v.value, int) and not isinstance(v.value, bool) and v.value >= 0:
            return "(some (%s, %d))" % (walk, v.value)
        if txt == "self.nsamples()-1":
            return "(some (%s, n - 1))" % walk
        if in_loop and txt == "i":
            return "(some (%s, i))" % walk
        if in_loop and re.fullmatch(r"i\+(\d+)", txt):
            return "(some (%s, i + %s))" % (walk, txt[2:])
        raise AnchorLost("rdoutput.py:%s return value %s" % (name, txt))

    pre, loop = [], None
    body = [s for s in fn.body if not (isinstance(s, ast.Expr) and isinstance(s.value, ast.Constant))]
    for st in body:
        if isinstance(st, ast.If) and loop is None:
            if st.orelse or len(st.body) != 1:
                raise AnchorLost("rdoutput.py:%s guard shape" % name)
            test = _norm(out, st.test)
            if test == "len(self.t)==0":
                cond = "(n == 0)"
            else:
                cond = ExprTr(out, names).tr(st.test)
            pre.append((cond, ret_expr(st.body[0], False)))
        elif isinstance(st, ast.For) and loop is None:
            if _norm(out, st.iter) != "range(self.nsamples()-1)" or _norm(out, st.target) != "i" or st.orelse:
                raise AnchorLost("rdoutput.py:%s loop header" % name)
            if len(st.body) != 1 or not isinstance(st.body[0], ast.If) or st.body[0].orelse:
                raise AnchorLost("rdoutput.py:%s loop body" % name)
            inner = st.body[0]
            cond = ExprTr(out, names).tr(inner.test)
            loc = dict(names)
            ret = None
            for s2 in inner.body:
                if isinstance(s2, ast.Assign) and len(s2.targets) == 1 and isinstance(s2.targets[0], ast.Name):
                    loc[s2.targets[0].id] = ExprTr(out, loc).tr(s2.value)
                elif isinstance(s2, ast.Return):
                    ret = ret_expr(s2, True)
                elif isinstance(s2, ast.If) and len(s2.body) == 1 and len(s2.orelse) == 1:
                    ret = "(if %s then %s else %s)" % (ExprTr(out, loc).tr(s2.test), ret_expr(s2.body[0], True),
                                                      ret_expr(s2.orelse[0], True))
                else:
                    raise AnchorLost("rdoutput.py:%s loop statement" % name)
            if ret is None:
                raise AnchorLost("rdoutput.py:%s loop return" % name)
            loop = (cond, ret)
        else:
            raise AnchorLost("rdoutput.py:%s unexpected statement" % name)
    if loop is None or not pre:
        raise AnchorLost("rdoutput.py:%s guards / loop" % name)
    return pre, loop


@group
def gen_TrajPy(repo):
    out = PySrc(repo, "src/strengths/rdoutput.py")
    L = ["namespace Strengths.Gen\n"]
    for tag, name in (("closest", "_get_sample_index_closest"), ("infeq", "_get_sample_index_infeq"),
                      ("supeq", "_get_sample_index_supeq")):
        pre, (cond, ret) = _lookup_fn(out, name)
        chain = "".join("if %s then some %s else " % (c, r) for c, r in pre) + "none"
        L.append("/-- `RDTrajectory.%s`: the `if … : return …` statements before the loop (n = number of samples,\n"
                 "t0 / tl = first / last sample time); `none` = falls through to the loop -/" % name)
        L.append("def %sPre (n : Nat) (t t0 tl : Rat) : Option (Option (Bool × Nat)) := %s" % (tag, chain))
        L.append("/-- loop `for i in range(self.nsamples()-1)`: test on a = t[i], b = t[i+1] -/")
        L.append("def %sCond (t a b : Rat) : Bool := %s" % (tag, cond))
        L.append("/-- value returned by the loop body at index i: (passed through `_first_sample_with_same_time`?, index) -/")
        L.append("def %sRet (i : Nat) (t a b : Rat) : Option (Bool × Nat) := %s\n" % (tag, ret))
    # _first_sample_with_same_time: `while <cond> : i -= 1` then `return i`
    fs = out.func("_first_sample_with_same_time", "RDTrajectory")
    fbody = [x for x in fs.body if not (isinstance(x, ast.Expr) and isinstance(x.value, ast.Constant))]
    if not (len(fbody) == 2 and isinstance(fbody[0], ast.While) and not fbody[0].orelse and len(fbody[0].body) == 1
            and _norm(out, fbody[0].body[0]) == "i-=1" and isinstance(fbody[1], ast.Return) and _norm(out, fbody[1].value) == "i"
            and [a.arg for a in fs.args.args] == ["self", "i"]):
        raise AnchorLost("rdoutput.py:_first_sample_with_same_time shape")
    wcond = ExprTr(out, {"i": "i", "self.t.get_at(i-1)": "a", "self.t.get_at(i)": "b"}).tr(fbody[0].test)
    L.append("/-- `_first_sample_with_same_time(i)`: `while <this test on i, a = t[i-1], b = t[i]> : i -= 1 ; return i` -/")
    L.append("def firstSameCond (i : Int) (a b : Rat) : Bool := %s\n" % wcond)
    gsi = out.func("get_sample_index", "RDTrajectory")
    pol, disp, conv = None, [], False
    for n in ast.walk(gsi):
        if isinstance(n, ast.Compare) and len(n.ops) == 1 and isinstance(n.ops[0], ast.NotIn) and _norm(out, n.left) == "policy":
            pol = str_list(n.comparators[0])
        if isinstance(n, ast.If) and isinstance(n.test, ast.Compare) and _norm(out, n.test.left) == "policy" \
                and isinstance(n.test.ops[0], ast.Eq) and len(n.body) == 1 and isinstance(n.body[0], ast.Return):
            disp.append((const_str(n.test.comparators[0]), _norm(out, n.body[0].value)))
        if isinstance(n, ast.Assign) and _norm(out, n) == "t=UnitValue(t,self.t.units,convert=True)":
            conv = True
    if pol is None or not disp:
        raise AnchorLost("rdoutput.py:get_sample_index policy list / dispatch")
    first = gsi.body[1] if isinstance(gsi.body[0], ast.Expr) else gsi.body[0]
    L.append("/-- `get_sample_index`: accepted policy strings, dispatch, and whether the first statement converts the\nquery to the units of the sample times -/")
    L.append("def samplePolicies : List String := %s" % lean_list([lean_str(p) for p in pol]))
    L.append("def sampleDispatch : List (String × String) := %s" %
             lean_list(["(%s, %s)" % (lean_str(a), lean_str(b)) for a, b in disp]))
    L.append("def sampleQueryConverted : Bool := %s\n" % ("true" if conv and _norm(out, first).startswith("t=UnitValue(") else "false"))

    # accessor slices: every `….reshape((…))[slice]` of get_trajectory / get_state, in source order
    def slices(fn):
        res = []
        for n in ast.walk(fn):
            if isinstance(n, ast.Subscript) and isinstance(n.value, ast.Call) and getattr(n.value.func, "attr", "") == "reshape":
                res.append((n.lineno, n.col_offset, _norm(out, n.value.func.value), _norm(out, n.slice)))
        return [(a, b) for _, _, a, b in sorted(res)]
    gt = out.func("get_trajectory", "RDTrajectory")
    gs = out.func("get_state", "RDTrajectory")
    gp = out.func("get_trajectory_point", "RDTrajectory")
    st, ss = slices(gt), slices(gs)
    if len(st) != 2 or len(ss) != 2:
        raise AnchorLost("rdoutput.py:accessor slices")
    L.append("/-- (array reshaped, slice) of `get_trajectory` (cell, merged) and `get_state` (whole, species) -/")
    L.append("def trajectorySlices : List (String × String) := %s" % lean_list(["(%s, %s)" % (lean_str(a), lean_str(b)) for a, b in st]))
    L.append("def stateSlices : List (String × String) := %s" % lean_list(["(%s, %s)" % (lean_str(a), lean_str(b)) for a, b in ss]))
    # merge: `[sum(state) for state in …]`
    merged = None
    for n in ast.walk(gt):
        if isinstance(n, ast.ListComp) and len(n.generators) == 1:
            merged = (_norm(out, n.elt), _norm(out, n.generators[0].target))
    if merged is None:
        raise AnchorLost("rdoutput.py:get_trajectory merge comprehension")
    L.append("def mergeComprehension : String × String := (%s, %s)" % (lean_str(merged[0]), lean_str(merged[1])))

    # how the three accessors obtain their indices, and the units they return
    def assigns(fn):
        res = []
        for n in ast.walk(fn):
            if isinstance(n, ast.Assign) and len(n.targets) == 1 and isinstance(n.targets[0], ast.Name) \
                    and n.targets[0].id in ("species_index", "cell_index", "sample_index"):
                res.append((n.lineno, n.targets[0].id, _norm(out, n.value)))
        return sorted(set((b, c) for _, b, c in res))
    for tag, fn in (("Trajectory", gt), ("State", gs), ("Point", gp)):
        L.append("def indexSources%s : List (String × String) := %s" %
                 (tag, lean_list(["(%s, %s)" % (lean_str(a), lean_str(b)) for a, b in assigns(fn)])))
    units_args = []
    for fn in (gt, gs):
        for n in ast.walk(fn):
            if isinstance(n, ast.Call) and getattr(n.func, "id", "") == "UnitArray" and len(n.args) >= 2:
                units_args.append(_norm(out, n.args[1]))
    L.append("def accessorUnits : List String := %s" % lean_list([lean_str(u) for u in units_args]))
    L.append("def pointAccessor : String := %s" % lean_str(_norm(out, [n for n in ast.walk(gp) if isinstance(n, ast.Return)][-1].value.func)))
    # shape methods
    for nm in ("ncells", "nspecies", "nsamples"):
        f = out.func(nm, "RDTrajectory")
        L.append("def shape_%s : String := %s" % (nm, lean_str(_norm(out, f.body[-1].value))))
    L.append("\nend Strengths.Gen")
    return "\n".join(L) + "\n"


# =============================================================================================
# C16 : coarse-graining — the tests of check_index_map_validity, the aggregation subscripts of
#       coarsegrain_system, the spreading subscripts of uncoarsegrain_trajectory_data, and the
#       shape of the loops of coarsegrain_grid
# =============================================================================================
@group
def gen_CoarsePy(repo):
    cg = PySrc(repo, "src/strengths/coarsegrain.py")
    L = ["namespace Strengths.Gen\n"]

    # ---- check_index_map_validity: statements in order
    chk = cg.func("check_index_map_validity")
    body = [s for s in chk.body if not (isinstance(s, ast.Expr) and isinstance(s.value, ast.Constant))]
    tests = []        # (tag, lean Bool expr or text)
    order = []

    def raises(stmts):
        return len(stmts) == 1 and isinstance(stmts[0], ast.Raise)
    env_loop = None
    assigned = {}
    for st in body:
        if isinstance(st, ast.If) and raises(st.body) and not st.orelse:
            t = _norm(cg, st.test)
            if t.startswith("len(im)"):
                tests.append(("imLenBad", "(len size : Int) : Bool", ExprTr(cg, {"len(im)": "len", "space.size()": "size"}).tr(st.test)))
                order.append("length")
            elif "im_min" in t:
                tests.append(("imMinBad", "(mn : Int) : Bool", ExprTr(cg, {"im_min": "mn"}).tr(st.test)))
                order.append("min")
            elif "im_max" in t:
                tests.append(("imMaxBad", "(mx : Int) : Bool", ExprTr(cg, {"im_max": "mx"}).tr(st.test)))
                order.append("max")
            else:
                raise AnchorLost("coarsegrain.py:check_index_map_validity unknown test " + t)
        elif isinstance(st, ast.For) and len(st.body) == 1 and isinstance(st.body[0], ast.If) and raises(st.body[0].body) \
                and not st.body[0].orelse:
            it, tgt, t = _norm(cg, st.iter), _norm(cg, st.target), _norm(cg, st.body[0].test)
            if it == "im" and tgt == "i":
                L.append("/-- element type test of `check_index_map_validity` -/\ndef imTypeTest : String := %s" % lean_str(t))
                order.append("type")
            elif tgt == "i" and isinstance(st.iter, ast.Call) and getattr(st.iter.func, "id", "") == "range" and len(st.iter.args) == 2:
                lo = ExprTr(cg, {"im_max": "mx"}).tr(st.iter.args[0])
                hi = ExprTr(cg, {"im_max": "mx"}).tr(st.iter.args[1])
                L.append("/-- presence loop `for i in range(lo, hi): if i not in im: raise` -/")
                L.append("def imPresenceLo (mx : Int) : Int := %s\ndef imPresenceHi (mx : Int) : Int := %s" % (lo, hi))
                L.append("def imPresenceTest : String := %s" % lean_str(t))
                order.append("presence")
            else:
                raise AnchorLost("coarsegrain.py:check_index_map_validity unknown loop " + it)
        elif isinstance(st, ast.Assign) and len(st.targets) == 1 and isinstance(st.targets[0], ast.Name):
            assigned[st.targets[0].id] = _norm(cg, st.value)
        elif isinstance(st, ast.For):
            env_loop = st
            order.append("envloop")
        else:
            raise AnchorLost("coarsegrain.py:check_index_map_validity unexpected statement")
    for k, want in (("im_max", "max(im)"), ("im_min", "min(im)"), ("env", "space.get_cell_env_array()")):
        if assigned.get(k) != want:
            raise AnchorLost("coarsegrain.py:check_index_map_validity %s = %s" % (k, want))
    m = re.fullmatch(r"\[(-?\d+)foriinrange\(min\(im\),max\(im\)\+1\)\]", assigned.get("env_out", ""))
    if not m or env_loop is None:
        raise AnchorLost("coarsegrain.py:check_index_map_validity env_out / environment loop")
    sentinel = int(m.group(1))
    if _norm(cg, env_loop.iter) != "range(space.size())" or _norm(cg, env_loop.target) != "i":
        raise AnchorLost("coarsegrain.py:check_index_map_validity environment loop header")
    eb = list(env_loop.body)
    skip = None
    if isinstance(eb[0], ast.If) and len(eb[0].body) == 1 and isinstance(eb[0].body[0], ast.Continue) and not eb[0].orelse:
        skip = ExprTr(cg, {"im[i]": "g"}).tr(eb[0].test)
        eb = eb[1:]
    if len(eb) != 1 or not isinstance(eb[0], ast.If):
        raise AnchorLost("coarsegrain.py:check_index_map_validity environment loop body")
    node = eb[0]
    nm = {"env_out[im[i]]": "cur", "env[i]": "e"}
    c1 = ExprTr(cg, nm).tr(node.test)
    if not (len(node.body) == 1 and isinstance(node.body[0], ast.Assign) and _norm(cg, node.body[0]) == "env_out[im[i]]=env[i]"):
        raise AnchorLost("coarsegrain.py:check_index_map_validity environment loop first branch")
    if not (len(node.orelse) == 1 and isinstance(node.orelse[0], ast.If)):
        raise AnchorLost("coarsegrain.py:check_index_map_validity environment loop elif")
    n2 = node.orelse[0]
    c2 = ExprTr(cg, nm).tr(n2.test)
    if not (len(n2.body) == 1 and isinstance(n2.body[0], ast.Pass) and raises(n2.orelse)):
        raise AnchorLost("coarsegrain.py:check_index_map_validity environment loop else raise")
    for tag, sig, e in tests:
        L.append("def %s %s := %s" % (tag, sig, e))
    L.append("/-- order of the tests -/\ndef imTestOrder : List String := %s" % lean_list([lean_str(o) for o in order]))
    L.append("/-- environment loop: initial slot value, skip test on g = im[i] (`false` when absent), first-seen test and same-environment test\non cur = env_out[im[i]], e = env[i]; anything else raises -/")
    L.append("def envSentinel : Int := (%d : Int)" % sentinel)
    L.append("def envSkip (g : Int) : Bool := %s" % (skip if skip is not None else "false"))
    L.append("def envUnset (cur e : Int) : Bool := %s" % c1)
    L.append("def envSame (cur e : Int) : Bool := %s\n" % c2)

    # ---- coarsegrain_system: the two aggregation statements
    cs = cg.func("coarsegrain_system")
    aug = [n for n in ast.walk(cs) if isinstance(n, ast.AugAssign) and isinstance(n.op, ast.Add)]
    nm = {"s": "s", "cgspace.size()": "ncg", "index_map[i]": "g", "system.space.size()": "n", "i": "i"}
    found = {}
    for a in aug:
        tgt, val = a.target, a.value
        if isinstance(tgt, ast.Subscript) and isinstance(val, ast.Subscript):
            found[_norm(cg, tgt.value)] = (ExprTr(cg, nm).tr(tgt.slice), _norm(cg, val.value), ExprTr(cg, nm).tr(val.slice))
    if sorted(found) != ["cgchstt", "cgstate"]:
        raise AnchorLost("coarsegrain.py:coarsegrain_system aggregation statements")
    if found["cgstate"][1] != "system.state.value" or found["cgchstt"][1] != "system.chemostats":
        raise AnchorLost("coarsegrain.py:coarsegrain_system aggregation sources")
    L.append("/-- `coarsegrain_system`: cgstate[dst] += state[src] ; cgchstt[dst] += chemostats[src]  (ncg = #groups, n = #cells, g = index_map[i]) -/")
    L.append("def cgStateDst (ncg s g : Int) : Int := %s" % found["cgstate"][0])
    L.append("def cgStateSrc (n s i : Int) : Int := %s" % found["cgstate"][2])
    L.append("def cgChemDst (ncg s g : Int) : Int := %s" % found["cgchstt"][0])
    L.append("def cgChemSrc (n s i : Int) : Int := %s" % found["cgchstt"][2])
    guard = None
    for n in ast.walk(cs):
        if isinstance(n, ast.If) and any(isinstance(x, ast.For) for x in n.body):
            guard = ExprTr(cg, {"index_map[i]": "g"}).tr(n.test)
    if guard is None:
        raise AnchorLost("coarsegrain.py:coarsegrain_system dropped-cell guard")
    L.append("def cgKeep (g : Int) : Bool := %s" % guard)
    clamp = None
    for n in ast.walk(cs):
        if isinstance(n, ast.Assign) and _norm(cg, n.targets[0]) == "cgchstt[i]":
            clamp = _norm(cg, n.value)
    if clamp is None:
        raise AnchorLost("coarsegrain.py:coarsegrain_system chemostat clamp")
    L.append("def cgChemClamp : String := %s" % lean_str(clamp))
    sizes = sorted(set(_norm(cg, n.value) for n in ast.walk(cs) if isinstance(n, ast.Assign) and _norm(cg, n.targets[0]) in ("cgstate", "cgchstt")
                       and isinstance(n.value, ast.ListComp)))
    L.append("def cgArrayInit : List String := %s\n" % lean_list([lean_str(x) for x in sizes]))

    # ---- coarsegrain_grid: guards and the accumulate statements, as text (loops are hand-modelled)
    gg = cg.func("coarsegrain_grid")
    acc = [(_norm(cg, n.target), _norm(cg, n.value)) for n in ast.walk(gg) if isinstance(n, ast.AugAssign)]
    L.append("/-- `coarsegrain_grid`: every augmented assignment (target, value), in source order -/")
    L.append("def cgGridAccumulate : List (String × String) := %s" %
             lean_list(["(%s, %s)" % (lean_str(a), lean_str(b)) for a, b in acc]))
    conds = [_norm(cg, n.test) for n in ast.walk(gg) if isinstance(n, ast.If)]
    L.append("def cgGridTests : List String := %s" % lean_list([lean_str(c) for c in conds]))
    asg = [(_norm(cg, n.targets[0]), _norm(cg, n.value)) for n in ast.walk(gg) if isinstance(n, ast.Assign)
           and _norm(cg, n.targets[0]) in ("i", "j", "c", "n_cell_out", "nodes[index_map[i]].environment", "edge.distance", "distance", "grid_cell_edge")]
    L.append("def cgGridAssign : List (String × String) := %s" % lean_list(["(%s, %s)" % (lean_str(a), lean_str(b)) for a, b in asg]))
    app = [_norm(cg, n) for n in ast.walk(gg) if isinstance(n, ast.Call) and getattr(n.func, "attr", "") == "append"]
    L.append("def cgGridAppends : List String := %s\n" % lean_list([lean_str(a) for a in app]))

    # ---- grid_to_graph: the three face tests and the neighbour coordinates
    g2g = cg.func("grid_to_graph")
    faces = []
    for n in ast.walk(g2g):
        if isinstance(n, ast.If) and len(n.body) == 1 and isinstance(n.body[0], ast.Expr) and "edges.append" in _norm(cg, n.body[0]):
            call = n.body[0].value.args[0]
            kw = {k.arg: _norm(cg, k.value) for k in call.keywords}
            faces.append((_norm(cg, n.test), kw.get("i", ""), kw.get("j", ""), kw.get("surface", ""), kw.get("distance", "")))
    if len(faces) != 3:
        raise AnchorLost("coarsegrain.py:grid_to_graph face tests")
    L.append("/-- `grid_to_graph`: (test, i, j, surface, distance) of the three inner-face statements -/")
    L.append("def g2gFaces : List (String × String × String × String × String) := %s" %
             lean_list(["(%s)" % ", ".join(lean_str(x) for x in f) for f in faces]))
    geo = [(_norm(cg, n.targets[0]), _norm(cg, n.value)) for n in g2g.body if isinstance(n, ast.Assign)
           and _norm(cg, n.targets[0]) in ("edge_dst", "edge_sfc")]
    L.append("def g2gGeometry : List (String × String) := %s\n" % lean_list(["(%s, %s)" % (lean_str(a), lean_str(b)) for a, b in geo]))

    # ---- uncoarsegrain_trajectory_data
    un = cg.func("uncoarsegrain_trajectory_data")
    store = None
    for n in ast.walk(un):
        if isinstance(n, ast.Assign) and isinstance(n.targets[0], ast.Subscript) and _norm(cg, n.targets[0].value) == "data":
            store = n
    if store is None:
        raise AnchorLost("coarsegrain.py:uncoarsegrain_trajectory_data store")
    nm = {"n": "k", "state_size": "ssz", "s": "s", "ncg_space.size()": "nf", "j": "j"}
    L.append("/-- `uncoarsegrain_trajectory_data`: data[dst] = in_state[n, s, node_index] / len(cg_nodes[node_index]) -/")
    L.append("def uncgDst (ssz nf k s j : Int) : Int := %s" % ExprTr(cg, nm).tr(store.targets[0].slice))
    L.append("def uncgValue : String := %s" % lean_str(_norm(cg, store.value)))
    ssz = _assign_value(cg, un, "state_size")
    L.append("def uncgStateSize (ns nf : Int) : Int := %s" %
             ExprTr(cg, {"trajectory.system.network.nspecies()": "ns", "ncg_space.size()": "nf"}).tr(ssz))
    L.append("def uncgDataInit : String := %s" % lean_str(_norm(cg, _assign_value(cg, un, "data"))))
    L.append("def uncgInState : String := %s" % lean_str(_norm(cg, _assign_value(cg, un, "in_state"))))
    memb = [(_norm(cg, n.test), _norm(cg, n.body[0])) for n in ast.walk(un) if isinstance(n, ast.If) and len(n.body) == 1]
    L.append("def uncgMembers : List (String × String) := %s" % lean_list(["(%s, %s)" % (lean_str(a), lean_str(b)) for a, b in memb]))
    loops = [(_norm(cg, n.target), _norm(cg, n.iter)) for n in ast.walk(un) if isinstance(n, ast.For)]
    L.append("def uncgLoops : List (String × String) := %s" % lean_list(["(%s, %s)" % (lean_str(a), lean_str(b)) for a, b in loops]))

    # ---- simulate_script glue
    sim = PySrc(repo, "src/strengths/simulate.py")
    ss = sim.func("simulate_script")
    glue = []
    for n in ast.walk(ss):
        if isinstance(n, ast.If) and _norm(sim, n.test) == "cgmapisNone":
            glue = [_norm(sim, s) for s in n.orelse]
    if not glue:
        raise AnchorLost("simulate.py:simulate_script cgmap branch")
    L.append("/-- `simulate_script`, branch `cgmap is not None` -/")
    L.append("def simulateCgGlue : List String := %s" % lean_list([lean_str(g) for g in glue]))
    L.append("\nend Strengths.Gen")
    return "\n".join(L) + "\n"


# =============================================================================================
# lifecycle (C08-C11): RDScript / LibRDEngine / RDTrajectory / simulate_script skeletons (Python side)
# =============================================================================================
def _lf_norm(txt):
    return re.sub(r"\s+", "", txt)


def _lf_stmts_text(src, body):
    """normalised source text of a statement list (docstrings dropped)"""
    out = []
    for n in body:
        if isinstance(n, ast.Expr) and isinstance(n.value, ast.Constant) and isinstance(n.value.value, str):
            continue
        out.append(_lf_norm(ast.unparse(n)))      # (unparse: comments and layout do not matter)
    return out


def _lf_setter(src, cls, name):
    for n in src.tree.body:
        if isinstance(n, ast.ClassDef) and n.name == cls:
            for f in n.body:
                if isinstance(f, ast.FunctionDef) and f.name == name and any(
                        isinstance(d, ast.Attribute) and d.attr == "setter" for d in f.decorator_list):
                    return f
    raise AnchorLost("%s:%s.%s setter" % (src.rel, cls, name))


def _lf_getter(src, cls, name):
    for n in src.tree.body:
        if isinstance(n, ast.ClassDef) and n.name == cls:
            for f in n.body:
                if isinstance(f, ast.FunctionDef) and f.name == name and any(
                        isinstance(d, ast.Name) and d.id == "property" for d in f.decorator_list):
                    return f
    raise AnchorLost("%s:%s.%s getter" % (src.rel, cls, name))


def _lf_in_list(src, fn, var):
    """the literal list of `if [not] var [not] in [...]`"""
    for n in ast.walk(fn):
        if isinstance(n, ast.Compare) and len(n.ops) == 1 and isinstance(n.ops[0], (ast.NotIn, ast.In)) \
                and isinstance(n.left, ast.Name) and n.left.id == var and isinstance(n.comparators[0], (ast.List, ast.Tuple)):
            return str_list(n.comparators[0])
    raise AnchorLost("%s:%s membership test of %s" % (src.rel, fn.name, var))


@group
def gen_ScriptPy(repo):
    sc = PySrc(repo, "src/strengths/rdscript.py")
    L = ["namespace Strengths.Gen\n"]

    def strs(l):
        return lean_list([lean_str(x) for x in l])
    pol = _lf_in_list(sc, _lf_setter(sc, "RDScript", "sampling_policy"), "sampling_policy")
    L.append("/-- accepted values of `RDScript.sampling_policy` -/")
    L.append("def scriptPolicies : List String := %s" % strs(pol))
    modes = _lf_in_list(sc, _lf_setter(sc, "RDScript", "init_state_processing"), "init_state_processing")
    L.append("def scriptModes : List String := %s" % strs(modes))
    # t_max getter: if self._t_max=="default": return <expr>
    g = _lf_getter(sc, "RDScript", "t_max")
    dflt = None
    for n in ast.walk(g):
        if isinstance(n, ast.If) and _lf_norm(sc.seg(n.test)) == 'self._t_max=="default"':
            for r in n.body:
                if isinstance(r, ast.Return):
                    dflt = _lf_norm(sc.seg(r.value))
    if dflt is None:
        raise AnchorLost("rdscript.py:RDScript.t_max default branch")
    L.append("/-- value of `RDScript.t_max` when it was set to \"default\" -/")
    L.append("def pyTMaxDefault : String := %s" % lean_str(dflt))
    init = sc.func("__init__", cls="RDScript")
    args = init.args
    names = [a.arg for a in args.args][1:]
    defaults = [None] * (len(names) - len(args.defaults)) + list(args.defaults)
    ctor = [(nm, _lf_norm(sc.seg(d)) if d is not None else "") for nm, d in zip(names, defaults)]
    L.append("def pyScriptCtor : List (String × String) := %s" % lean_list(["(%s, %s)" % (lean_str(a), lean_str(b)) for a, b in ctor]))
    tm = dict(ctor).get("t_max")
    if tm is None:
        raise AnchorLost("rdscript.py:RDScript.__init__ t_max parameter")
    L.append("def pyTMaxCtorDefault : String := %s" % lean_str(tm.strip('"')))
    L.append("/-- the `rng_seed` setter, statement by statement -/")
    L.append("def pySeedSetter : List String := %s" % strs(_lf_stmts_text(sc, _lf_setter(sc, "RDScript", "rng_seed").body)))
    L.append("def pyScriptCopy : List String := %s" % strs(_lf_stmts_text(sc, sc.func("copy", cls="RDScript").body)))

    le = PySrc(repo, "src/strengths/librdengine.py")

    def self_attrs(fn):
        out = []
        for n in ast.walk(fn):
            if isinstance(n, ast.Assign):
                for t in n.targets:
                    if isinstance(t, ast.Attribute) and isinstance(t.value, ast.Name) and t.value.id == "self" and t.attr not in out:
                        out.append(t.attr)
        return out
    L.append("\n/-- attributes `LibRDEngine.__init__` / `setup` assign -/")
    L.append("def wrapperInitAttrs : List String := %s" % strs(self_attrs(le.func("__init__", cls="LibRDEngine"))))
    setup = le.func("setup", cls="LibRDEngine")
    L.append("def wrapperSetupAttrs : List String := %s" % strs(self_attrs(setup)))
    # position of the assignments relative to the first statement that can raise / call the library
    first = _lf_stmts_text(le, setup.body)[:2]
    L.append("def wrapperSetupHead : List String := %s" % strs(first))
    for m in ("run", "iterate", "iterate_n", "get_progress", "sample", "is_complete", "_count_samples", "finalize"):
        L.append("def wrapper_%s : List String := %s" % (m, strs(_lf_stmts_text(le, le.func(m, cls="LibRDEngine").body))))
    gd = le.func("_get_data", cls="LibRDEngine")
    L.append("def wrapperGetDataHead : List String := %s" % strs(_lf_stmts_text(le, gd.body)[:4]))

    ro = PySrc(repo, "src/strengths/rdoutput.py")
    L.append("\n/-- `RDTrajectory.__init__` -/")
    L.append("def trajectoryInit : List String := %s" % strs(_lf_stmts_text(ro, ro.func("__init__", cls="RDTrajectory").body)))
    L.append("def trajectoryNSamples : List String := %s" % strs(_lf_stmts_text(ro, ro.func("nsamples", cls="RDTrajectory").body)))

    sm = PySrc(repo, "src/strengths/simulate.py")
    ss = sm.func("simulate_script")
    plain = None
    for n in ss.body:
        if isinstance(n, ast.If) and _lf_norm(sm.seg(n.test)) == "cgmapisNone":
            plain = n.body
    if plain is None:
        raise AnchorLost("simulate.py:simulate_script plain branch")
    calls = []
    for n in plain:
        for c in ast.walk(n):
            if isinstance(c, ast.Call) and isinstance(c.func, ast.Attribute) and isinstance(c.func.value, ast.Name) and c.func.value.id == "engine":
                calls.append(_lf_norm(sm.seg(c)))
    L.append("\n/-- engine calls of `simulate_script` (plain branch), in source order -/")
    L.append("def simulateEngineCalls : List String := %s" % strs(calls))
    L.append("\nend Strengths.Gen")
    return "\n".join(L) + "\n"


# =============================================================================================
# lifecycle (C08-C11), C++ side: what Init assigns, member inventory (G8), Poisson guards
# =============================================================================================
def _lf_class_body(text, cls):
    m = re.search(r"class\s+%s\b[^{]*" % cls, text)
    if not m:
        raise AnchorLost("class " + cls)
    return cpp_function_body(text[m.start():], r"class\s+%s\b[^{]*" % cls)


def _lf_members(body):
    """data members declared at depth 0 of a class body (lines without parentheses ending in ';')"""
    out = []
    depth = 0
    for line in body.splitlines():
        d0 = depth
        depth += line.count("{") - line.count("}")
        if d0 != 0 or "(" in line or ")" in line:
            continue
        m = re.match(r"^\s*(?:[\w:]+(?:<[^;]*>)?)\s+([\w\s,]+);\s*$", line)
        if m:
            out += [x.strip() for x in m.group(1).split(",") if x.strip()]
    return out


@group
def gen_EngineLife(repo):
    L = ["namespace Strengths.Gen\n"]

    def strs(l):
        return lean_list([lean_str(x) for x in l])
    for tag, fname, cls, helpers in (
            ("Grid", "SimulationAlgorithm3DBase.hpp", "SimulationAlgorithm3DBase", ["BuildMeshNeighbors", "Build_mesh_kr", "Build_mesh_kd"]),
            ("Graph", "SimulationAlgorithmGraphBase.hpp", "SimulationAlgorithmGraphBase", ["SetNeighbors", "Build_mesh_kr", "Build_mesh_kd"])):
        text = _cpp(repo, fname)
        body = _lf_class_body(text, cls)
        init = cpp_function_body(body, r"void\s+Init\s*\(")
        assigns = [(a, _lf_norm(b)) for a, b in re.findall(r"this->(\w+)\s*=\s*([^;]+);", init)]
        if not assigns:
            raise AnchorLost(cls + " Init assignments")
        sampler = [(a, b) for a, b in assigns if a in ("sample_pos", "sampling_done_this_iteration", "last_tsi_ratio", "t", "complete")]
        L.append("/-- `%s::Init`: sampler members as assigned, in order -/" % cls)
        L.append("def initSamplerAssigns%s : List (String × String) := %s" %
                 (tag, lean_list(["(%s, %s)" % (lean_str(a), lean_str(b)) for a, b in sampler])))
        stm = [_lf_norm(x) for x in init.split(";") if x.strip()]
        L.append("def initLastCall%s : String := %s" % (tag, lean_str(stm[-1])))
        L.append("def initRngAssign%s : String := %s" % (tag, lean_str(dict(assigns).get("rng", ""))))
        assigned = [a for a, _ in assigns] + re.findall(r"this->(\w+)\s*\.\s*(?:clear|resize)\s*\(", init)
        for h in helpers:
            if not re.search(r"\b%s\s*\(" % h, init):
                raise AnchorLost("%s::Init no longer calls %s" % (cls, h))
            hb = cpp_function_body(body, r"void\s+%s\s*\(" % h)
            assigned += re.findall(r"this->(\w+)\s*=", hb) + re.findall(r"\b(\w+)\s*\.\s*(?:resize|clear)\s*\(", hb)
        seen = []
        for a in assigned:
            if a not in seen:
                seen.append(a)
        L.append("def members%s : List String := %s" % (tag, strs(_lf_members(body))))
        L.append("def initAssigned%s : List String := %s" % (tag, strs(seen)))
        pb = cpp_function_body(body, r"(?:int|long\s+long)\s+Poisson\s*\(")
        L.append("def poissonBody%s : String := %s\n" % (tag, lean_str(_lf_norm(pb))))
    for fname, cls in (("Euler3D.hpp", "Euler3D"), ("TauLeap3D.hpp", "TauLeap3D"), ("Gillespie3D.hpp", "Gillespie3D"),
                       ("EulerGraph.hpp", "EulerGraph"), ("TauLeapGraph.hpp", "TauLeapGraph"), ("GillespieGraph.hpp", "GillespieGraph")):
        body = _lf_class_body(_cpp(repo, fname), cls)
        asi = cpp_function_body(body, r"void\s+AlgorithmSpecificInit\s*\(")
        L.append("def members%s : List String := %s" % (cls, strs(_lf_members(body))))
        L.append("def initAssigned%s : List String := %s" % (cls, strs(re.findall(r"this->(\w+)\s*\.\s*resize", asi) + re.findall(r"this->(\w+)\s*=", asi))))
    eng = _cpp(repo, "engine.cpp")
    guards = [_lf_norm(g) for g in re.findall(r"=\s*(\([^;]*poisson_distribution[^;]*);", eng)]
    L.append("\n/-- every construction of `std::poisson_distribution` in engine.cpp, with its guard -/")
    L.append("def initPoissonSites : List String := %s" % strs(guards))
    L.append("def poissonMentions : Nat := %d" % sum(len(re.findall(r"poisson_distribution", _cpp(repo, f))) for f in (
        "engine.cpp", "SimulationAlgorithm3DBase.hpp", "SimulationAlgorithmGraphBase.hpp", "TauLeap3D.hpp", "TauLeapGraph.hpp",
        "Gillespie3D.hpp", "GillespieGraph.hpp", "Euler3D.hpp", "EulerGraph.hpp")))
    # index formulas of the state / scratch vectors, from EVERY subscript occurrence in the algorithm sources: each
    # occurrence must have the given shape; its variables are renamed canonically, and all occurrences must agree
    algo_files = ["SimulationAlgorithm3DBase.hpp", "SimulationAlgorithmGraphBase.hpp", "Euler3D.hpp", "EulerGraph.hpp",
                  "TauLeap3D.hpp", "TauLeapGraph.hpp", "Gillespie3D.hpp", "GillespieGraph.hpp"]

    def shaped(vec_re, files, shape, canon, names, what):
        forms = set()
        nocc = 0
        for f in files:
            for name, expr in _subscripts(_cpp(repo, f)):
                if re.fullmatch(vec_re, name):
                    m = re.fullmatch(shape, expr)
                    if not m:
                        raise AnchorLost("%s: subscript %s[%s] in %s does not have the shape %s" % (what, name, expr, f, shape))
                    forms.add(CppExpr(canon, names).parse())
                    nocc += 1
        if len(forms) != 1:
            raise AnchorLost("%s: no / several index forms %s" % (what, sorted(forms)))
        return forms.pop(), nocc
    cs = r"(?:\w+|mesh_neighbor_index\[\w+\]\[\w+\])"     # a cell: a variable or a neighbour-table entry
    nm = {"i": "i", "s": "s", "r": "r", "n": "n", "n_species": "ns", "n_reactions": "nr", "nn": "nn"}
    L.append("/-- index formulas of the state and scratch vectors (every read / write site in the algorithm sources agrees) -/")
    for lean_name, vec_re, files, shape, canon, args in (
            ("xIndex", r"mesh_x", algo_files, cs + r"\*n_species\+\w+", "i*n_species+s", "ns i s"),
            ("chsttIndex", r"mesh_chstt", algo_files, r"\w+\*n_species\+\w+", "i*n_species+s", "ns i s"),
            ("dxdtIndex", r"mesh_dxdt", algo_files, r"\w+\*n_species\+\w+", "i*n_species+s", "ns i s"),
            ("nrIndex", r"mesh_nr", algo_files, r"\w+\*n_reactions\+\w+", "i*n_reactions+r", "nr i r"),
            ("arIndex", r"mesh_ar", algo_files, r"\w+\*n_reactions\+\w+", "i*n_reactions+r", "nr i r"),
            ("nbrReadIndex", r"mesh_neighbors", algo_files, r"\w+\*6\+\w+", "i*6+n", "i n"),
            ("ndIndexGrid", r"mesh_nd", ["TauLeap3D.hpp"], r"\w+\*6\*n_species\+\w+\*6\+\w+", "i*6*n_species+s*6+n", "ns i s n"),
            ("slotInnerGraph", r"(?:mesh_nd|mesh_ad|mesh_kd_out|mesh_kd_in)\[\w+\]", ["SimulationAlgorithmGraphBase.hpp", "TauLeapGraph.hpp", "GillespieGraph.hpp"],
             r"\w+\*mesh_neighbor_n\[\w+\]\+\w+", "s*nn+n", "nn s n")):
        form, nocc = shaped(vec_re, files, shape, canon, nm, lean_name)
        L.append("def %s (%s : Int) : Int := %s   -- %d sites" % (lean_name, args, form, nocc))
    # mesh_ad on the grid is written as i*6*n_species+s*6+n and scanned as i*n_species*6+j*6+n
    adforms = sorted(set(e for n_, e in _subscripts(_cpp(repo, "Gillespie3D.hpp")) if n_ == "mesh_ad"))
    if adforms != ["i*6*n_species+s*6+n", "i*n_species*6+j*6+n"]:
        raise AnchorLost("Gillespie3D mesh_ad subscripts: %s" % adforms)
    L.append("def adIndexGridW (ns i s n : Int) : Int := %s" % CppExpr("i*6*n_species+s*6+n", nm).parse())
    L.append("def adIndexGridR (ns i s n : Int) : Int := %s" % CppExpr("i*n_species*6+s*6+n", nm).parse())
    # sizes given to resize / constructors (normalised text), per class
    sizes = []
    for f in algo_files:
        for v, e in re.findall(r"(?:this->)?(\w+(?:\s*\[\w+\])?)\s*\.\s*resize\s*\(([^;]*)\)\s*;", _cpp(repo, f)):
            sizes.append((f, _lf_norm(v), _lf_norm(e)))
    for f in ("SimulationAlgorithm3DBase.hpp",):
        for v, e in re.findall(r"this->(\w+)\s*=\s*std::vector<\w+>\s*\(([^;{}]*)\)\s*;", _cpp(repo, f)):
            sizes.append((f, v, _lf_norm(e)))
    L.append("/-- every `resize(...)` / sized constructor in the algorithm sources: (file, vector, size expression) -/")
    L.append("def vectorSizes : List (String × String × String) := %s\n" % lean_list(
        ["(%s, %s, %s)" % (lean_str(a), lean_str(b), lean_str(c)) for a, b, c in sizes]))

    # every statement of the engine sources that mentions the generator `rng` (seeded once in Init, advanced only by draws)
    uses = []
    for f in ("SimulationAlgorithm3DBase.hpp", "SimulationAlgorithmGraphBase.hpp", "Euler3D.hpp", "EulerGraph.hpp", "TauLeap3D.hpp",
              "TauLeapGraph.hpp", "Gillespie3D.hpp", "GillespieGraph.hpp"):
        for stmt in re.split(r"[;{}]", _cpp(repo, f)):
            if re.search(r"\brng\b", stmt):
                uses.append((f, _lf_norm(stmt)))
    L.append("def rngMentions : List (String × String) := %s" % lean_list(["(%s, %s)" % (lean_str(a), lean_str(b)) for a, b in uses]))
    for fn in ("engineexport_get_progress", "engineexport_get_nsamples", "engineexport_get_time"):
        b = cpp_function_body(eng, r"%s\s*\([^)]*\)\s*" % fn)
        L.append("def body_%s : String := %s" % (fn, lean_str(_lf_norm(b))))
    # the `new …; global_algo_freed = false` statements of the two initialisers
    news = [_lf_norm(x) for x in re.findall(r"\{\s*(global_\w+_algo\s*=\s*new\s+\w+\(\)\s*;\s*global_algo_freed\s*=\s*\w+\s*;)\s*\}", eng)]
    L.append("def engineNewSites : List String := %s" % strs(news))
    st = [_lf_norm(x) for x in re.findall(r"(global_space_type\s*=\s*\d+\s*;)", eng)]
    L.append("def engineSpaceTypeAssigns : List String := %s" % strs(st))
    L.append("\nend Strengths.Gen")
    return "\n".join(L) + "\n"


# =============================================================================================
# Stoch (builder "stoch": C07, C02, C14): the statement lists of the stochastic / Euler step functions of
# the six algorithms and the two base classes, GenerateStochasticDistribution, the init-state dispatch
# of engine.cpp, the Poisson/normal switch, and the Python-side accepted modes / default.
# =============================================================================================
def _cpp_stmts(body):
    """normalised statement list of a C++ block: blanks removed, split at ';', '{', '}' (kept)"""
    stmts, cur, par = [], "", 0
    for ch in body:
        if ch == "(":
            par += 1
        elif ch == ")":
            par -= 1
        if ch in "{}" and par == 0:
            if cur.strip():
                stmts.append(re.sub(r"\s+", "", cur))
            cur = ""
            stmts.append(ch)
        elif ch == ";" and par == 0:
            stmts.append(re.sub(r"\s+", "", cur))
            cur = ""
        else:
            cur += ch
    if cur.strip():
        stmts.append(re.sub(r"\s+", "", cur))
    return [s for s in stmts if s]


def _balanced(text, i):
    """text[i] == '{' -> index of the matching '}'"""
    depth, j = 0, i
    while j < len(text):
        if text[j] == "{":
            depth += 1
        elif text[j] == "}":
            depth -= 1
            if depth == 0:
                return j
        j += 1
    raise AnchorLost("unbalanced braces")


_CPP_DECL = re.compile(r"(?<![\w:<])(?:const\s+)?(?:unsigned\s+)?(?:int|double|bool|size_t|auto|float|long|"
                       r"std::[\w:]+(?:\s*<[^;{}()]*?>)?)\s*[&*]?\s+([A-Za-z_]\w*)\s*(?=[=;,(\[)])")


def _cpp_fn(text, signature_regex):
    """(parameter names, body text) of the first C++ function whose header matches"""
    m = re.search(signature_regex, text)
    if not m:
        raise AnchorLost("C++ function " + signature_regex)
    hdr = m.group(0)
    params = []
    if "(" in hdr:
        inner = hdr[hdr.index("(") + 1:hdr.rindex(")")]
        depth, cur, parts = 0, "", []
        for ch in inner:
            if ch in "<(":
                depth += 1
            elif ch in ">)":
                depth -= 1
            if ch == "," and depth == 0:
                parts.append(cur)
                cur = ""
            else:
                cur += ch
        parts.append(cur)
        for part in parts:
            ids = re.findall(r"[A-Za-z_]\w*", part)
            if ids:
                params.append(ids[-1])
    return params, cpp_function_body(text, signature_regex)


def _alpha_cpp(body, params=()):
    """C++ counterpart of `_alpha` (same renaming rule: v0, v1, … by order of first binding): the parameters listed in
    `params` first, then every local declared in `body` (declarations with a built-in / std:: type, loop variables).
    Returns the renaming function on text."""
    names = []
    for nme in list(params) + [m.group(1) for m in _CPP_DECL.finditer(body)]:
        if nme not in names and nme not in ("return", "else", "new", "delete"):
            names.append(nme)
    if not names:
        return lambda s: s
    rx = re.compile(r"(?<![\.\w\"'])(?<!->)(%s)(?![\w\"'])" % "|".join(re.escape(x) for x in sorted(names, key=len, reverse=True)))
    return lambda s: rx.sub(lambda m: "v%d" % names.index(m.group(1)), s)


@group
def gen_Stoch(repo):
    def strs(l):
        return lean_list([lean_str(x) for x in l])
    L = ["namespace Strengths.Gen\n"]
    eng = _cpp(repo, "engine.cpp")

    # ---- GenerateStochasticDistribution (parameters and locals renamed v0, v1, … : alpha-normalised)
    params, body = _cpp_fn(eng, r"GenerateStochasticDistribution\s*\([^)]*\)\s*")
    if len(params) != 4:
        raise AnchorLost("GenerateStochasticDistribution parameter list")
    al = _alpha_cpp(body, params)
    nb = al(body)                                     # v0 = state array, v1 = n_meshes, v2 = n_species, v3 = seed
    m = re.search(r"if\s*\(\s*v0\[(v\d+)\]\s*<\s*([0-9.eE+-]+)\s*\)", nb)
    if not m:
        raise AnchorLost("GenerateStochasticDistribution Poisson/normal switch")
    L.append("/-- `GenerateStochasticDistribution`: below this amount an entry is a Poisson draw, from it on a floored normal draw -/")
    L.append("def poissonNormalSwitch : Rat := %s" % lean_rat(Fraction(m.group(2))))
    L.append("/-- `GenerateStochasticDistribution`, whole body as a statement list, blanks removed, parameters and locals renamed\n"
             "v0, v1, … in order of first binding (v0 = state, v1 = n_meshes, v2 = n_species, v3 = seed) -/")
    L.append("def gsdBody : List String := %s" % strs(_cpp_stmts(nb)))
    # the scan of the correction loop: `acc += state[IDX]; if (target < acc)` inside `for (int c = 0; c < n_meshes; …)`
    m = re.search(r"for\s*\(\s*int\s+(v\d+)\s*=\s*0\s*;\s*\1\s*<\s*v1\s*;[^)]*\)\s*\{\s*(v\d+)\s*\+=\s*v0\[([^\]]+)\]\s*;\s*if\s*\(\s*(v\d+)\s*[<>=!]+\s*\2\s*\)", nb)
    if not m:
        raise AnchorLost("GenerateStochasticDistribution scan")
    cellv = m.group(1)
    others = [x for x in re.findall(r"v\d+", m.group(3)) if x not in (cellv, "v2")]
    if len(set(others)) != 1:
        raise AnchorLost("GenerateStochasticDistribution scan index")
    L.append("/-- index of entry (cell i, species s) in the cell-major arrays of `GenerateStochasticDistribution` -/")
    L.append("def gsdIndex (ns s i : Int) : Int := %s\n" % CppExpr(m.group(3), {cellv: "i", others[0]: "s", "v2": "ns"}).parse())

    # ---- init-state dispatch: (condition, statements of the branch) in order, then the else branch.
    # The exported functions keep their (C API) parameter names; their locals are renamed.
    for tag, fr in (("Grid", r"int\s+engineexport_initialize_grid\s*\("), ("Graph", r"int\s+engineexport_initialize_graph\s*\(")):
        b = al2 = None
        b = cpp_function_body(eng, fr)
        b = _alpha_cpp(b)(b)
        m = re.search(r"bool\s+(v\d+)\s*=\s*(\(?\s*CompareStr\(\s*option\s*,[^;]*);", b)
        if not m:
            raise AnchorLost("engine.cpp is_stochastic definition " + tag)
        L.append("def isStochasticDef%s : String := %s" % (tag, lean_str(re.sub(r"\s+", "", m.group(2)))))
        branches = []
        cur = m.end()
        while True:
            mm = re.compile(r"\s*(?:else\s+)?if\s*\(").match(b, cur)
            if not mm:
                break
            i = mm.end() - 1
            depth, j = 0, i
            while True:
                if b[j] == "(":
                    depth += 1
                elif b[j] == ")":
                    depth -= 1
                    if depth == 0:
                        break
                j += 1
            cond = re.sub(r"\s+", "", b[i + 1:j]).replace(m.group(1), "is_stochastic")
            k = b.index("{", j)
            e = _balanced(b, k)
            branches.append((cond, _cpp_stmts(b[k + 1:e])))
            cur = e + 1
        mm = re.compile(r"\s*else\s*\{").match(b, cur)
        if not mm or not branches:
            raise AnchorLost("engine.cpp init_state_processing dispatch " + tag)
        e = _balanced(b, mm.end() - 1)
        branches.append(("else", _cpp_stmts(b[mm.end():e])))
        if not all("init_state_processing" in c for c, _ in branches[:-1]):
            raise AnchorLost("engine.cpp init_state_processing dispatch conditions " + tag)
        L.append("/-- the `init_state_processing` dispatch: (condition, statements) per branch, `else` last; locals renamed -/")
        L.append("def initBranches%s : List (String × List String) := %s" %
                 (tag, lean_list(["(%s, %s)" % (lean_str(c), strs(s)) for c, s in branches])))
        # what Init receives as the state: the local that the branches assign
        ma = re.search(r"(v\d+)\s*=\s*GenerateStochasticDistribution", b)
        mi = re.search(r"global_(?:grid|graph)_algo\s*->\s*Init\s*\(", b)
        if not mi or not ma:
            raise AnchorLost("engine.cpp Init call " + tag)
        args = b[mi.end():]
        L.append("def initPassesMeshX%s : Bool := %s" % (tag, "true" if re.search(r"\b%s\s*," % ma.group(1), args) else "false"))
    L.append("")

    # ---- step functions of the algorithms (statement lists; parameters and locals renamed v0, v1, …)
    def fn_stmts(fname, regex):
        params, fb = _cpp_fn(_cpp(repo, fname), regex)
        return _cpp_stmts(_alpha_cpp(fb, params)(fb))
    items = [
        ("reactionProp", r"double\s+ReactionProp\s*\([^)]*\)\s*", "SimulationAlgorithm3DBase.hpp", "SimulationAlgorithmGraphBase.hpp"),
        ("diffusionProp", r"double\s+DiffusionProp\s*\([^)]*\)\s*", "SimulationAlgorithm3DBase.hpp", "SimulationAlgorithmGraphBase.hpp"),
        ("diffusionRate", r"double\s+DiffusionRate\s*\([^)]*\)\s*", "SimulationAlgorithm3DBase.hpp", "SimulationAlgorithmGraphBase.hpp"),
        ("diffusionRateDifference", r"double\s+DiffusionRateDifference\s*\([^)]*\)\s*", "SimulationAlgorithm3DBase.hpp", "SimulationAlgorithmGraphBase.hpp"),
        ("reactionRate", r"double\s+ReactionRate\s*\([^)]*\)\s*", "SimulationAlgorithm3DBase.hpp", "SimulationAlgorithmGraphBase.hpp"),
        ("poissonFn", r"(?:int|long\s+long)\s+Poisson\s*\([^)]*\)\s*", "SimulationAlgorithm3DBase.hpp", "SimulationAlgorithmGraphBase.hpp"),
        ("buildMeshKr", r"void\s+Build_mesh_kr\s*\([^)]*\)\s*", "SimulationAlgorithm3DBase.hpp", "SimulationAlgorithmGraphBase.hpp"),
        ("buildMeshKd", r"void\s+Build_mesh_kd\s*\([^)]*\)\s*", "SimulationAlgorithm3DBase.hpp", "SimulationAlgorithmGraphBase.hpp"),
        ("computePropensities", r"void\s+ComputePropensities\s*\(\s*\)\s*", "Gillespie3D.hpp", "GillespieGraph.hpp"),
        ("applyReaction", r"void\s+ApplyReaction\s*\([^)]*\)\s*", "Gillespie3D.hpp", "GillespieGraph.hpp"),
        ("applyDiffusion", r"void\s+ApplyDiffusion\s*\([^)]*\)\s*", "Gillespie3D.hpp", "GillespieGraph.hpp"),
        ("drawAndApplyEvent", r"void\s+DrawAndApplyEvent\s*\(\s*\)\s*", "Gillespie3D.hpp", "GillespieGraph.hpp"),
        ("computeNevt", r"void\s+Compute_nevt\s*\(\s*\)\s*", "TauLeap3D.hpp", "TauLeapGraph.hpp"),
        ("applyNevt", r"void\s+Apply_nevt\s*\(\s*\)\s*", "TauLeap3D.hpp", "TauLeapGraph.hpp"),
        ("computeDxdt", r"void\s+Compute_dxdt\s*\(\s*\)\s*", "Euler3D.hpp", "EulerGraph.hpp"),
        ("applyDxdt", r"void\s+Apply_dxdt\s*\(\s*\)\s*", "Euler3D.hpp", "EulerGraph.hpp"),
    ]
    for name, rx, f3, fg in items:
        L.append("def %sGrid : List String := %s" % (name, strs(fn_stmts(f3, rx))))
        L.append("def %sGraph : List String := %s" % (name, strs(fn_stmts(fg, rx))))
    L.append("def setNeighborsGraph : List String := %s" %
             strs(fn_stmts("SimulationAlgorithmGraphBase.hpp", r"void\s+SetNeighbors\s*\([^)]*\)\s*")))
    # rng / uniform set-up in Init (seeded from the argument, uniform on [0,1))
    for tag, fname in (("Grid", "SimulationAlgorithm3DBase.hpp"), ("Graph", "SimulationAlgorithmGraphBase.hpp")):
        t = _cpp(repo, fname)
        m1 = re.search(r"this->rng\s*=\s*([^;]+);", t)
        m2 = re.search(r"this->uiud\s*=\s*([^;]+);", t)
        if not m1 or not m2:
            raise AnchorLost("rng / uiud set-up in Init " + tag)
        L.append("def rngInit%s : List String := %s" % (tag, strs([re.sub(r"\s+", "", m1.group(1)), re.sub(r"\s+", "", m2.group(1))])))
    L.append("")

    # ---- Python side: accepted modes, default, how the mode reaches the engine
    src = PySrc(repo, "src/strengths/rdscript.py")
    setter = None
    for n in ast.walk(src.tree):
        if isinstance(n, ast.FunctionDef) and n.name == "init_state_processing" and len(n.args.args) == 2:
            setter = n
    if setter is None:
        raise AnchorLost("rdscript.py:init_state_processing setter")
    modes = None
    for n in ast.walk(setter):
        if isinstance(n, ast.Compare) and len(n.ops) == 1 and isinstance(n.ops[0], (ast.NotIn, ast.In)) \
                and isinstance(n.comparators[0], (ast.List, ast.Tuple)):
            modes = str_list(n.comparators[0])
            # must be `if not x in [...] : raise`  or  `if x not in [...] : raise`
    if modes is None:
        raise AnchorLost("rdscript.py:init_state_processing accepted list")
    raises = any(isinstance(n, ast.Raise) for n in ast.walk(setter))
    L.append("/-- `RDScript.init_state_processing` setter: accepted values (anything else raises) -/")
    L.append("def pyInitModes : List String := %s" % strs(modes))
    L.append("def pyInitModesGuarded : Bool := %s" % ("true" if raises else "false"))
    init = src.func("__init__", cls="RDScript")
    default = None
    args = init.args
    names = [a.arg for a in args.args]
    defaults = [None] * (len(names) - len(args.defaults)) + list(args.defaults)
    for nme, dflt in zip(names, defaults):
        if nme == "init_state_processing" and dflt is not None:
            default = const_str(dflt)
    if default is None:
        raise AnchorLost("rdscript.py:RDScript.__init__ default of init_state_processing")
    L.append("def pyInitModeDefault : String := %s" % lean_str(default))
    lre = PySrc(repo, "src/strengths/librdengine.py")
    passed = re.findall(r"ctypes\.c_char_p\(\s*script\.init_state_processing\.encode\(\)\s*\)", lre.text)
    L.append("/-- number of `engineexport_initialize_*` calls that pass `script.init_state_processing` unchanged -/")
    L.append("def pyInitModePassed : Nat := %d" % len(passed))
    # engine_collection: which options require molecules (quantity unit forced to 'molecule')
    L.append("\nend Strengths.Gen")
    return "\n".join(L) + "\n"


# =============================================================================================
# Python kinetics / marshalling (C01, C03, C04): neighbour enumeration, wrap lines, chemostat lookup,
# rate / diffusion formulas (normalised text), rate-constant dimensions, marshalling subscripts and loop orders
# =============================================================================================
def _norm(src, node):
    return re.sub(r"\s+", "", src.seg(node))


def _stmts(fn):
    """all statements of a function, depth first, in source order"""
    out = []

    def rec(body):
        for st in body:
            out.append(st)
            for fld in ("body", "orelse", "finalbody"):
                sub = getattr(st, fld, None)
                if isinstance(sub, list):
                    rec(sub)
    rec(fn.body)
    return out


def _stmt_texts(src, fn, keep):
    """normalised source text of the simple statements (Assign/AugAssign/Return/Expr) of fn selected by keep(text)"""
    res = []
    for st in _stmts(fn):
        if isinstance(st, (ast.Assign, ast.AugAssign, ast.Return, ast.Expr)):
            if isinstance(st, ast.Expr) and isinstance(st.value, ast.Constant) and isinstance(st.value.value, str):
                continue   # docstring
            t = _norm(src, st)
            if keep(t):
                res.append(t)
    return res


def _need(lst, what, n=None):
    if not lst or (n is not None and len(lst) != n):
        raise AnchorLost("%s (found %d)" % (what, len(lst)))
    return lst


@group
def gen_KineticsPy(repo):
    kin = PySrc(repo, "src/strengths/kinetics.py")
    L = ["namespace Strengths.Gen\n"]

    def strs(l):
        return lean_list([lean_str(x) for x in l])

    # ---- _compute_dspeciesdt_grid : candidate list, wrap lines, bounds test, chemostat test, accumulation
    g = kin.func("_compute_dspeciesdt_grid")
    cand = None
    for st in _stmts(g):
        if isinstance(st, ast.For) and isinstance(st.iter, ast.List) and isinstance(st.target, ast.Name) and st.target.id == "c":
            cand = st
    if cand is None:
        raise AnchorLost("kinetics.py:_compute_dspeciesdt_grid candidate loop `for c in [[...]...]`")
    offs = []
    for el in cand.iter.elts:
        if not (isinstance(el, ast.List) and len(el.elts) == 3):
            raise AnchorLost("kinetics.py:_compute_dspeciesdt_grid candidate triple")
        tri = []
        for k, comp in enumerate(el.elts):
            t = _norm(kin, comp)
            m = re.fullmatch(r"p\[(\d)\](?:([-+])(\d+))?", t)
            if not m or int(m.group(1)) != k:
                raise AnchorLost("kinetics.py:_compute_dspeciesdt_grid candidate component " + t)
            tri.append(int((m.group(2) or "+") + (m.group(3) or "0")))
        offs.append(tuple(tri))
    L.append("/-- `_compute_dspeciesdt_grid`: the six candidate neighbours as coordinate offsets, in loop order -/")
    L.append("def pyNbrOffsets : List (Int × Int × Int) := %s" %
             lean_list(["((%d : Int), (%d : Int), (%d : Int))" % t for t in offs]))
    wraps = {}
    for st in cand.body:
        if isinstance(st, ast.If) and isinstance(st.test, ast.BoolOp) and isinstance(st.test.op, ast.And) and len(st.test.values) == 2:
            a, b = st.test.values
            ta = _norm(kin, a)
            m = re.fullmatch(r'system\.space\._boundary_conditions\["([xyz])"\]=="(\w+)"', ta)
            if not m:
                continue
            ax = "xyz".index(m.group(1))
            size = "system.space." + "whd"[ax]
            if len(st.body) != 1 or not isinstance(st.body[0], ast.Assign) or _norm(kin, st.body[0].targets[0]) != "c[%d]" % ax:
                raise AnchorLost("kinetics.py:_compute_dspeciesdt_grid wrap assignment of axis %d" % ax)
            guard = ExprTr(kin, {size: "n"}).tr(b)
            expr = ExprTr(kin, {size: "n", "c[%d]" % ax: "c"}).tr(st.body[0].value)
            wraps[ax] = (m.group(2), guard, expr)
    if sorted(wraps) != [0, 1, 2]:
        raise AnchorLost("kinetics.py:_compute_dspeciesdt_grid wrap lines (three `if ... periodical and size > 1`)")
    L.append("/-- boundary-condition string that enables wrapping, per axis -/")
    L.append("def pyWrapMode : List String := %s" % strs([wraps[a][0] for a in range(3)]))
    for a in range(3):
        L.append("/-- wrap of axis %d: extra guard on the axis length `n`, and the new coordinate from `n` and candidate `c` -/" % a)
        L.append("def pyWrapGuard%d (n : Int) : Bool := %s" % (a, wraps[a][1]))
        L.append("def pyWrap%d (n c : Int) : Int := %s" % (a, wraps[a][2]))
    inb = [st for st in cand.body if isinstance(st, ast.If) and _norm(kin, st.test) == "system.space.is_within_bounds(c)"]
    _need(inb, "kinetics.py:_compute_dspeciesdt_grid `if system.space.is_within_bounds(c)`", 1)
    L.append("def pyGridNbrBody : List String := %s" % strs([_norm(kin, s) for s in inb[0].body]))

    def chem_test(fn):
        for st in fn.body:
            if isinstance(st, ast.If) and isinstance(st.test, ast.BoolOp) and isinstance(st.test.op, ast.And) \
                    and _norm(kin, st.test.values[0]) == "apply_chemostats" and len(st.test.values) == 2:
                return _norm(kin, st.test.values[1]), [_norm(kin, s) for s in st.body]
        raise AnchorLost("kinetics.py:%s `if apply_chemostats and ...`" % fn.name)
    gg = kin.func("_compute_dspeciesdt_graph")
    ct_grid, cb_grid = chem_test(g)
    ct_graph, cb_graph = chem_test(gg)
    L.append("/-- the flag consulted by `if apply_chemostats and <...>` and the statement executed when it is set -/")
    L.append("def pyChemTestGrid : String := %s" % lean_str(ct_grid))
    L.append("def pyChemTestGraph : String := %s" % lean_str(ct_graph))
    L.append("def pyChemBodyGrid : List String := %s" % strs(cb_grid))
    L.append("def pyChemBodyGraph : List String := %s" % strs(cb_graph))
    L.append("/-- statements accumulating into `d` (`d = 0` … `d += …` … `return d.convert(...)`), in source order -/")
    L.append("def pyAccumGrid : List String := %s" % strs(_need(_stmt_texts(kin, g, lambda t: t.startswith("d=") or t.startswith("d+=") or t.startswith("returnd")), "kinetics.py:_compute_dspeciesdt_grid accumulation")))
    L.append("def pyAccumGraph : List String := %s" % strs(_need(_stmt_texts(kin, gg, lambda t: t.startswith("d=") or t.startswith("d+=") or t.startswith("returnd")), "kinetics.py:_compute_dspeciesdt_graph accumulation")))
    # graph neighbour enumeration: conditions of the loop over j
    conds = []
    for st in _stmts(gg):
        if isinstance(st, ast.For) and _norm(kin, st.iter) == "range(system.space.size())":
            for s2 in _stmts(st):
                if isinstance(s2, ast.If):
                    conds.append(_norm(kin, s2.test))
    L.append("def pyGraphNbrConds : List String := %s" % strs(_need(conds, "kinetics.py:_compute_dspeciesdt_graph neighbour loop conditions")))

    # ---- compute_reaction_rates : the statements building rf / rr
    crr = kin.func("compute_reaction_rates")
    L.append("/-- `compute_reaction_rates`: statements defining `rf`, `rr`, `volume`, the state index and the returned pair -/")
    L.append("def pyRateStmts : List String := %s" % strs(_need(_stmt_texts(
        kin, crr, lambda t: re.match(r"(rf|rr|volume|state_index|ssto|psto|environment_index|environment_label)(=|\*=)", t) or t.startswith("returnrf")),
        "kinetics.py:compute_reaction_rates rate statements")))
    # ---- compute_diffusion_rates : formulas of both branches
    cdr = kin.func("compute_diffusion_rates")
    L.append("/-- `compute_diffusion_rates`: statements defining the diffusion constants and the returned pairs -/")
    L.append("def pyDiffStmts : List String := %s" % strs(_need(_stmt_texts(
        kin, cdr, lambda t: re.match(r"(Di|Dj|Di,Dj|Dij|hi|hj|h|k|kf|kr|Vi|Vj|volumes|surface|distance|src_state_index|dst_state_index)=", t) or t.startswith("return(")),
        "kinetics.py:compute_diffusion_rates statements")))
    tests = []
    for st in _stmts(cdr):
        if isinstance(st, ast.If):
            t = _norm(kin, st.test)
            if "Di" in t or "get_edge" in t or "are_neighbors" in t:
                tests.append(t)
    L.append("def pyDiffTests : List String := %s" % strs(_need(tests, "kinetics.py:compute_diffusion_rates tests")))
    # ---- compute_dstatedt loop order
    cds = kin.func("compute_dstatedt")
    loops = [(_norm(kin, st.target), _norm(kin, st.iter)) for st in _stmts(cds) if isinstance(st, ast.For)]
    L.append("/-- `compute_dstatedt`: nesting of the loops (outer first) and the appended call -/")
    L.append("def pyDstateLoops : List (String × String) := %s" % lean_list(["(%s, %s)" % (lean_str(a), lean_str(b)) for a, b in _need(loops, "compute_dstatedt loops")]))
    L.append("def pyDstateStmts : List String := %s\n" % strs(_need(_stmt_texts(kin, cds, lambda t: "append" in t or t.startswith("return")), "compute_dstatedt statements")))

    # ---- rdnetwork.py : dimensions of rate constants, reaction splitting
    net = PySrc(repo, "src/strengths/rdnetwork.py")
    for fname, tag in (("kf_units_dimensions", "Kf"), ("kr_units_dimensions", "Kr")):
        fn = net.func(fname, "Reaction")
        ret = [st for st in fn.body if isinstance(st, ast.Return)]
        if len(ret) != 1 or not isinstance(ret[0].value, ast.Call) or getattr(ret[0].value.func, "id", "") != "UnitsDimensions":
            raise AnchorLost("rdnetwork.py:Reaction.%s return UnitsDimensions(...)" % fname)
        kw = {k.arg: k.value for k in ret[0].value.keywords}
        if sorted(kw) != ["quantity", "space", "time"]:
            raise AnchorLost("rdnetwork.py:Reaction.%s keywords" % fname)
        counted = [_norm(net, st.iter) for st in fn.body if isinstance(st, ast.For)]
        incr = _stmt_texts(net, fn, lambda t: t.startswith("count"))
        L.append("/-- `Reaction.%s` : exponents as functions of `count`, what is counted -/" % fname)
        for k, nm in (("space", "Space"), ("time", "Time"), ("quantity", "Qty")):
            L.append("def dim%s%s (count : Int) : Int := %s" % (tag, nm, ExprTr(net, {"count": "count"}).tr(kw[k])))
        L.append("def dim%sCounted : List String := %s" % (tag, strs(counted + incr)))
    sp = net.func("split", "Reaction")
    calls = []
    for st in _stmts(sp):
        if isinstance(st, ast.Assign) and isinstance(st.value, ast.Call) and getattr(st.value.func, "id", "") == "Reaction":
            kw = {k.arg: _norm(net, k.value) for k in st.value.keywords}
            calls.append((_norm(net, st.targets[0]), kw.get("stoichiometry", ""), kw.get("kf", ""), kw.get("kr", "")))
    ret = [_norm(net, st) for st in sp.body if isinstance(st, ast.Return)]
    L.append("/-- `Reaction.split`: (name, stoichiometry, kf, kr) of the two constructed reactions, and the return -/")
    L.append("def pySplit : List (String × String × String × String) := %s" %
             lean_list(["(%s, %s, %s, %s)" % tuple(lean_str(x) for x in c) for c in _need(calls, "Reaction.split constructor calls", 2)]))
    L.append("def pySplitReturn : List String := %s" % strs(ret))
    for fname in ("ssto", "psto", "dsto"):
        fn = net.func(fname, "Reaction")
        L.append("def py_%s : String := %s" % (fname, lean_str(_norm(net, fn.body[-1]))))
    L.append("")

    # ---- value_processing.get_value_in_env : order of the look-ups
    vp = PySrc(repo, "src/strengths/value_processing.py")
    gv = vp.func("get_value_in_env")
    seq = []
    for st in _stmts(gv):
        if isinstance(st, ast.If):
            seq.append("if:" + _norm(vp, st.test))
        elif isinstance(st, ast.Return):
            seq.append(_norm(vp, st))
    L.append("/-- `get_value_in_env`: tests and returns in source order -/")
    L.append("def pyGetValueInEnv : List String := %s\n" % strs(_need(seq, "get_value_in_env")))

    # ---- rdsystem.py : make_dxdtf, apply_reaction, get_chemostat
    rds = PySrc(repo, "src/strengths/rdsystem.py")
    mk = rds.func("make_dxdtf", "RDSystem")
    L.append("/-- `RDSystem.make_dxdtf`: simple statements in source order (outer function and the returned closure) -/")
    L.append("def pyDxdtfStmts : List String := %s" % strs(_need(_stmt_texts(rds, mk, lambda t: True), "make_dxdtf statements")))
    L.append("def pyDxdtfLoops : List (String × String) := %s" % lean_list(
        ["(%s, %s)" % (lean_str(_norm(rds, st.target)), lean_str(_norm(rds, st.iter))) for st in _stmts(mk) if isinstance(st, ast.For)]))
    for dfn in [n for n in ast.walk(mk) if isinstance(n, ast.FunctionDef) and n is not mk]:
        L.append("def pyDxdtfInner_%s : List String := %s" % (dfn.name, strs(_stmt_texts(rds, dfn, lambda t: True))))
        L.append("def pyDxdtfInnerLoops_%s : List (String × String) := %s" % (dfn.name, lean_list(
            ["(%s, %s)" % (lean_str(_norm(rds, st.target)), lean_str(_norm(rds, st.iter))) for st in _stmts(dfn) if isinstance(st, ast.For)])))
    ar = rds.func("apply_reaction", "RDSystem")
    loop = [st for st in _stmts(ar) if isinstance(st, ast.For)]
    _need(loop, "apply_reaction loop", 1)
    body = []
    for st in _stmts(loop[0]):
        body.append(("if:" + _norm(rds, st.test)) if isinstance(st, ast.If) else _norm(rds, st))
    L.append("/-- `RDSystem.apply_reaction`: the applying loop (iterator, then statements / tests in order) and the `dx` definition -/")
    L.append("def pyApplyLoop : List String := %s" % strs([_norm(rds, loop[0].target) + " in " + _norm(rds, loop[0].iter)] + body))
    L.append("def pyApplyDx : List String := %s" % strs(_need(_stmt_texts(rds, ar, lambda t: t.startswith("dx=") or t.startswith("r=")), "apply_reaction dx")))
    gc = rds.func("get_chemostat", "RDSystem")
    L.append("def pyGetChemostat : List String := %s" % strs(_stmt_texts(rds, gc, lambda t: True)))
    sc = rds.func("set_chemostat", "RDSystem")
    L.append("def pySetChemostat : List String := %s\n" % strs(_stmt_texts(rds, sc, lambda t: True)))

    # ---- librdengine.py : marshalling subscripts and loop orders
    lre = PySrc(repo, "src/strengths/librdengine.py")

    def store_formula(fname, arr, names):
        fn = lre.func(fname)
        for st in _stmts(fn):
            if isinstance(st, ast.Assign) and isinstance(st.targets[0], ast.Subscript) and _norm(lre, st.targets[0].value) == arr:
                loops = [(_norm(lre, f.target), _norm(lre, f.iter)) for f in _stmts(fn) if isinstance(f, ast.For)]
                return ExprTr(lre, names).tr(st.targets[0].slice), _norm(lre, st.value), loops
        raise AnchorLost("librdengine.py:%s store into %s[...]" % (fname, arr))
    nm = {"n_reactions": "nr", "n_env": "ne", "s": "s", "r": "r", "e": "e"}
    f_sub, v_sub, l_sub = store_formula("build_substrate_stoechiometric_matrix", "sub", nm)
    f_sto, v_sto, l_sto = store_formula("build_stoechiometric_difference_matrix", "sto", nm)
    f_d, v_d, l_d = store_formula("build_diff_coef_environment_matrix", "D", nm)
    L.append("/-- `build_*_matrix`: index written, value stored, loops (outer first) -/")
    L.append("def pySubIndex (nr s r : Int) : Int := %s" % f_sub)
    L.append("def pyStoIndex (nr s r : Int) : Int := %s" % f_sto)
    L.append("def pyDIndex (ne s e : Int) : Int := %s" % f_d)
    L.append("def pySubValue : String := %s" % lean_str(v_sub))
    L.append("def pyStoValue : String := %s" % lean_str(v_sto))
    L.append("def pyDValue : String := %s" % lean_str(v_d))

    def loops_lean(l):
        return lean_list(["(%s, %s)" % (lean_str(a), lean_str(b)) for a, b in l])
    L.append("def pySubLoops : List (String × String) := %s" % loops_lean(l_sub))
    L.append("def pyStoLoops : List (String × String) := %s" % loops_lean(l_sto))
    L.append("def pyDLoops : List (String × String) := %s" % loops_lean(l_d))
    bk = lre.func("build_reaction_rate_constant_matrix")
    l_k = [(_norm(lre, f.target), _norm(lre, f.iter)) for f in _stmts(bk) if isinstance(f, ast.For)]
    app = _stmt_texts(lre, bk, lambda t: t.startswith("km.append") or t.startswith("km=") or t.startswith("returnkm"))
    L.append("/-- `build_reaction_rate_constant_matrix`: loops (outer first; the list is appended to, so position = e*nr + r) -/")
    L.append("def pyKLoops : List (String × String) := %s" % loops_lean(_need(l_k, "build_reaction_rate_constant_matrix loops", 2)))
    L.append("def pyKStmts : List String := %s" % strs(_need(app, "build_reaction_rate_constant_matrix statements")))
    su = lre.func("setup", "LibRDEngine")
    L.append("/-- `LibRDEngine.setup`: the reaction splitting loop and the engine units system -/")
    L.append("def pySetupStmts : List String := %s" % strs(_need(_stmt_texts(
        lre, su, lambda t: t.startswith("rf,rr=") or t.startswith("reactions") or t.startswith("units_system") or t.startswith("self._units_system")),
        "LibRDEngine.setup statements")))
    for fname in ("_setup_grid", "_setup_graph"):
        fn = lre.func(fname, "LibRDEngine")
        call = None
        for n in ast.walk(fn):
            if isinstance(n, ast.Call) and _norm(lre, n.func).startswith("self._lib.engineexport_initialize"):
                call = n
        if call is None:
            raise AnchorLost("librdengine.py:%s engineexport_initialize call" % fname)
        L.append("/-- `%s`: the arguments handed to the native initialiser, in order -/" % fname)
        L.append("def pyArgs%s : List String := %s" % (fname, strs([_norm(lre, a) for a in call.args])))
    for fname in ("_get_data", "_get_t_sample"):
        fn = lre.func(fname, "LibRDEngine")
        ret = [st for st in fn.body if isinstance(st, ast.Return)]
        L.append("def pyRet%s : String := %s" % (fname, lean_str(_norm(lre, ret[-1]) if ret else "")))
    L.append("\nend Strengths.Gen")
    return "\n".join(L) + "\n"


# =============================================================================================
# Marshal: the Python <-> C++ boundary of LibRDEngine as a structured table (types, sources, unit conversions),
# the parameter lists of the two native initialisers, and the two read-back functions
# =============================================================================================
@group
def gen_Marshal(repo):
    lre = PySrc(repo, "src/strengths/librdengine.py")
    eng = _cpp(repo, "engine.cpp")
    L = ["namespace Strengths.Gen.Marshal\n",
         "inductive CTy | int | dbl | str | intArr | dblArr\n  deriving DecidableEq, Repr\n",
         "/-- how a value reaches the engine: as it is; converted to the engine's units system (`.convert(units_system).value`);\n"
         "built by a `build_*_matrix(…, units_system)` function; wrapped as `UnitArray([...], Units(sys=units_system, dim=…)).value` -/",
         "inductive Conv | none | toEngine | builtInEngine | labelledEngine\n  deriving DecidableEq, Repr\n",
         "structure PyArg where\n  ty : CTy\n  src : String\n  conv : Conv\n  dim : String\n  deriving DecidableEq, Repr\n",
         "structure CParam where\n  ty : CTy\n  name : String\n  deriving DecidableEq, Repr\n"]

    def n(node):
        return _norm(lre, node)

    def is_call(node, fname):
        return isinstance(node, ast.Call) and n(node.func) == fname

    def converted(node):
        """E.convert(units_system).value -> (E, True); E.value / E -> (text, False)"""
        if isinstance(node, ast.Attribute) and node.attr == "value" and isinstance(node.value, ast.Call) \
                and isinstance(node.value.func, ast.Attribute) and node.value.func.attr == "convert" \
                and len(node.value.args) == 1 and not node.value.keywords and n(node.value.args[0]) == "units_system":
            return n(node.value.func.value), True
        return n(node), False

    def parse_arg(a, where):
        if not isinstance(a, ast.Call) or a.keywords:
            raise AnchorLost("librdengine.py:%s argument is not a ctypes wrapper call: %s" % (where, n(a)[:60]))
        f = n(a.func)
        if f == "ctypes.c_int" and len(a.args) == 1:
            return ("int", n(a.args[0]), "none", "")
        if f == "ctypes.c_double" and len(a.args) == 1:
            src, cv = converted(a.args[0])
            return ("dbl", src, "toEngine" if cv else "none", "")
        if f == "ctypes.c_char_p" and len(a.args) == 1:
            inner = a.args[0]
            if isinstance(inner, ast.Call) and isinstance(inner.func, ast.Attribute) and inner.func.attr == "encode" and not inner.args:
                v = inner.func.value
                return ("str", n(v), "none", "")
            raise AnchorLost("librdengine.py:%s c_char_p argument is not <text>.encode()" % where)
        if f == "make_ctypes_array" and len(a.args) == 2:
            t = n(a.args[1])
            if t not in ("ctypes.c_int", "ctypes.c_double"):
                raise AnchorLost("librdengine.py:%s make_ctypes_array element type %s" % (where, t))
            ty = "intArr" if t == "ctypes.c_int" else "dblArr"
            x = a.args[0]
            if isinstance(x, ast.Call) and isinstance(x.func, ast.Name) and x.func.id.startswith("build_"):
                args = [n(v) for v in x.args]
                if args and args[-1] == "units_system":
                    return (ty, x.func.id + "(" + ",".join(args[:-1]) + ")", "builtInEngine", "")
                return (ty, x.func.id + "(" + ",".join(args) + ")", "none", "")
            if isinstance(x, ast.Attribute) and x.attr == "value" and is_call(x.value, "UnitArray") and len(x.value.args) == 2 \
                    and is_call(x.value.args[1], "Units"):
                kws = {k.arg: n(k.value) for k in x.value.args[1].keywords}
                if kws.get("sys") == "units_system" and kws.get("dim", "").endswith("_units_dimensions()"):
                    return (ty, n(x.value.args[0]), "labelledEngine", kws["dim"][:-len("_units_dimensions()")])
                return (ty, n(x), "none", "")
            src, cv = converted(x)
            return (ty, src, "toEngine" if cv else "none", "")
        raise AnchorLost("librdengine.py:%s unknown argument wrapper %s" % (where, f))

    def cty(decl, where):
        d = re.sub(r"\s+", " ", decl.strip())
        m = re.match(r"^(const char \*|double \*|int \*|double|int) ?(\w+)$", d)
        if not m:
            raise AnchorLost("engine.cpp:%s parameter declaration %r" % (where, d))
        return {"const char *": "str", "double *": "dblArr", "int *": "intArr", "double": "dbl", "int": "int"}[m.group(1)], m.group(2)

    for tag, fname, cname in (("Grid", "_setup_grid", "engineexport_initialize_grid"), ("Graph", "_setup_graph", "engineexport_initialize_graph")):
        fn = lre.func(fname, "LibRDEngine")
        call = None
        for node in ast.walk(fn):
            if isinstance(node, ast.Call) and n(node.func) == "self._lib." + cname:
                call = node
        if call is None or call.keywords:
            raise AnchorLost("librdengine.py:%s call of %s with positional arguments" % (fname, cname))
        rows = [parse_arg(a, fname) for a in call.args]
        L.append("/-- `LibRDEngine.%s`: the arguments of `%s`, in order -/" % (fname, cname))
        L.append("def py%s : List PyArg := %s" % (tag, lean_list(
            ["⟨.%s, %s, .%s, %s⟩" % (t, lean_str(s), c, lean_str(d)) for t, s, c, d in rows])))
        m = re.search(r"extern\s+\"C\"\s+int\s+%s\s*\(([^)]*)\)" % cname, eng)
        if not m:
            raise AnchorLost("engine.cpp:%s signature" % cname)
        params = [cty(p, cname) for p in m.group(1).split(",") if p.strip()]
        L.append("/-- `%s` in engine.cpp: parameter types and names, in order -/" % cname)
        L.append("def cpp%s : List CParam := %s\n" % (tag, lean_list(["⟨.%s, %s⟩" % (t, lean_str(nm)) for t, nm in params])))

    # ---- setup(): the engine's units system
    su = lre.func("setup", "LibRDEngine")
    st = _stmt_texts(lre, su, lambda t: t.startswith("units_system") or t.startswith("self._units_system") or t.startswith("ifself._requires_molecules"))
    L.append("/-- `LibRDEngine.setup`: how the engine's units system is derived from the script's -/")
    L.append("def pyEngineUnits : List String := %s\n" % lean_list([lean_str(s) for s in _need(st, "LibRDEngine.setup units_system statements")]))

    # ---- read-back
    L.append("structure ReadBack where\n  count : String\n  length : String\n  buffer : String\n  native : String\n  alloc : String\n"
             "  copyLoop : String\n  labelSys : String\n  labelDim : String\n  convertTo : String\n  deriving DecidableEq, Repr\n")
    for tag, fname, var, cfn in (("Data", "_get_data", "data", "engineexport_get_trajectory"), ("TSample", "_get_t_sample", "t_sample", "engineexport_get_tsample")):
        fn = lre.func(fname, "LibRDEngine")
        asg = {}
        for s_ in fn.body:
            if isinstance(s_, ast.Assign) and len(s_.targets) == 1 and isinstance(s_.targets[0], ast.Name):
                asg[s_.targets[0].id] = n(s_.value)
        count = asg.get("n_sample", "")
        length = asg.get("data_len", "") if fname == "_get_data" else "n_sample"
        lname = "data_len" if fname == "_get_data" else "n_sample"
        buf = asg.get(var + "_", "")
        nat = [n(s_.value) for s_ in fn.body if isinstance(s_, ast.Expr) and isinstance(s_.value, ast.Call)]
        loops = [n(s_) for s_ in fn.body if isinstance(s_, ast.For)]
        ret = [s_ for s_ in fn.body if isinstance(s_, ast.Return)]
        if not (count and length and buf and len(nat) == 1 and len(loops) == 1 and len(ret) == 1 and var in asg):
            raise AnchorLost("librdengine.py:%s shape (count, buffer, one native call, one copy loop, one return)" % fname)
        r = ret[0].value
        # UnitArray(value=<var>, units=Units(sys=…, dim=…), check_value=False).convert(<target>)
        if not (isinstance(r, ast.Call) and isinstance(r.func, ast.Attribute) and r.func.attr == "convert" and len(r.args) == 1
                and is_call(r.func.value, "UnitArray")):
            raise AnchorLost("librdengine.py:%s return UnitArray(...).convert(...)" % fname)
        kw = {k.arg: k.value for k in r.func.value.keywords}
        if n(kw.get("value", ast.Constant(None))) != var or not is_call(kw.get("units"), "Units"):
            raise AnchorLost("librdengine.py:%s returned UnitArray(value=%s, units=Units(...))" % (fname, var))
        ukw = {k.arg: n(k.value) for k in kw["units"].keywords}
        L.append("/-- `LibRDEngine.%s` -/" % fname)
        L.append("def py%s : ReadBack := ⟨%s⟩" % (tag, ", ".join(lean_str(x) for x in (
            count, length, buf.replace(lname, "LEN"), nat[0], asg[var].replace(lname, "LEN"), loops[0].replace(lname, "LEN"),
            ukw.get("sys", ""), ukw.get("dim", ""), n(r.args[0])))))
        m = re.search(r"extern\s+\"C\"\s+int\s+%s\s*\(([^)]*)\)" % cfn, eng)
        if not m:
            raise AnchorLost("engine.cpp:%s signature" % cfn)
        ps = [cty(p, cfn) for p in m.group(1).split(",") if p.strip()]
        L.append("def cpp%s : List CParam := %s\n" % (tag, lean_list(["⟨.%s, %s⟩" % (t, lean_str(nm)) for t, nm in ps])))
    L.append("end Strengths.Gen.Marshal")
    return "\n".join(L) + "\n"


# =============================================================================================
# CppNumeric: where the C++ engine leaves double / unbounded-integer arithmetic (the model's numbers are exact
# rationals and unbounded integers): `int` variables initialised from expressions, casts, single-precision tokens,
# integer-literal divisions
# =============================================================================================
@group
def gen_CppNumeric(repo):
    files = ["engine.cpp", "SimulationAlgorithm3DBase.hpp", "SimulationAlgorithmGraphBase.hpp", "Euler3D.hpp", "EulerGraph.hpp",
             "TauLeap3D.hpp", "TauLeapGraph.hpp", "Gillespie3D.hpp", "GillespieGraph.hpp"]
    inits, casts, floats, litdiv, narrow, statics, clamps = [], [], [], [], [], [], []
    preproc, fpenv = [], []
    ident = re.compile(r"[A-Za-z_]\w*")
    for f in files:
        txt = _cpp(repo, f)
        for line in txt.splitlines():
            if line.strip().startswith("#"):
                preproc.append((f, re.sub(r"\s+", " ", line.strip())))
        for m in re.finditer(r"_mm_\w+|_MM_\w+|\bmxcsr\b|\bfenv\b|\bfe(?:set|get|hold|update|clear|raise|test|enable|disable)\w*|\b_?controlfp\w*|FLUSH_ZERO|DENORMALS?_\w+|__builtin_ia32_\w+|\b(?:__)?asm(?:__)?\b|\bfast-math\b|\bFENV_ACCESS\b|\bsetlocale\b", txt):
            fpenv.append((f, m.group(0)))
        txt = re.sub(r"\"(?:\\.|[^\"\\])*\"", '""', txt)       # string literals out
        # `for(int i=0; …)` headers are loop counters: recorded separately (name = start value)
        body = re.sub(r"for\s*\(\s*(?:int|size_t|unsigned|long)\s+\w+\s*=\s*[^;]*;", "for(;", txt)
        for m in re.finditer(r"(?<![\w:<])(int|long|short|unsigned(?:\s+int)?|size_t|float)\s+(\w+)\s*=\s*([^;{}]*);", body):
            ty, name, rhs = m.group(1), m.group(2), re.sub(r"\s+", "", m.group(3))
            ids = sorted(set(ident.findall(re.sub(r"static_cast<[^>]*>", "", rhs))))
            inits.append((f, ty, name, rhs, ids, bool(re.search(r"\d\.\d|\d\.(?!\w)|\de[-+]?\d", rhs))))
        for m in re.finditer(r"static_cast\s*<\s*([^>]+?)\s*>\s*\(", txt):
            # argument up to the matching parenthesis
            i, depth = m.end(), 1
            while i < len(txt) and depth:
                depth += {"(": 1, ")": -1}.get(txt[i], 0)
                i += 1
            casts.append((f, re.sub(r"\s+", "", m.group(1)), re.sub(r"\s+", "", txt[m.end():i - 1])))
        for m in re.finditer(r"\((?:int|long|float|short|unsigned)\)\s*[\w(]", txt):
            casts.append((f, "c-style", re.sub(r"\s+", "", m.group(0))))
        for m in re.finditer(r"\bfloat\b|(?<![\w.])\d+\.?\d*(?:e[-+]?\d+)?f\b|(?<![\w.])\.\d+f\b", txt):
            floats.append((f, m.group(0)))
        for m in re.finditer(r"(?<![\w.])(\d+)\s*/\s*(\d+)(?![\w.])", txt):
            litdiv.append((f, re.sub(r"\s+", "", m.group(0))))
        for m in re.finditer(r"(?<![\w])(?:static|thread_local)\b(?!_cast)[^;{}()]*", txt):
            statics.append((f, re.sub(r"\s+", " ", m.group(0)).strip()))
        for m in re.finditer(r"(?<![\w.])(?:std::)?(?:max|min|abs|fabs|clamp|fmax|fmin)\s*\(", txt):
            i, depth = m.end(), 1
            while i < len(txt) and depth:
                depth += {"(": 1, ")": -1}.get(txt[i], 0)
                i += 1
            clamps.append((f, re.sub(r"\s+", "", txt[m.start():i])))
        for m in re.finditer(r"if\s*\(([^;{}]*?<=?\s*0(?:\.0*)?\s*)\)\s*\{?\s*([\w\[\]\*\+\.]+)\s*=\s*0(?:\.0*)?\s*;", txt):
            clamps.append((f, re.sub(r"\s+", "", m.group(0))))
        for m in re.finditer(r"numeric_limits|\bepsilon\b|\bFLT_|\bDBL_EPSILON\b|\bINT_MAX\b|\blround\b|\blrint\b|\b(?:std::)?round\s*\(|\btrunc\s*\(", txt):
            narrow.append((f, re.sub(r"\s+", "", m.group(0))))
    if not inits or not casts:
        raise AnchorLost("engine sources: no int initialisations / casts found (pattern)")
    L = ["namespace Strengths.Gen.CppNumeric\n",
         "structure IntInit where\n  file : String\n  ty : String\n  name : String\n  rhs : String\n  idents : List String\n  hasRealLiteral : Bool\n  deriving DecidableEq, Repr\n",
         "/-- every `int|long|short|unsigned|size_t|float NAME = RHS;` outside `for` headers, with the identifiers of RHS (cast type names removed) -/",
         "def intInits : List IntInit := %s\n" % lean_list(
             ["⟨%s, %s, %s, %s, %s, %s⟩" % (lean_str(f), lean_str(ty), lean_str(nm), lean_str(rhs), lean_list([lean_str(i) for i in ids]),
                                         "true" if rl else "false") for f, ty, nm, rhs, ids, rl in inits]),
         "/-- every `static_cast<T>(ARG)` and C-style narrowing cast: (file, T, ARG) -/",
         "def casts : List (String × String × String) := %s\n" % lean_list(
             ["(%s, %s, %s)" % (lean_str(f), lean_str(t), lean_str(a)) for f, t, a in casts]),
         "/-- `float` keywords and `f`-suffixed literals -/",
         "def floatTokens : List (String × String) := %s\n" % lean_list(["(%s, %s)" % (lean_str(f), lean_str(t)) for f, t in floats]),
         "/-- integer literal divided by integer literal (`1/3` is 0 in C++) -/",
         "def intLiteralDivisions : List (String × String) := %s\n" % lean_list(["(%s, %s)" % (lean_str(f), lean_str(t)) for f, t in litdiv]),
         "/-- tolerance / rounding vocabulary (`numeric_limits`, `epsilon`, `round(`, `trunc(`, …) -/",
         "def toleranceTokens : List (String × String) := %s\n" % lean_list(["(%s, %s)" % (lean_str(f), lean_str(t)) for f, t in narrow]),
         "/-- every call of max / min / abs / fabs / clamp and every `if (x < 0) x = 0`-shaped statement: (file, text) -/",
         "def clampSites : List (String × String) := %s\n" % lean_list(["(%s, %s)" % (lean_str(f), lean_str(t)) for f, t in clamps]),
         "/-- every `static` / `thread_local` declaration (function-local, class-level or file-level): (file, declaration head) -/",
         "def staticDecls : List (String × String) := %s\n" % lean_list(["(%s, %s)" % (lean_str(f), lean_str(t)) for f, t in statics]),
         "/-- every preprocessor line (`#include`, `#define`, `#pragma`, `#if…`), blanks normalised: (file, line) -/",
         "def preprocessorLines : List (String × String) := %s\n" % lean_list(["(%s, %s)" % (lean_str(f), lean_str(t)) for f, t in preproc]),
         "/-- every token that reads or writes the floating-point environment or process-wide numeric state (SSE control register intrinsics, `<cfenv>` functions, `_controlfp`, inline assembly, `setlocale`): (file, token) -/",
         "def fpEnvTokens : List (String × String) := %s\n" % lean_list(["(%s, %s)" % (lean_str(f), lean_str(t)) for f, t in fpenv]),
         "end Strengths.Gen.CppNumeric"]
    return "\n".join(L) + "\n"


# =============================================================================================
# PyNumeric: where the Python package could leave double precision / exactness (the model computes with exact
# rationals; text goes through repr): rounding and tolerance calls, narrow dtypes, `astype`, limited-digit format
# specifications, floor division — one inventory per source file
# =============================================================================================
PYNUMERIC_FILES = ["units.py", "constants.py", "value_processing.py", "rdnetwork.py", "rdgridspace.py", "rdgraphspace.py", "rdspace.py",
                   "rdsystem.py", "rdscript.py", "rdoutput.py", "librdengine.py", "kinetics.py", "simulate.py", "coarsegrain.py",
                   "engine_collection.py", "filepath.py", "text_array_rw.py"]


@group
def gen_PyNumeric(repo):
    calls = {"round", "np.round", "np.around", "numpy.round", "np.isclose", "np.allclose", "math.isclose", "np.floor", "np.ceil",
             "math.floor", "math.ceil", "np.trunc", "math.trunc", "np.rint", "np.fix", "np.nextafter", "np.spacing", "np.finfo"}
    narrow = re.compile(r"(float16|float32|single|half|int8|int16|int32|uint8|uint16|uint32|uint64|c_float|c_short|c_long|c_int64|c_uint|longdouble|float128)$")
    fmt = re.compile(r"%[-+0 #]*\d*(?:\.\d+)?[eEfFgGdi]|\{[^{}]*:[^{}]*\}")
    L = ["namespace Strengths.Gen.PyNumeric\n",
         "/-- per source file: (kind, normalised text) of every rounding / tolerance call, `dtype=` value, narrow numeric type name,\n"
         "`astype`, limited-digit format specification, floor division -/"]
    names = []
    for rel in PYNUMERIC_FILES:
        src = PySrc(repo, "src/strengths/" + rel)
        inv = []
        for node in ast.walk(src.tree):
            if isinstance(node, ast.Call):
                f = _norm(src, node.func)
                if f in calls:
                    inv.append((node.lineno, node.col_offset, "call", _norm(src, node)))
                if isinstance(node.func, ast.Attribute) and node.func.attr in ("astype", "view", "round", "tobytes"):
                    if node.func.attr != "tobytes":
                        inv.append((node.lineno, node.col_offset, node.func.attr, _norm(src, node)))
                if isinstance(node.func, ast.Attribute) and node.func.attr == "format":
                    inv.append((node.lineno, node.col_offset, "format", _norm(src, node.func.value)))
                for kw in node.keywords:
                    if kw.arg == "dtype":
                        inv.append((node.lineno, node.col_offset, "dtype", _norm(src, kw.value)))
            elif isinstance(node, ast.Attribute) and narrow.search(node.attr):
                inv.append((node.lineno, node.col_offset, "type", _norm(src, node)))
            elif isinstance(node, ast.Name) and narrow.search(node.id):
                inv.append((node.lineno, node.col_offset, "type", node.id))
            elif isinstance(node, ast.Constant) and isinstance(node.value, str) and node.value in ("f", "f4", "f2", "e", "i4", "i2", "i1", "u1", "<f4", "float32", "int32", "single"):
                inv.append((node.lineno, node.col_offset, "type", repr(node.value)))
            elif isinstance(node, ast.BinOp) and isinstance(node.op, ast.Mod) and isinstance(node.left, ast.Constant) \
                    and isinstance(node.left.value, str) and fmt.search(node.left.value):
                inv.append((node.lineno, node.col_offset, "format", node.left.value))
            elif isinstance(node, ast.FormattedValue) and node.format_spec is not None:
                # (source positions inside f-strings differ between Python versions: rebuild the text from the tree)
                spec = "".join(v.value if isinstance(v, ast.Constant) else "{…}" for v in node.format_spec.values)
                inv.append((node.lineno, 0, "format", "{" + re.sub(r"\s+", "", ast.unparse(node.value)) + ":" + spec + "}"))
            elif isinstance(node, ast.BinOp) and isinstance(node.op, ast.FloorDiv):
                inv.append((node.lineno, node.col_offset, "floordiv", _norm(src, node)))
            elif isinstance(node, ast.AugAssign) and isinstance(node.op, ast.FloorDiv):
                inv.append((node.lineno, node.col_offset, "floordiv", _norm(src, node)))
        inv.sort()
        nm = "inv_" + rel[:-3]
        names.append((rel, nm))
        L.append("def %s : List (String × String) := %s" % (nm, lean_list(["(%s, %s)" % (lean_str(k), lean_str(t)) for _, _, k, t in inv])))
        # where the file takes a maximum / minimum / absolute value, or swallows an exception: (kind, normalised text)
        cl = []
        for node in ast.walk(src.tree):
            if isinstance(node, ast.Call):
                f = re.sub(r"\s+", "", ast.unparse(node.func))
                if f in ("max", "min", "abs", "np.maximum", "np.minimum", "np.clip", "np.abs", "np.absolute", "np.fmax", "np.fmin",
                         "numpy.maximum", "numpy.minimum", "numpy.clip", "math.fabs", "np.fabs") or f.endswith(".clip"):
                    cl.append((node.lineno, node.col_offset, "clamp", re.sub(r"\s+", "", ast.unparse(node))))
            elif isinstance(node, ast.ExceptHandler):
                cl.append((node.lineno, node.col_offset, "except", re.sub(r"\s+", "", ast.unparse(node.type)) if node.type is not None else "bare"))
        cl.sort()
        L.append("def clamp_%s : List (String × String) := %s" % (rel[:-3], lean_list(["(%s, %s)" % (lean_str(k), lean_str(t)) for _, _, k, t in cl])))
    L.append("\ndef files : List String := %s" % lean_list([lean_str(r) for r, _ in names]))
    L.append("\nend Strengths.Gen.PyNumeric")
    return "\n".join(L) + "\n"


# =============================================================================================
# PySetters: failure atomicity of the public setters — per source file, every property setter and `set_*` method
# with its execution paths as event lists (store into `self.<attr>`, `raise`, call of a checking function)
# =============================================================================================
PYSETTER_FILES = ["units.py", "rdnetwork.py", "rdgridspace.py", "rdgraphspace.py", "rdsystem.py", "rdscript.py", "rdoutput.py",
                  "librdengine.py"]


def _setter_paths(fn, cap=4000):
    """execution paths of a function body as tuples of events ('S', attr) | ('R',) | ('C', name); loops 0-2 times"""
    def stores(node):
        tg = node.targets if isinstance(node, ast.Assign) else [node.target] if isinstance(node, (ast.AugAssign, ast.AnnAssign)) else []
        out = []
        for t in tg:
            for tt in ast.walk(t):
                if isinstance(tt, ast.Attribute) and isinstance(tt.value, ast.Name) and tt.value.id == "self":
                    out.append(("S", tt.attr))
        return out

    def checks(node):
        out = []
        for n in ast.walk(node):
            if isinstance(n, ast.Call):
                f = n.func
                name = f.attr if isinstance(f, ast.Attribute) else (f.id if isinstance(f, ast.Name) else "")
                if re.search(r"check|valid|assert", name):
                    out.append(("C", name))
        return out

    def add(path, evs):
        p = list(path)
        for e in evs:
            if not p or p[-1] != e:
                p.append(e)
        return tuple(p)

    def run(stmts, paths):
        """paths: set of (events, live) ; returns same"""
        for s in stmts:
            live = {p for p, l in paths if l}
            dead = {(p, False) for p, l in paths if not l}
            if not live:
                return paths
            if isinstance(s, ast.Raise):
                paths = dead | {(add(p, [("R",)]), False) for p in live}
            elif isinstance(s, ast.Return):
                paths = dead | {(add(p, checks(s)), False) for p in live}
            elif isinstance(s, ast.If):
                t = checks(s.test)
                start = {(add(p, t), True) for p in live}
                paths = dead | run(s.body, set(start)) | run(s.orelse, set(start))
            elif isinstance(s, (ast.For, ast.While)):
                hd = checks(s.iter if isinstance(s, ast.For) else s.test)
                start = {(add(p, hd), True) for p in live}
                once = run(s.body, set(start))
                twice = run(s.body, {(p, True) for p, l in once if l})
                paths = dead | start | once | twice
            elif isinstance(s, ast.Try):
                body = run(s.body, {(p, True) for p in live})
                res = set(body)
                for h in s.handlers:
                    res |= run(h.body, {(p, True) for p, _ in body})
                paths = dead | res
            elif isinstance(s, ast.With):
                paths = dead | run(s.body, {(p, True) for p in live})
            else:
                paths = dead | {(add(p, checks(s) + stores(s)), True) for p in live}
            if len(paths) > cap:
                raise AnchorLost("setter %s has more than %d paths" % (fn.name, cap))
        return paths
    return sorted({p for p, _ in run(fn.body, {((), True)})})


@group
def gen_PySetters(repo):
    L = ["namespace Strengths.Gen.PySetters\n",
         "inductive Ev | store (attr : String) | raise | check (fn : String)\n  deriving DecidableEq, Repr\n",
         "structure Setter where\n  cls : String\n  name : String\n  paths : List (List Ev)\n  deriving DecidableEq, Repr\n",
         "/-- per source file: every `@<name>.setter` method and every `set_*` method of every class, with its execution paths\n"
         "(loops taken 0, 1 or 2 times; consecutive equal events merged) -/"]

    def ev(e):
        return ".store %s" % lean_str(e[1]) if e[0] == "S" else ".raise" if e[0] == "R" else ".check %s" % lean_str(e[1])
    for rel in PYSETTER_FILES:
        src = PySrc(repo, "src/strengths/" + rel)
        rows = []
        for c in src.tree.body:
            if not isinstance(c, ast.ClassDef):
                continue
            for fn in c.body:
                if not isinstance(fn, ast.FunctionDef):
                    continue
                is_setter = any(isinstance(d, ast.Attribute) and d.attr == "setter" for d in fn.decorator_list)
                if is_setter or fn.name.startswith("set_") or (rel == "librdengine.py" and fn.name in ("setup", "finalize")):
                    paths = _setter_paths(fn)
                    rows.append("⟨%s, %s, %s⟩" % (lean_str(c.name), lean_str(fn.name),
                                                 lean_list([lean_list([ev(e) for e in p]) for p in paths])))
        L.append("def setters_%s : List Setter := %s" % (rel[:-3], lean_list(rows)))
    L.append("\nend Strengths.Gen.PySetters")
    return "\n".join(L) + "\n"


# =============================================================================================
# PyIdioms: Python constructs whose meaning differs from the value semantics the model assumes — identity comparison
# with anything but None, substring test on a string literal, `assert` (vanishes under -O), a short-circuit operator
# used as a VALUE (`x or default` treats 0 / False / {} / empty arrays as missing), `*d.values()` (relies on key order)
# =============================================================================================
@group
def gen_PyIdioms(repo):
    L = ["namespace Strengths.Gen.PyIdioms\n",
         "/-- per source file: (kind, normalised text); kinds: `is` (identity comparison with something other than None),\n"
         "`in-literal` (membership test in a string literal of several characters; `in-char`: in a one-character literal), `assert`, `boolop-value` (and/or used as a value with an operand that\n"
         "is not a comparison), `boolop-of-comparisons` (and/or of comparisons used as a value), `star-dict`, `reorder` (sorted / set /\n"
         "reversed / unique / .sort(): the declared order of species, environments, reactions, cells is the only order the package uses) -/"]
    for rel in PYNUMERIC_FILES:
        src = PySrc(repo, "src/strengths/" + rel)
        parents = {}
        for node in ast.walk(src.tree):
            for c in ast.iter_child_nodes(node):
                parents[c] = node
        inv = []
        for node in ast.walk(src.tree):
            if isinstance(node, ast.Compare):
                for op, c in zip(node.ops, node.comparators):
                    if isinstance(op, (ast.Is, ast.IsNot)) and not (isinstance(c, ast.Constant) and c.value is None):
                        inv.append((node.lineno, node.col_offset, "is", re.sub(r"\s+", "", ast.unparse(node))))
                    if isinstance(op, (ast.In, ast.NotIn)) and isinstance(c, ast.Constant) and isinstance(c.value, str):
                        inv.append((node.lineno, node.col_offset, "in-char" if len(c.value) == 1 else "in-literal",
                                    re.sub(r"\s+", "", ast.unparse(node))))
            elif isinstance(node, ast.Assert):
                inv.append((node.lineno, node.col_offset, "assert", re.sub(r"\s+", "", ast.unparse(node.test))))
            elif isinstance(node, ast.BoolOp):
                p = parents.get(node)
                if not isinstance(p, (ast.If, ast.While, ast.BoolOp, ast.UnaryOp, ast.IfExp, ast.Assert)) or \
                        (isinstance(p, ast.IfExp) and p.test is not node):
                    pure = all(isinstance(v, ast.Compare) for v in node.values)
                    inv.append((node.lineno, node.col_offset, "boolop-of-comparisons" if pure else "boolop-value",
                                re.sub(r"\s+", "", ast.unparse(node))))
            elif isinstance(node, ast.Starred) and isinstance(node.value, ast.Call) and isinstance(node.value.func, ast.Attribute) \
                    and node.value.func.attr in ("values", "keys", "items"):
                inv.append((node.lineno, node.col_offset, "star-dict", re.sub(r"\s+", "", ast.unparse(node))))
            elif isinstance(node, ast.Call):
                fn_ = re.sub(r"\s+", "", ast.unparse(node.func))
                if fn_ in ("sorted", "set", "frozenset", "reversed", "np.unique", "np.sort", "np.argsort", "numpy.unique", "numpy.sort") \
                        or fn_.endswith(".sort") or fn_.endswith(".reverse"):
                    inv.append((node.lineno, node.col_offset, "reorder", re.sub(r"\s+", "", ast.unparse(node))))
        inv.sort()
        L.append("def inv_%s : List (String × String) := %s" % (rel[:-3], lean_list(
            ["(%s, %s)" % (lean_str(k), lean_str(t)) for _, _, k, t in inv])))
        # ownership: calls that alias an array instead of copying it, and (function, call) of every explicit copy
        views, copies = [], []

        def walk_fn(node, qual):
            for ch in ast.iter_child_nodes(node):
                if isinstance(ch, (ast.FunctionDef, ast.ClassDef)):
                    walk_fn(ch, (qual + "." if qual else "") + ch.name)
                else:
                    for n2 in ([ch] if isinstance(ch, ast.Call) else []) + [x for x in ast.walk(ch) if isinstance(x, ast.Call) and x is not ch]:
                        f = re.sub(r"\s+", "", ast.unparse(n2.func))
                        if f in ("np.asarray", "numpy.asarray", "np.frombuffer", "np.asanyarray", "memoryview", "np.ascontiguousarray",
                                 "np.ctypeslib.as_array") or f.endswith(".view") or f.endswith(".reshape") and False:
                            views.append((n2.lineno, n2.col_offset, qual, re.sub(r"\s+", "", ast.unparse(n2))))
                        if f.endswith(".copy") or f.endswith("deepcopy"):
                            copies.append((n2.lineno, n2.col_offset, qual, re.sub(r"\s+", "", ast.unparse(n2))))
                    # nested defs inside statements (rare) are reached by ast.walk above
        walk_fn(src.tree, "")
        views.sort()
        copies.sort()
        L.append("def views_%s : List (String × String) := %s" % (rel[:-3], lean_list(
            ["(%s, %s)" % (lean_str(q), lean_str(t)) for _, _, q, t in views])))
        L.append("def copies_%s : List (String × String) := %s" % (rel[:-3], lean_list(
            ["(%s, %s)" % (lean_str(q), lean_str(t)) for _, _, q, t in copies])))
    L.append("\nend Strengths.Gen.PyIdioms")
    return "\n".join(L) + "\n"
