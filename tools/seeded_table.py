#!/usr/bin/env python3
"""Markdown table of seeded changes × check outcome (from seeded/*/meta.json and seeded/RESULTS.json)."""
import json, os
ROOT = os.path.dirname(os.path.dirname(os.path.abspath(__file__)))
res = json.load(open(os.path.join(ROOT, "seeded", "RESULTS.json"))) if os.path.exists(os.path.join(ROOT, "seeded", "RESULTS.json")) else {}
print("| change | breaks | what it needs to manifest | check outcome |")
print("|--------|--------|---------------------------|---------------|")
for n in sorted(os.listdir(os.path.join(ROOT, "seeded"))):
    mp = os.path.join(ROOT, "seeded", n, "meta.json")
    if not os.path.exists(mp):
        continue
    m = json.load(open(mp))
    need = (m.get("needs_to_manifest") or m.get("needs") or "").replace("|", "/").replace("\n", " ")
    if len(need) > 150:
        need = need[:147] + "…"
    out = "; ".join("%s: %s" % (p, v["outcome"]) for p, v in sorted(res.get(n, {}).items())) or "not run yet"
    print("| %s | %s | %s | %s |" % (n, ",".join(m.get("breaks", [])), need, out))
