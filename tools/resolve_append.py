#!/usr/bin/env python3
"""Resolve a merge conflict in an append-only file: result = OURS + (THEIRS minus the common BASE prefix).
usage (during a merge): tools/resolve_append.py <their-branch> <file>…   Fails if THEIRS changed anything inside BASE."""
import subprocess, sys
branch = sys.argv[1]
base_rev = subprocess.check_output(["git", "merge-base", "HEAD", branch], text=True).strip()
for p in sys.argv[2:]:
    get = lambda rev: subprocess.check_output(["git", "show", "%s:%s" % (rev, p)], text=True)
    base, ours, theirs = get(base_rev), get("HEAD"), get(branch)
    if not theirs.startswith(base):
        # find the common prefix and report
        n = 0
        while n < min(len(base), len(theirs)) and base[n] == theirs[n]:
            n += 1
        print("%s: THEIRS modified BASE content at offset %d (line %d) — resolve by hand" % (p, n, base[:n].count("\n") + 1))
        sys.exit(1)
    open(p, "w", encoding="utf-8").write(ours + theirs[len(base):])
    print(p, "ours + %d appended chars" % (len(theirs) - len(base)))
