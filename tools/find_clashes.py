#!/usr/bin/env python3
"""list declaration names defined in more than one file of lean/Strengths (same namespace), to resolve merge clashes"""
import os, re, collections
ROOT = os.path.join(os.path.dirname(os.path.dirname(os.path.abspath(__file__))), "lean", "Strengths")
defs = collections.defaultdict(list)
for d, _, fs in os.walk(ROOT):
    for f in fs:
        if not f.endswith(".lean"):
            continue
        p = os.path.join(d, f)
        txt = open(p, encoding="utf-8").read()
        txt = re.sub(r"/-.*?-/", "", txt, flags=re.S)
        ns = []
        for line in txt.splitlines():
            m = re.match(r"\s*namespace\s+(\S+)", line)
            if m:
                ns.append(m.group(1)); continue
            m = re.match(r"\s*end\s+(\S+)\s*$", line)
            if m and ns and ns[-1] == m.group(1):
                ns.pop(); continue
            m = re.match(r"\s*(?:@\[[^\]]*\]\s*)?(?:private\s+|protected\s+|noncomputable\s+)*(def|theorem|structure|inductive|abbrev|lemma|class)\s+([^\s:({\[]+)", line)
            if m and not line.lstrip().startswith("private"):
                defs[".".join(ns + [m.group(2)])].append(os.path.relpath(p, ROOT))
for k, v in sorted(defs.items()):
    if len(set(v)) > 1:
        print(k, sorted(set(v)))
