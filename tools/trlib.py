#!/usr/bin/env python3
"""Translator: /repo sources -> lean/Strengths/Gen/*.lean  (DESIGN.md §5.1).

Purely syntactic (Python `ast`, a small C++ expression reader); evaluates no repository code.
Every generated item is found through an *anchor* (module + function/class name + AST pattern).
A lost anchor is recorded in Gen/_status.json as `gen:<anchor>` and the stale Lean file for that
group is replaced by one that does not define the lost names (so that dependants fail to build and
the obligation shows up as broken, never silently kept).

(helper library; the entry point is translate.py, the groups are in gen_groups.py)
"""
import ast, json, os, re, sys
from fractions import Fraction

HERE = os.path.dirname(os.path.abspath(__file__))
DEFAULT_OUT = os.path.join(os.path.dirname(HERE), "lean", "Strengths", "Gen")


class AnchorLost(Exception):
    pass


# ---------------------------------------------------------------------------------------------
# helpers
# ---------------------------------------------------------------------------------------------
def lean_str(s):
    out = '"'
    for ch in s:
        if ch == '"':
            out += '\\"'
        elif ch == '\\':
            out += '\\\\'
        elif ch == '\n':
            out += '\\n'
        elif ch == '\t':
            out += '\\t'
        else:
            out += ch
    return out + '"'


def lean_rat(fr):
    fr = Fraction(fr)
    if fr.denominator == 1:
        return "(%d : Rat)" % fr.numerator
    return "((%d : Rat) / %d)" % (fr.numerator, fr.denominator)


def lean_list(items, ty=None):
    s = "[" + ", ".join(items) + "]"
    return s


class PySrc:
    def __init__(self, repo, rel):
        self.path = os.path.join(repo, rel)
        self.rel = rel
        with open(self.path, encoding="utf-8") as f:
            self.text = f.read()
        self.tree = ast.parse(self.text)

    def seg(self, node):
        return ast.get_source_segment(self.text, node)

    def toplevel_assign(self, name):
        for n in self.tree.body:
            if isinstance(n, ast.Assign) and len(n.targets) == 1 and isinstance(n.targets[0], ast.Name) \
                    and n.targets[0].id == name:
                return n.value
        raise AnchorLost("%s:%s" % (self.rel, name))

    def func(self, name, cls=None):
        body = self.tree.body
        if cls is not None:
            for n in body:
                if isinstance(n, ast.ClassDef) and n.name == cls:
                    body = n.body
                    break
            else:
                raise AnchorLost("%s:class %s" % (self.rel, cls))
        for n in body:
            if isinstance(n, ast.FunctionDef) and n.name == name:
                return n
        raise AnchorLost("%s:%s%s" % (self.rel, (cls + ".") if cls else "", name))

    def nested_func(self, outer, name):
        for n in ast.walk(outer):
            if isinstance(n, ast.FunctionDef) and n.name == name and n is not outer:
                return n
        raise AnchorLost("%s:%s.%s" % (self.rel, outer.name, name))


def const_number(src, node, env):
    """exact rational value of a numeric literal expression (literals, * / of literals, calls of
    zero-argument functions listed in env)."""
    if isinstance(node, ast.Constant) and isinstance(node.value, (int, float)) and not isinstance(node.value, bool):
        txt = src.seg(node)
        return Fraction(txt.replace("_", ""))
    if isinstance(node, ast.UnaryOp) and isinstance(node.op, ast.USub):
        return -const_number(src, node.operand, env)
    if isinstance(node, ast.BinOp) and isinstance(node.op, (ast.Mult, ast.Div)):
        a = const_number(src, node.left, env)
        b = const_number(src, node.right, env)
        return a * b if isinstance(node.op, ast.Mult) else a / b
    if isinstance(node, ast.Call) and not node.args and not node.keywords:
        fn = node.func
        name = fn.attr if isinstance(fn, ast.Attribute) else getattr(fn, "id", None)
        if name in env:
            return env[name]
    raise AnchorLost("non-literal number: " + ast.dump(node)[:80])


def const_str(node):
    if isinstance(node, ast.Constant) and isinstance(node.value, str):
        return node.value
    raise AnchorLost("non-literal string: " + ast.dump(node)[:80])


def str_list(node):
    if isinstance(node, (ast.List, ast.Tuple)):
        return [const_str(e) for e in node.elts]
    raise AnchorLost("non-literal list: " + ast.dump(node)[:80])


# ---------------------------------------------------------------------------------------------
# expression translation (integer arithmetic / boolean predicates), Python AST -> Lean Int terms
# ---------------------------------------------------------------------------------------------
class ExprTr:
    """Translate a Python expression over integer-valued names into a Lean `Int`/`Bool` term.
    `names` maps python source text of a sub-expression (after normalisation) to a Lean identifier.
    Python `//` and `%` are floor division / modulo -> Lean `Int.fdiv` / `Int.fmod`;
    `int(a / b)` is truncation of the true quotient -> `Int.tdiv`."""

    def __init__(self, src, names):
        self.src = src
        self.names = names

    def key(self, node):
        return re.sub(r"\s+", "", self.src.seg(node))

    def tr(self, n):
        k = self.key(n)
        if k in self.names:
            return self.names[k]
        if isinstance(n, ast.Constant) and isinstance(n.value, bool):
            return "true" if n.value else "false"
        if isinstance(n, ast.Constant) and isinstance(n.value, int):
            return "(%d : Int)" % n.value
        if isinstance(n, ast.BinOp):
            a, b = self.tr(n.left), self.tr(n.right)
            if isinstance(n.op, ast.Add):
                return "(%s + %s)" % (a, b)
            if isinstance(n.op, ast.Sub):
                return "(%s - %s)" % (a, b)
            if isinstance(n.op, ast.Mult):
                return "(%s * %s)" % (a, b)
            if isinstance(n.op, ast.FloorDiv):
                return "(Int.fdiv %s %s)" % (a, b)
            if isinstance(n.op, ast.Mod):
                return "(Int.fmod %s %s)" % (a, b)
            raise AnchorLost("operator " + type(n.op).__name__)
        if isinstance(n, ast.UnaryOp):
            if isinstance(n.op, ast.USub):
                return "(- %s)" % self.tr(n.operand)
            if isinstance(n.op, ast.Not):
                return "(!%s)" % self.tr(n.operand)
        if isinstance(n, ast.Call) and isinstance(n.func, ast.Name) and n.func.id == "int" and len(n.args) == 1:
            a = n.args[0]
            if isinstance(a, ast.BinOp) and isinstance(a.op, ast.Div):
                return "(Int.tdiv %s %s)" % (self.tr(a.left), self.tr(a.right))
            return self.tr(a)
        if isinstance(n, ast.Call) and isinstance(n.func, ast.Name) and n.func.id == "abs" and len(n.args) == 1:
            return "(Int.ofNat (Int.natAbs %s))" % self.tr(n.args[0])
        if isinstance(n, ast.BoolOp):
            op = " && " if isinstance(n.op, ast.And) else " || "
            return "(" + op.join(self.tr(v) for v in n.values) + ")"
        if isinstance(n, ast.Compare):
            parts = []
            left = n.left
            for op, right in zip(n.ops, n.comparators):
                a, b = self.tr(left), self.tr(right)
                sym = {ast.Lt: "<", ast.LtE: "≤", ast.Gt: ">", ast.GtE: "≥", ast.Eq: "==", ast.NotEq: "!="}.get(type(op))
                if sym is None:
                    raise AnchorLost("comparison " + type(op).__name__)
                if sym in ("==", "!="):
                    parts.append("(%s %s %s)" % (a, sym, b))
                else:
                    parts.append("(decide (%s %s %s))" % (a, sym, b))
                left = right
            return parts[0] if len(parts) == 1 else "(" + " && ".join(parts) + ")"
        raise AnchorLost("expression not in the translated subset: " + self.src.seg(n)[:80])


# ---------------------------------------------------------------------------------------------
# C++ expression reader (for index formulas / conditions in the engine sources)
# ---------------------------------------------------------------------------------------------
_CPP_TOK = re.compile(r"\s*(?:(\d+)|([A-Za-z_][A-Za-z_0-9]*)|(&&|\|\||==|!=|<=|>=|[-+*/%()<>!\[\],.]))")


def cpp_tokens(s):
    pos, out = 0, []
    s = s.strip()
    while pos < len(s):
        m = _CPP_TOK.match(s, pos)
        if not m:
            raise AnchorLost("cannot tokenise C++: " + s[pos:pos + 30])
        out.append(m.group(1) or m.group(2) or m.group(3))
        pos = m.end()
    return out


class CppExpr:
    """Tiny precedence-climbing parser for integer/boolean C++ expressions over identifiers,
    `a[i]` subscripts and calls are NOT interpreted: identifiers are mapped through `names`.
    C++ `/` and `%` on ints truncate -> Lean `Int.tdiv` / `Int.tmod`."""
    PREC = {"||": 1, "&&": 2, "==": 3, "!=": 3, "<": 4, "<=": 4, ">": 4, ">=": 4, "+": 5, "-": 5, "*": 6, "/": 6, "%": 6}

    def __init__(self, text, names):
        self.toks = cpp_tokens(text)
        self.i = 0
        self.names = names

    def peek(self):
        return self.toks[self.i] if self.i < len(self.toks) else None

    def eat(self, t=None):
        tok = self.peek()
        if t is not None and tok != t:
            raise AnchorLost("C++ parse: expected %s got %s" % (t, tok))
        self.i += 1
        return tok

    def parse(self):
        e = self.expr(1)
        if self.peek() is not None:
            raise AnchorLost("C++ parse: trailing " + str(self.peek()))
        return e

    def expr(self, minp):
        lhs = self.unary()
        while True:
            op = self.peek()
            if op not in self.PREC or self.PREC[op] < minp:
                return lhs
            self.eat()
            rhs = self.expr(self.PREC[op] + 1)
            lhs = self.bin(op, lhs, rhs)

    def bin(self, op, a, b):
        if op == "+":
            return "(%s + %s)" % (a, b)
        if op == "-":
            return "(%s - %s)" % (a, b)
        if op == "*":
            return "(%s * %s)" % (a, b)
        if op == "/":
            return "(Int.tdiv %s %s)" % (a, b)
        if op == "%":
            return "(Int.tmod %s %s)" % (a, b)
        if op == "&&":
            return "(%s && %s)" % (a, b)
        if op == "||":
            return "(%s || %s)" % (a, b)
        if op in ("==", "!="):
            return "(%s %s %s)" % (a, op, b)
        sym = {"<": "<", "<=": "≤", ">": ">", ">=": "≥"}[op]
        return "(decide (%s %s %s))" % (a, sym, b)

    def unary(self):
        t = self.peek()
        if t == "-":
            self.eat()
            return "(- %s)" % self.unary()
        if t == "+":
            self.eat()
            return self.unary()
        if t == "!":
            self.eat()
            return "(!%s)" % self.unary()
        if t == "(":
            self.eat()
            e = self.expr(1)
            self.eat(")")
            return e
        if t is None:
            raise AnchorLost("C++ parse: unexpected end")
        self.eat()
        if t.isdigit():
            return "(%s : Int)" % t
        # identifier, maybe with [..] subscript (kept as text key)
        key = t
        while self.peek() == "[":
            depth = 0
            while True:
                tok = self.eat()
                key += tok
                if tok == "[":
                    depth += 1
                elif tok == "]":
                    depth -= 1
                    if depth == 0:
                        break
        if key in self.names:
            return self.names[key]
        raise AnchorLost("C++ identifier not mapped: " + key)


def cpp_function_body(text, signature_regex):
    """return the text between the braces of the first function whose header matches."""
    m = re.search(signature_regex, text)
    if not m:
        raise AnchorLost("C++ function " + signature_regex)
    i = text.index("{", m.end() - 1) if text[m.end() - 1] != "{" else m.end() - 1
    depth, j = 0, i
    while True:
        if text[j] == "{":
            depth += 1
        elif text[j] == "}":
            depth -= 1
            if depth == 0:
                return text[i + 1:j]
        j += 1


def strip_cpp_comments(text):
    text = re.sub(r"/\*.*?\*/", "", text, flags=re.S)
    return re.sub(r"//[^\n]*", "", text)



HEADER = "-- GENERATED by tools/translate.py from the repository sources. DO NOT EDIT.\nset_option linter.unusedVariables false\n"

GROUPS = []


def group(fn):
    GROUPS.append(fn)
    return fn
