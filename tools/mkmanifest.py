#!/usr/bin/env python3
"""writes MANIFEST.json from the table below (kept in one place so it stays valid)."""
import json, os
HERE = os.path.dirname(os.path.abspath(__file__))
ROOT = os.path.dirname(HERE)

CHECKS = {
    "C06": dict(
        text="Lean theorems: generated unit tables (regenerated from units.py on every run) have their SI meaning "
             "(whole-table kernel evaluation); conversion factor = ratio of SI values; identity, composition, inverse, "
             "dimension preservation, other-dimension rejection for every target form, for all valid systems and all "
             "integer dimension vectors. Tie: translator G1/G2 + correspondence (exhaustive per-base pairs x exponents, "
             "random conversions over five target forms, scalar/array) + SI oracle on the real code.",
        note="Lean kernel + {propext, Classical.choice, Quot.sound}; translator; correspondence harness; float rounding "
             "assumed within 1e-12 relative (checked on every sampled case, not proved).",
        technique="Lean 4 proof over translator-generated tables + differential correspondence",
        design="§6 C06"),
    "C14": dict(
        text="Lean theorems about the model of engine.cpp's initial-state processing as a function of the primitive draw "
             "stream, for all states / sizes / draw streams: mode selection (auto = redist for stochastic engines, none for "
             "Euler; script-accepted modes all processed, others rejected), species-major <-> cell-major layout round trip "
             "(generated index formulas), 'none' is the identity, redistribution yields non-negative integers with per-species "
             "total = floor of the real total and support inside the support of the input, Poisson-mode layout (k-th draw has "
             "the k-th positive amount as mean and is stored at that entry; zero stays zero); progress interval for the "
             "correction loop (termination w.p.1 is partial: no measure theory). Tie: translator group Stoch (statement lists "
             "of GenerateStochasticDistribution and of the dispatch pinned against the modelled snapshot, switch constant, "
             "Python accepted modes/default) + draw-replay correspondence on the rebuilt, draw-logging engine + independent "
             "oracle on sample 0 (sandboxed with time-out).",
        note="Lean kernel + {propext, Classical.choice, Quot.sound}; translator; shimmed <random>; distributions of the std "
             "primitives and mt19937 trusted; termination only as a progress-interval theorem.",
        technique="Lean 4 proof over a draw-stream model + draw-replay differential correspondence",
        design="§6 C14"),
}

ALL = ["C%02d" % i for i in range(1, 21)]


def main():
    checks = []
    for pid in ALL:
        if pid not in CHECKS:
            continue
        c = CHECKS[pid]
        checks.append({
            "property_id": pid,
            "quick_cmd": "./check %s --tier quick" % pid,
            "thorough_cmd": "./check %s --tier thorough" % pid,
            "evidence_file": "evidence/%s.json" % pid,
            "replay_cmd_template": "./check %s --replay {path}" % pid,
            "engine": "lean4-proof",
            "level_claimed": {"category": "proof", "text": c["text"], "design_ref": c["design"]},
            "level_note": c["note"],
            "technique": c["technique"],
        })
    man = {
        "version": 1,
        "setup_cmd": "./setup.sh",
        "hooks": {
            "guard": "THIBAULTFILLION_STRENGTHS_VERIF",
            "enable": "no source hooks: the checks rebuild the engine from /repo's working tree with a compile-time <random> shim (harness/shim) and import the Python package from /repo/src",
            "baseline_off_cmd": "cd /repo && env -u THIBAULTFILLION_STRENGTHS_VERIF /venv/bin/python -m pytest -ra -q -p no:cacheprovider --timeout=900 --continue-on-collection-errors",
            "source_commits": [],
            "add_only": True,
        },
        "engines": [{
            "name": "lean4-proof", "path": "lean/",
            "serves_properties": [c["property_id"] for c in checks],
            "kind_free_text": "Lean 4.33 model + theorems (lean/Strengths), translator tools/translate.py, JSON-lines correspondence driver lean/Driver.lean, harness/"}],
        "checks": checks,
        "notes": "Every check: regenerate Gen/*.lean from /repo -> lake build the property's theorems -> axiom audit -> correspondence "
                 "model vs implementation + property oracle on the real code -> decide (DESIGN.md §3).",
        "not_applicable": [{"property_id": p, "reason": "check not built yet at this commit (work in progress; planned per DESIGN.md §6)"}
                           for p in ALL if p not in CHECKS],
    }
    with open(os.path.join(ROOT, "MANIFEST.json"), "w") as f:
        json.dump(man, f, indent=1)
        f.write("\n")


if __name__ == "__main__":
    main()
