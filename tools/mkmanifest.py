#!/usr/bin/env python3
"""writes MANIFEST.json from the table below (kept in one place so it stays valid)."""
import json, os
HERE = os.path.dirname(os.path.abspath(__file__))
ROOT = os.path.dirname(HERE)

CHECKS = {
    "C05": dict(
        text="Lean theorems: the model of every UnitValue / UnitArray operator method (forward and reflected, _neg/_inv, **, "
             "comparisons, Python's dispatch) is a homomorphism onto exact arithmetic on SI values and dimension vectors for all "
             "expression trees, all valid unit systems and all integer dimension vectors; dimensionally meaningless operations are "
             "errors (the SI value of scalar ** is a hypothesis of the tree theorem, its dimension rule is proved); operator "
             "wiring regenerated from units.py. Tie: translator group UnitsOps + correspondence on random "
             "expression trees and an exhaustive operator x pairing table + per-node SI oracle on the real code.",
        note="Lean kernel + {propext, Classical.choice, Quot.sound}; translator; correspondence harness; float rounding within "
             "1e-9 of the magnitude of the added terms (checked on every case, not proved); real power of a positive number is a "
             "parameter with a stated contract.",
        technique="Lean 4 proof (structural induction over expression trees) + differential correspondence",
        design="§6 C05"),
    "C06": dict(
        text="Lean theorems: generated unit tables (regenerated from units.py on every run) have their SI meaning "
             "(whole-table kernel evaluation); conversion factor = ratio of SI values; identity, composition, inverse, "
             "dimension preservation, other-dimension rejection for every target form, for all valid systems and all "
             "integer dimension vectors. Tie: translator G1/G2 + correspondence (exhaustive per-base pairs x exponents, "
             "random conversions over five target forms, scalar/array) + SI oracle on the real code.",
        note="Lean kernel + {propext, Classical.choice, Quot.sound}; translator; correspondence harness; float rounding "
             "assumed within 1e-12 relative (checked on every sampled case, not proved).",
        technique="Lean 4 proof over translator-generated tables + differential correspondence",
        design="§6 C06"),
    "C12": dict(
        text="Lean theorems: key tables of every *_from_dict / *_to_dict / __init__ (regenerated from the sources on every run): "
             "emitted keys accepted and canonical, every constructor parameter written and wired back, alias groups disjoint, "
             "documented defaults and aliases; generic dictionary reader/writer model with round-trip, re-serialisation, alias "
             "interchangeability, omitted-key defaults and path theorems. Tie: translator group DictKeys + correspondence "
             "(model reader/writer vs real readers/writers) + field-by-field SI oracle on the real code through dictionaries, "
             "JSON text and save/load files (multi-file layouts, external arrays, absolute/relative paths).",
        note="Lean kernel + {propext, Classical.choice, Quot.sound}; translator; correspondence harness; json / numpy / float repr / "
             "file system trusted; quantity float token and equation text are tokens carrying their value (C18/C19).",
        technique="Lean 4 proof over translator-generated key tables + generic field-schema interpreter + differential correspondence",
        design="§6 C12"),
    "C18": dict(
        text="Lean theorems about the executable model of parse_units / parse_unitvalue / Units.__str__ / UnitValue.__str__ / "
             "Units.__eq__ (tables and text-pipeline constants regenerated from units.py on every run): print->parse round trip "
             "for all 1100 valid systems x all integer exponent vectors (own int printer/reader round trip), quantity round trip "
             "under the float(str(x))=x contract of the trusted primitives, grammar reading (text of any factor list is read back "
             "as exactly its symbols and signed exponents), dimension = sum of the symbols' dimensions, invariance under "
             "a/b <-> a.b-1 (whole result) and under factor order (dimension), base units named by every factor, u-spelling, one "
             "rejection theorem per class of the statement (unknown symbol, doubled / dangling separator, signed positive, "
             "fractional / misplaced exponent, embedded blank on the raw text, two units of one base kind, value not separated, "
             "non-numeric value, blank inside a quantity's units). PARTIAL: the SI-scale product formula and 'consistent => "
             "accepted' are not proved in Lean; they are checked exactly by the oracle. Tie: translator G1/G2 + UnitsText + "
             "correspondence (all 1-factor strings, all symbol pairs x both separators, random 3-factor strings, round trips, "
             "malformed families from the documentation's wrong examples) + grammar-denotation / must-raise oracle on the real code.",
        note="Lean kernel + {propext, Classical.choice, Quot.sound}; translator; correspondence harness; float()/str(float) of "
             "CPython trusted (bitwise round trip checked on every sampled double); non-ASCII digits and blanks beyond "
             "str.isspace are outside the model.",
        technique="Lean 4 proof over translator-generated tables + differential correspondence",
        design="§6 C18"),
}

ALL = ["C%02d" % i for i in range(1, 21)]


def main():
    checks = []
    for pid in ALL:
        if pid not in CHECKS:
            continue
        c = CHECKS[pid]
        checks.append({
            "property_id": pid,
            "quick_cmd": "./check %s --tier quick" % pid,
            "thorough_cmd": "./check %s --tier thorough" % pid,
            "evidence_file": "evidence/%s.json" % pid,
            "replay_cmd_template": "./check %s --replay {path}" % pid,
            "engine": "lean4-proof",
            "level_claimed": {"category": "proof", "text": c["text"], "design_ref": c["design"]},
            "level_note": c["note"],
            "technique": c["technique"],
        })
    man = {
        "version": 1,
        "setup_cmd": "./setup.sh",
        "hooks": {
            "guard": "THIBAULTFILLION_STRENGTHS_VERIF",
            "enable": "no source hooks: the checks rebuild the engine from /repo's working tree with a compile-time <random> shim (harness/shim) and import the Python package from /repo/src",
            "baseline_off_cmd": "cd /repo && env -u THIBAULTFILLION_STRENGTHS_VERIF /venv/bin/python -m pytest -ra -q -p no:cacheprovider --timeout=900 --continue-on-collection-errors",
            "source_commits": [],
            "add_only": True,
        },
        "engines": [{
            "name": "lean4-proof", "path": "lean/",
            "serves_properties": [c["property_id"] for c in checks],
            "kind_free_text": "Lean 4.33 model + theorems (lean/Strengths), translator tools/translate.py, JSON-lines correspondence driver lean/Driver.lean, harness/"}],
        "checks": checks,
        "notes": "Every check: regenerate Gen/*.lean from /repo -> lake build the property's theorems -> axiom audit -> correspondence "
                 "model vs implementation + property oracle on the real code -> decide (DESIGN.md §3).",
        "not_applicable": [{"property_id": p, "reason": "check not built yet at this commit (work in progress; planned per DESIGN.md §6)"}
                           for p in ALL if p not in CHECKS],
    }
    with open(os.path.join(ROOT, "MANIFEST.json"), "w") as f:
        json.dump(man, f, indent=1)
        f.write("\n")


if __name__ == "__main__":
    main()
