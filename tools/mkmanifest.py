#!/usr/bin/env python3
"""writes MANIFEST.json from the table below (kept in one place so it stays valid)."""
import json, os
HERE = os.path.dirname(os.path.abspath(__file__))
ROOT = os.path.dirname(HERE)

CHECKS = {
    "C01": dict(
        text="Lean theorems: Spec `rate` (closed formula of the statement); models of the Python kinetics functions, make_dxdtf, "
             "the librdengine marshalling and the Euler engine equal it on non-chemostated entries for all networks / spaces / "
             "states (grid statements carry named geometry hypotheses); dimension amount/time of every returned quantity; "
             "marshalling subscripts written = subscripts read; in ANY valid engine units system the derivative computed from the decoded "
             "marshalled arrays is the SI rate law expressed in those units, for every system the builders accept (C01Units, C01Build). "
             "Tie: translator KineticsPy/IndexPy/EngineCpp + correspondence "
             "(dstate, dxdtf, marshal, marshal_dxdt, pysys_dimwf, euler_step) + exact-rational oracle of the rate law on the real code.",
        note="Lean kernel + {propext, Classical.choice, Quot.sound}; translator; correspondence harness; float rounding assumed "
             "within 1e-9 of the magnitude of the added terms (checked on every sampled case, not proved).",
        technique="Lean 4 proof over hand-written models + translator-generated formulas + differential correspondence",
        design="§6 C01"),
    "C03": dict(
        text="Lean theorems: one step of the Euler, tau-leap (for every vector of Poisson counts) and Gillespie (for every draw) "
             "engine models leaves every flagged entry unchanged, hence by induction every state after any number of steps; the flag "
             "consulted for (species s, cell i) is chem[s*n+i] on the Python side and, after the species-major to cell-major "
             "transposition, on the C++ side (generated index formulas); flagged entries have derivative exactly 0 in the kinetics "
             "model and in make_dxdtf and are skipped by apply_reaction; rates and propensities of other entries do not depend on "
             "the flags. Tie: translator (chemostat test text, get_chemostat/get_state_index, subscript inventory) + correspondence "
             "(dstate, dxdtf, apply_reaction, euler/tau-leap/Gillespie step replay) + oracle on real trajectories of all engines.",
        note="Lean kernel + {propext, Classical.choice, Quot.sound}; translator; correspondence harness; flags assumed 0/1.",
        technique="Lean 4 proof over hand-written models + translator-generated formulas + differential correspondence",
        design="§6 C03"),
    "C04": dict(
        text="Lean theorems: model of units inheritance (inherit / default / explicit, script -> system -> network / space -> "
             "species / reaction / node / edge) and of process_unitvar_input; re-scaling the bare numbers of a level together with "
             "its declaration, or replacing them by explicit quantities, builds the same SI system (hence the same state, rate and "
             "trajectory); explicit quantities ignore the surrounding system; the rate law is homogeneous of dimension amount/time "
             "under any change of units (dim k = (3n-3,-1,1-n)); an Euler step commutes with unit conversion and so does a "
             "trajectory of any fixed number of steps; output units only scale. Tie: translator (Units tables, k dimensions, "
             "marshalling) + correspondence `build_system` on both members of random pairs (d, rescale σ d) + pairwise oracle on "
             "the real code (state, chemostats, rate, Euler trajectory in SI).",
        note="Lean kernel + {propext, Classical.choice, Quot.sound}; translator; correspondence harness; float rounding assumed "
             "within 1e-9 (checked on every sampled pair, not proved).",
        technique="Lean 4 proof over hand-written models + translator-generated tables + differential / metamorphic correspondence",
        design="§6 C04"),
    "C05": dict(
        text="Lean theorems: the model of every UnitValue / UnitArray operator method (forward and reflected, _neg/_inv, **, "
             "comparisons, Python's dispatch) is a homomorphism onto exact arithmetic on SI values and dimension vectors for all "
             "expression trees, all valid unit systems and all integer dimension vectors; dimensionally meaningless operations are "
             "errors; ** : unconditional for integer exponents, for non-integer exponents under the stated (satisfiable) contract "
             "of the trusted float power; comparisons for all pairings incl. arrays; operator "
             "wiring regenerated from units.py. Tie: translator group UnitsOps + correspondence on random "
             "expression trees and an exhaustive operator x pairing table + per-node SI oracle on the real code.",
        note="Lean kernel + {propext, Classical.choice, Quot.sound}; translator; correspondence harness; float rounding within "
             "1e-9 of the magnitude of the added terms (checked on every case, not proved); real power of a positive number is a "
             "parameter with a stated contract.",
        technique="Lean 4 proof (structural induction over expression trees) + differential correspondence",
        design="§6 C05"),
    "C06": dict(
        text="Lean theorems: generated unit tables (regenerated from units.py on every run) have their SI meaning "
             "(whole-table kernel evaluation); conversion factor = ratio of SI values; identity, composition, inverse, "
             "dimension preservation, other-dimension rejection for every target form, for all valid systems and all "
             "integer dimension vectors. Tie: translator G1/G2 + correspondence (exhaustive per-base pairs x exponents, "
             "random conversions over five target forms, scalar/array) + SI oracle on the real code.",
        note="Lean kernel + {propext, Classical.choice, Quot.sound}; translator; correspondence harness; float rounding "
             "assumed within 1e-12 relative (checked on every sampled case, not proved).",
        technique="Lean 4 proof over translator-generated tables + differential correspondence",
        design="§6 C06"),
    "C12": dict(
        text="Lean theorems: key tables of every *_from_dict / *_to_dict / __init__ (regenerated from the sources on every run): "
             "emitted keys accepted and canonical, every constructor parameter written and wired back, alias groups disjoint, "
             "documented defaults and aliases; generic dictionary reader/writer model with round-trip, re-serialisation, alias "
             "interchangeability, omitted-key defaults and path theorems. Tie: translator group DictKeys + correspondence "
             "(model reader/writer vs real readers/writers) + field-by-field SI oracle on the real code through dictionaries, "
             "JSON text and save/load files (multi-file layouts, external arrays, absolute/relative paths).",
        note="Lean kernel + {propext, Classical.choice, Quot.sound}; translator; correspondence harness; json / numpy / float repr / "
             "file system trusted; quantity float token and equation text are tokens carrying their value (C18/C19).",
        technique="Lean 4 proof over translator-generated key tables + generic field-schema interpreter + differential correspondence",
        design="§6 C12"),
    "C18": dict(
        text="Lean theorems about the executable model of parse_units / parse_unitvalue / Units.__str__ / UnitValue.__str__ / "
             "Units.__eq__ (tables and text-pipeline constants regenerated from units.py on every run): print->parse round trip "
             "for all 1100 valid systems x all integer exponent vectors (own int printer/reader round trip), quantity round trip "
             "under the float(str(x))=x contract of the trusted primitives, grammar semantics in full (text of any factor list is "
             "read back as exactly its symbols and signed exponents; accepted iff no two factors name different base units of one "
             "kind, else raises; dimension = sum of the symbols' dimensions and SI scale = product of the symbols' SI values "
             "(C06 SI spec) to the signed exponents; whole result invariant under a/b <-> a.b-1 and under factor order), "
             "u-spelling, one rejection theorem per class of the statement (unknown symbol, doubled / dangling separator, signed "
             "positive, fractional / misplaced / exotic exponent (strict ASCII -?[0-9]+ reader: underscores, non-ASCII digits, inner "
             "or dangling signs), embedded blank on the raw text, two units of one base kind, value not "
             "separated, non-numeric value, blank inside a quantity's units — all on the raw text; unknown symbol and two units "
             "on the factor blocks after the u->µ chain). Tie: translator G1/G2 + UnitsText + "
             "correspondence (all 1-factor strings, all symbol pairs x both separators, random 3-factor strings, round trips, "
             "malformed families from the documentation's wrong examples) + grammar-denotation / must-raise oracle on the real code.",
        note="Lean kernel + {propext, Classical.choice, Quot.sound}; translator; correspondence harness; float()/str(float) of "
             "CPython trusted (bitwise round trip checked on every sampled double); non-ASCII digits and blanks beyond "
             "str.isspace are outside the model.",
        technique="Lean 4 proof over translator-generated tables + differential correspondence",
        design="§6 C18"),
    "C13": dict(
        text="Lean theorems: species-major layout (generated stateIndex = s*n+c, injective, in range), cell = z*w*h+y*w+x; the "
             "generated default-generation constants (fallback key 'default', default density 0, default flag 0, state in the "
             "network's units); entry (s,i) of the default state is the entry computed for species s and cell i and its SI value is "
             "SI(density in env(i)) x SI(volume(i)) with dimension amount; default chemostat entry; get/set as an abstract map keyed by "
             "the entry index incl. unit conversion of the written value (SI preserved), rejection of invalid positions/species without "
             "writing; regeneration reflects the current species; the constructor defaults of the space classes are pinned (cell volume = the number 1, "
             "i.e. one cubic unit of the space's own units system; 1x1x1, environment 0, reflecting; node volume 1). Tie: translator IndexPy/SystemPy/GeomPy + correspondence of whole "
             "construct+call sequences (grid and graph spaces, all naming forms, units systems at every level) + SI oracle on the real code.",
        note="Lean kernel + {propext, Classical.choice, Quot.sound}; translator; correspondence harness; floats within 1e-9 relative; "
             "unit strings parsed by the package itself (C18).",
        technique="Lean 4 proof over translator-generated formulas + differential correspondence",
        design="§6 C13"),
    "C15": dict(
        text="Lean theorems for all w,h,d>=1 and all 8 boundary settings: index<->coordinates bijection (index = z*w*h+y*w+x), rejection "
             "iff the position names no cell (three position forms), are_neighbors symmetric and equal to face adjacency of distinct "
             "cells per reflecting/periodic axis, engine neighbour table = per-axis step, involutive through opposed_direction, every entry "
             "a face neighbour; generated rules of get_neighbors / kinetics loop / grid_to_graph tied to the face rules; grid_to_graph "
             "geometry (S=a^2, d=a, volumes, environments); get_edge symmetric. Tie: translator IndexPy/GeomPy/EngineCpp + exhaustive "
             "correspondence over all small grids (every cell, pair, position) incl. the real engine's neighbour set observed through "
             "Euler steps and the kinetics functions' through derivatives + oracle; grid vs grid_to_graph trajectories / rate law on the real code.",
        note="Lean kernel + {propext, Classical.choice, Quot.sound}; translator; correspondence harness. get_neighbors_iff, "
             "kinetics_enum_iff, engine_nbr_iff + engine_nbr_count (multiplicities on periodic axes of length 1 and 2) and "
             "grid_to_graph_adjacency (soundness, completeness, multiplicity = faceCount) are proved for all sizes against the "
             "independent Spec faceAdj; open: graph_rate_eq_grid_rate needs C01's engine model (checked on the real code).",
        technique="Lean 4 proof over translator-generated formulas + exhaustive differential correspondence",
        design="§6 C15"),
    "C19": dict(
        text="Lean theorems about a line-by-line model of Reaction._fromstring / to_string / ssto / psto / dsto / order / "
             "k*_units_dimensions / process_unitvar_input / split / equilibrium_constant / RDNetwork._assert_validity: "
             "parsing a rendered equation (any spacing, any labels allowed by the rules) gives the written coefficients with "
             "repeats summed; dsto = psto - ssto; order = sum of coefficients; print-parse round trip; k dimension = "
             "(3n-3, -1, 1-n); bare numbers get it, other dimensions are rejected; split; K = kf/kr in SI; network "
             "refusals as an iff. Tie: translator group Network (formulas + source constants) + correspondence "
             "(op reaction / network) + AST oracle on the real code.",
        note="Lean kernel + {propext, Classical.choice, Quot.sound}; translator; correspondence harness; CPython "
             "str.split/strip/int/str(int) modelled explicitly (ASCII blanks and digits) and correspondence-tested.",
        technique="Lean 4 proof over a hand-written parser model + translator-generated formulas + differential correspondence",
        design="§6 C19"),
    "C20": dict(
        text="Lean theorems, one per class of invalid input of the statement, about a model of the package's checks over "
             "tables regenerated from the sources (alias lists and mandatory keys of every *_from_dict, accepted enumerations "
             "in Python and in the C++ CompareStr chains, grid size / environment map / index range tests, the dimension "
             "each quantity field demands, unit symbol lists, coarse-graining map rules): op input = error <-> Invalid input "
             "(or Invalid -> error), and no_cross_entry from index injectivity. Tie: translator groups Validation / IndexPy / "
             "Network / Units + correspondence (op validate) + oracle on the real code: valid random nested models x one "
             "injected fault x every level; exhaustive out-of-range index / triple sweep with state compared before/after.",
        note="Lean kernel + {propext, Classical.choice, Quot.sound}; translator; correspondence harness; the whole-build "
             "outcome is attributed to the single injected fault (the unfaulted model is first accepted by the real code).",
        technique="Lean 4 proof over translator-generated validation tables + fault-injection differential correspondence",
        design="§6 C20"),
    "C16": dict(
        text="Lean theorems on the hand-written model of coarsegrain.py (validity tests, aggregation / spreading subscripts and "
             "statement inventory regenerated from the source): documented validity rules <-> accepted; volume, species totals, "
             "environments, chemostat flags of every group; coarse edge <-> groups sharing a face, surface = shared faces x h^2, "
             "distance^2 = centroid distance^2, no self-loops / duplicates; un-coarse-graining spreads evenly, preserves group "
             "totals, zero on dropped cells; identity map = grid_to_graph (all proved for all inputs). Tie: translator "
             "CoarsePy/IndexPy + correspondence (ops coarsegrain, cg_check, uncoarsegrain) + brute-force aggregation oracle on "
             "the real code (face-sharing pairs, shared-face counts, centroid distances from cell coordinates), identity map "
             "versus plain simulation on the three rebuilt engines.",
        note="Lean kernel + {propext, Classical.choice, Quot.sound}; translator; cube / square roots compared to the exact model "
             "within 1e-9 (distances squared); valid_iff assumes environment indices != -2 (the code's unset marker), cg_chem_any "
             "assumes flags >= 0; identity map on the stochastic engines: identical for equal draws (same seed only when "
             "nothing diffuses, the grid and graph engines enumerate neighbours in different orders).",
        technique="Lean 4 proof over translator-generated formulas + differential correspondence",
        design="§6 C16"),
    "C17": dict(
        text="Lean theorems: point accessor = flat index sample*nspecies*ncells + species*ncells + cell (generated formula); "
             "per-sample state, per-cell trajectory, whole-state block and merged trajectory of the model (numpy C-order reshape as "
             "stated model) read the same element / block / sum, with the data's units; species by label / index / object and "
             "cells by index / coordinates resolve to the same entry; the three sample-index lookups (guards, loop tests and "
             "returned indices regenerated from rdoutput.py) meet their declarative specs for every non-decreasing time list "
             "and every query, repeated times included (None exactly when no such sample exists; ties to the earlier index; "
             "first sample not before t), "
             "and comparisons in any time unit are comparisons of SI values. Tie: translator IndexPy/TrajPy + correspondence "
             "(op traj on directly constructed and simulated trajectories, grid and graph) + brute-force oracle on the real code.",
        note="Lean kernel + {propext, Classical.choice, Quot.sound}; translator; numpy reshape/negative-index semantics are a "
             "stated model.",
        technique="Lean 4 proof over translator-generated formulas + differential correspondence",
        design="§6 C17"),
    "C08": dict(
        text="Lean theorems over the sampler / lifecycle model: iterate_n(a+b) = iterate_n(a); iterate_n(b), run = iterate_n(k) for the k "
             "the wall clock allows, completion absorbs every drive call, any two driving schedules that reach completion give the same "
             "records / clock / state, set-up from any non-crashed process state observes the same (clean slate), every data member is "
             "assigned in Init (generated inventory), the generator is seeded once in Init and advanced only by draws (generated inventory "
             "of every statement mentioning rng), an algorithm that ignores a state component records the same trajectory whatever it is "
             "(Euler over the concrete eulerStep), the stored script keeps the drawn seed. Harness: bitwise comparison of real "
             "trajectories: fresh-process reference vs random schedules (iterate / iterate_n / run 0|1 ms), reused and fresh engine objects "
             "after earlier simulations of other kinds, simulate_script, re-run of trajectory.script (also seed None), other seed (Euler).",
        note="Lean kernel + {propext, Classical.choice, Quot.sound}; translator; harness; bit-identity of the compiled arithmetic and "
             "of mt19937 streams is observed (sha1 of the raw arrays), not proved.",
        technique="Lean 4 proof over an executable model tied to translator-generated inventories + bitwise differential runs in sandboxed processes",
        design="§6 C08"),
    "C09": dict(
        text="Lean theorems over an executable model of the native sampler (Sample, SampleOnTSample, SampleOnInterval, SamplingStep, "
             "CheckTMax, Init's t=0 step, the Iterate skeleton of the six algorithms; abstract algorithm step, exact clock): shape and "
             "order of the exported buffer, strictly increasing policy times, non-decreasing times with explicit sample() calls, t=0 record = "
             "initial state, a step is recorded iff a requested time / a multiple of the interval lies in (previous step, this step] "
             "(sorted requests), one record per step, every step / none, fixed-step clock n*dt with completion exactly at the first step "
             "beyond t_max, default t_max. Tie: generated loop conditions, bodies, dispatch, Iterate statement lists, Init assignments, "
             "export index formulas, policy tables (theorems of the form Gen.item = literal) + correspondence `lifecycle` (real engine "
             "driven step by step in a sandboxed child, model replays the calls on the observed clock) + contract oracle on the real "
             "t/data.",
        note="Lean kernel + {propext, Classical.choice, Quot.sound}; translator; correspondence harness; float clock: exact for dyadic "
             "dt, else 1e-9 relative and +-1 step as the statement allows; the algorithm step itself is abstract here (C01/C07 cover it).",
        technique="Lean 4 proof over an executable model tied to translator-generated source text + differential correspondence",
        design="§6 C09"),
    "C10": dict(
        text="Lean theorems over an executable model of the engine lifecycle (native globals with null/live/dangling pointers, "
             "engineexport_* entry points, LibRDEngine wrapper attributes, one or two engine objects on one library): no call faults "
             "on lifecycle-respecting single-object histories, iterate_n/run are finite compositions of Iterate, fixed-step completion after "
             "floor(t_max/dt)+1 steps (= ceil +-1), completion absorbing for every drive call, status refers to the current set-up, output "
             "fetch is pure, finalize idempotent, set-up from any non-crashed world observes the same (clean slate), independence for "
             "non-overlapping live intervals; the full independence statement is proved FALSE by a concrete history (known finding), "
             "as are use-after-finalize and iterate_n(0)-after-completion (reported findings). Tie: generated entry-point bodies, "
             "globals, wrapper statements + correspondence `lifecycle` on call histories run in sandboxed children + reference state "
             "machine oracle (returns in time, completion step, status, fresh-process trajectories).",
        note="Lean kernel + {propext, Classical.choice, Quot.sound}; translator; correspondence harness; termination of the native loops "
             "inside one step and of the redistribution loop is observed (time-outs), not proved (C14 owns the loop).",
        technique="Lean 4 proof over an executable state-machine model tied to translator-generated source text + differential correspondence in sandboxed processes",
        design="§6 C10"),
    "C11": dict(
        text="PARTIAL BY NATURE. Lean theorems on the engine model: flat2/flat3 index bounds, the loop condition of SampleOnTSample "
             "never reads t_samples out of range given the regenerated conjunct order, the diffusion event selected by Gillespie and "
             "every tau-leap Poisson call belong to a slot with a neighbour, std::poisson_distribution is only constructed with a positive "
             "mean (regenerated guards, count of constructions), the allocation state machine never double-frees or uses a freed object "
             "(C10's invariant), every vector[index] of the engine sources (162 occurrences, regenerated) has a registered bounded "
             "index form, and — assembled — engine_never_faults: on a checked-access interpreter of Init (MkVec, transposition, "
             "BuildMeshNeighbors, SetNeighbors, Build_mesh_kr/kd), the six Iterate()s, the sampler, the exports and the lifecycle, "
             "with every subscript through the generated index formulas and the Poisson precondition, no call fails for any valid "
             "arguments, any draws and any call history (grid and graph). Oracle = the property's observation point: the working tree's engine compiled with -D_GLIBCXX_ASSERTIONS "
             "and with ASan+UBSan, driven through the Python API over degenerate shapes, all policies / modes, coarse steps, repeated "
             "output fetches, double finalize, calls on a released engine; plain and hardened builds must agree bitwise.",
        note="Lean kernel + {propext, Classical.choice, Quot.sound}; translator; the compiled program's memory behaviour is observed on "
             "sampled inputs with sanitizers (no uninitialised-read detection), not proved; int overflow excluded by the size assumption.",
        technique="Lean 4 proof of index/guard logic over an executable model + subscript registry from the translator + sanitizer-instrumented differential runs",
        design="§6 C11"),
    "C02": dict(
        text="Lean theorems, for all networks / topologies / states / draws / count vectors / time steps and any number of "
             "steps, for every rational (hence every integer) vector c in the left null space of the stoichiometric matrix "
             "with no chemostated entry in its support: a reaction firing and a diffusion jump leave total c unchanged; one "
             "Gillespie Iterate conserves (every pair of draws); one tau-leap Apply_nevt conserves for EVERY count vector; "
             "lifted by induction to runs; Euler: exact identity over Q, unconditional for every valid grid (all sizes and "
             "boundary settings: half-edges paired by the opposed direction, sum of an antisymmetric flux via an involution, "
             "neighbour involution from the generated tables) and for every graph (induction over the edge list, parallel "
             "edges and self-loops included); species in no reaction / diffusion-only are special cases. Tie: statement lists of all "
             "apply / derivative functions pinned against the modelled snapshot + replay correspondence of recorded steps of "
             "all three engines + oracle: exact integer left null space, totals on every recorded sample of real trajectories.",
        note="Exact over Q; float drift of the Euler engine bounded by 1e-9 relative per step is checked on every recorded "
             "step, not proved. The model's reading of the C++ is tied by the pinned statement lists + step replay.",
        technique="Lean 4 proof (induction + Finset involution) + differential correspondence + null-space oracle",
        design="§6 C02"),
    "C07": dict(
        text="Lean theorems about the engine model (one model for grid and graph algorithms), for all networks, topologies, "
             "states and draws: reaction propensity = k_env * V^(1-n) * prod_s x_s(x_s-1)...(x_s-nu_s+1) when enough reactants, "
             "else 0 (= nu! * C(x,nu) for integer amounts); positive iff constant non-zero and enough reactants; diffusion "
             "propensity = amount x rate-law constant (grid D/h^2, graph D*S/(V*d), zero interface diffusivity => 0); the "
             "engine's two-level cumulative search equals one flat scan over the channel list; channel k is selected exactly on "
             "an interval of length a_k (so with probability a_k/a0 under a uniform draw) and has a_k>0; every Gillespie step "
             "applies exactly one legal event (effect masked by chemostats, propensity not), keeps the state a non-negative "
             "integer state, advances time by L/a0>0; by induction all recorded states/times of any trajectory; dt=log(1/u)/a0 "
             "is the inverse CDF of Exp(a0) (Mathlib real analysis); the selection intervals partition [0,a0) and their "
             "lengths sum to a0; tau-leap Poisson means are propensity*dt in call order, mean<=0 draws nothing; the tau-leap "
             "channel list is the Gillespie list minus zero-propensity wall slots (same propensities, same a0); tau-leap "
             "Apply_nevt in closed form: x + [not chemostated]*(sum sto*nr - leaving + arriving) for every count vector "
             "(flagged entries fixed as a corollary). Tie: statement lists of all step functions pinned against the modelled snapshot "
             "(translator group Stoch) + per-step draw-replay correspondence + independent CME oracle on every recorded step.",
        note="Distributions of std::uniform_real_distribution / poisson_distribution / mt19937 are trusted (partial by design); "
             "no statistical test; float edge cases of the selection (margin < 1e-9 a0) skipped and counted.",
        technique="Lean 4 proof over a draw-stream model + draw-replay differential correspondence",
        design="§6 C07"),
    "C14": dict(
        text="Lean theorems about the model of engine.cpp's initial-state processing as a function of the primitive draw "
             "stream, for all states / sizes / draw streams: mode selection (auto = redist for stochastic engines, none for "
             "Euler; script-accepted modes all processed, others rejected), species-major <-> cell-major layout round trip "
             "(generated index formulas), 'none' is the identity, redistribution yields non-negative integers with per-species "
             "total = floor of the real total and support inside the support of the input, Poisson-mode layout (k-th draw has "
             "the k-th positive amount as mean and is stored at that entry; zero stays zero); progress interval for the "
             "correction loop and, from it, termination of the whole redistribution on every FAIR stream of uniform draws "
             "(every sub-interval of [0,1) hit infinitely often; such streams exist) - the step 'an i.i.d. uniform stream is "
             "fair almost surely' is trusted measure theory. Tie: translator group Stoch (alpha-normalised statement "
             "lists of GenerateStochasticDistribution and of the dispatch pinned against the modelled snapshot, switch constant, "
             "Python accepted modes/default) + draw-replay correspondence on the rebuilt, draw-logging engine + independent "
             "oracle on sample 0 (sandboxed with time-out).",
        note="Lean kernel + {propext, Classical.choice, Quot.sound}; translator; shimmed <random>; distributions of the std "
             "primitives and mt19937 trusted; termination proved on fair streams, almost-sure fairness of i.i.d. draws trusted.",
        technique="Lean 4 proof over a draw-stream model + draw-replay differential correspondence",
        design="§6 C14"),
}

ALL = ["C%02d" % i for i in range(1, 21)]


def main():
    checks = []
    for pid in ALL:
        if pid not in CHECKS:
            continue
        c = CHECKS[pid]
        checks.append({
            "property_id": pid,
            "quick_cmd": "./check %s --tier quick" % pid,
            "thorough_cmd": "./check %s --tier thorough" % pid,
            "evidence_file": "evidence/%s.json" % pid,
            "replay_cmd_template": "./check %s --replay {path}" % pid,
            "engine": "lean4-proof",
            "level_claimed": {"category": "proof", "text": c["text"], "design_ref": c["design"]},
            "level_note": c["note"],
            "technique": c["technique"],
        })
    man = {
        "version": 1,
        "setup_cmd": "./setup.sh",
        "hooks": {
            "guard": "THIBAULTFILLION_STRENGTHS_VERIF",
            "enable": "no source hooks: the checks rebuild the engine from /repo's working tree with a compile-time <random> shim (harness/shim) and import the Python package from /repo/src",
            "baseline_off_cmd": "cd /repo && env -u THIBAULTFILLION_STRENGTHS_VERIF /venv/bin/python -m pytest -ra -q -p no:cacheprovider --timeout=900 --continue-on-collection-errors",
            "source_commits": [],
            "add_only": True,
        },
        "engines": [{
            "name": "lean4-proof", "path": "lean/",
            "serves_properties": [c["property_id"] for c in checks],
            "kind_free_text": "Lean 4.33 model + theorems (lean/Strengths), translator tools/translate.py, JSON-lines correspondence driver lean/Driver.lean, harness/"}],
        "checks": checks,
        "notes": "Every check: regenerate Gen/*.lean from /repo -> lake build the property's theorems -> axiom audit -> correspondence "
                 "model vs implementation + property oracle on the real code -> decide (DESIGN.md §3).",
        "not_applicable": [{"property_id": p, "reason": "check not built yet at this commit (work in progress; planned per DESIGN.md §6)"}
                           for p in ALL if p not in CHECKS],
    }
    with open(os.path.join(ROOT, "MANIFEST.json"), "w") as f:
        json.dump(man, f, indent=1)
        f.write("\n")


if __name__ == "__main__":
    main()
