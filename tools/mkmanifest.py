#!/usr/bin/env python3
"""writes MANIFEST.json from the table below (kept in one place so it stays valid)."""
import json, os
HERE = os.path.dirname(os.path.abspath(__file__))
ROOT = os.path.dirname(HERE)

CHECKS = {
    "C01": dict(
        text="Lean theorems: Spec `rate` (closed formula of the statement); models of the Python kinetics functions, make_dxdtf, "
             "the librdengine marshalling and the Euler engine equal it on non-chemostated entries for all networks / spaces / "
             "states (grid statements carry named geometry hypotheses); dimension amount/time of every returned quantity; "
             "marshalling subscripts written = subscripts read. Tie: translator KineticsPy/IndexPy/EngineCpp + correspondence "
             "(dstate, dxdtf, marshal, euler_step) + exact-rational oracle of the rate law on the real code.",
        note="Lean kernel + {propext, Classical.choice, Quot.sound}; translator; correspondence harness; float rounding assumed "
             "within 1e-9 of the magnitude of the added terms (checked on every sampled case, not proved).",
        technique="Lean 4 proof over hand-written models + translator-generated formulas + differential correspondence",
        design="§6 C01"),
    "C03": dict(
        text="Lean theorems: one step of the Euler, tau-leap (for every vector of Poisson counts) and Gillespie (for every draw) "
             "engine models leaves every flagged entry unchanged, hence by induction every state after any number of steps; the flag "
             "consulted for (species s, cell i) is chem[s*n+i] on the Python side and, after the species-major to cell-major "
             "transposition, on the C++ side (generated index formulas); flagged entries have derivative exactly 0 in the kinetics "
             "model and in make_dxdtf and are skipped by apply_reaction; rates and propensities of other entries do not depend on "
             "the flags. Tie: translator (chemostat test text, get_chemostat/get_state_index, subscript inventory) + correspondence "
             "(dstate, dxdtf, apply_reaction, euler/tau-leap/Gillespie step replay) + oracle on real trajectories of all engines.",
        note="Lean kernel + {propext, Classical.choice, Quot.sound}; translator; correspondence harness; flags assumed 0/1.",
        technique="Lean 4 proof over hand-written models + translator-generated formulas + differential correspondence",
        design="§6 C03"),
    "C04": dict(
        text="Lean theorems: model of units inheritance (inherit / default / explicit, script -> system -> network / space -> "
             "species / reaction / node / edge) and of process_unitvar_input; re-scaling the bare numbers of a level together with "
             "its declaration, or replacing them by explicit quantities, builds the same SI system (hence the same state, rate and "
             "trajectory); explicit quantities ignore the surrounding system; the rate law is homogeneous of dimension amount/time "
             "under any change of units (dim k = (3n-3,-1,1-n)); an Euler step commutes with unit conversion and so does a "
             "trajectory of any fixed number of steps; output units only scale. Tie: translator (Units tables, k dimensions, "
             "marshalling) + correspondence `build_system` on both members of random pairs (d, rescale σ d) + pairwise oracle on "
             "the real code (state, chemostats, rate, Euler trajectory in SI).",
        note="Lean kernel + {propext, Classical.choice, Quot.sound}; translator; correspondence harness; float rounding assumed "
             "within 1e-9 (checked on every sampled pair, not proved).",
        technique="Lean 4 proof over hand-written models + translator-generated tables + differential / metamorphic correspondence",
        design="§6 C04"),
    "C05": dict(
        text="Lean theorems: the model of every UnitValue / UnitArray operator method (forward and reflected, _neg/_inv, **, "
             "comparisons, Python's dispatch) is a homomorphism onto exact arithmetic on SI values and dimension vectors for all "
             "expression trees, all valid unit systems and all integer dimension vectors; dimensionally meaningless operations are "
             "errors (the SI value of scalar ** is a hypothesis of the tree theorem, its dimension rule is proved); operator "
             "wiring regenerated from units.py. Tie: translator group UnitsOps + correspondence on random "
             "expression trees and an exhaustive operator x pairing table + per-node SI oracle on the real code.",
        note="Lean kernel + {propext, Classical.choice, Quot.sound}; translator; correspondence harness; float rounding within "
             "1e-9 of the magnitude of the added terms (checked on every case, not proved); real power of a positive number is a "
             "parameter with a stated contract.",
        technique="Lean 4 proof (structural induction over expression trees) + differential correspondence",
        design="§6 C05"),
    "C06": dict(
        text="Lean theorems: generated unit tables (regenerated from units.py on every run) have their SI meaning "
             "(whole-table kernel evaluation); conversion factor = ratio of SI values; identity, composition, inverse, "
             "dimension preservation, other-dimension rejection for every target form, for all valid systems and all "
             "integer dimension vectors. Tie: translator G1/G2 + correspondence (exhaustive per-base pairs x exponents, "
             "random conversions over five target forms, scalar/array) + SI oracle on the real code.",
        note="Lean kernel + {propext, Classical.choice, Quot.sound}; translator; correspondence harness; float rounding "
             "assumed within 1e-12 relative (checked on every sampled case, not proved).",
        technique="Lean 4 proof over translator-generated tables + differential correspondence",
        design="§6 C06"),
    "C18": dict(
        text="Lean theorems about the executable model of parse_units / parse_unitvalue / Units.__str__ / UnitValue.__str__ / "
             "Units.__eq__ (tables and text-pipeline constants regenerated from units.py on every run): print->parse round trip "
             "for all 1100 valid systems x all integer exponent vectors (own int printer/reader round trip), quantity round trip "
             "under the float(str(x))=x contract of the trusted primitives, grammar reading (text of any factor list is read back "
             "as exactly its symbols and signed exponents), dimension = sum of the symbols' dimensions, invariance under "
             "a/b <-> a.b-1 (whole result) and under factor order (dimension), base units named by every factor, u-spelling, one "
             "rejection theorem per class of the statement (unknown symbol, doubled / dangling separator, signed positive, "
             "fractional / misplaced exponent, embedded blank on the raw text, two units of one base kind, value not separated, "
             "non-numeric value, blank inside a quantity's units). PARTIAL: the SI-scale product formula and 'consistent => "
             "accepted' are not proved in Lean; they are checked exactly by the oracle. Tie: translator G1/G2 + UnitsText + "
             "correspondence (all 1-factor strings, all symbol pairs x both separators, random 3-factor strings, round trips, "
             "malformed families from the documentation's wrong examples) + grammar-denotation / must-raise oracle on the real code.",
        note="Lean kernel + {propext, Classical.choice, Quot.sound}; translator; correspondence harness; float()/str(float) of "
             "CPython trusted (bitwise round trip checked on every sampled double); non-ASCII digits and blanks beyond "
             "str.isspace are outside the model.",
        technique="Lean 4 proof over translator-generated tables + differential correspondence",
        design="§6 C18"),
    "C13": dict(
        text="Lean theorems: species-major layout (generated stateIndex = s*n+c, injective, in range), cell = z*w*h+y*w+x; the "
             "generated default-generation constants (fallback key 'default', default density 0, default flag 0, state in the "
             "network's units); entry (s,i) of the default state is the entry computed for species s and cell i and its SI value is "
             "SI(density in env(i)) x SI(volume(i)) with dimension amount; default chemostat entry; get/set as an abstract map keyed by "
             "the entry index incl. unit conversion of the written value (SI preserved), rejection of invalid positions/species without "
             "writing; regeneration reflects the current species. Tie: translator IndexPy/SystemPy/GeomPy + correspondence of whole "
             "construct+call sequences (grid and graph spaces, all naming forms, units systems at every level) + SI oracle on the real code.",
        note="Lean kernel + {propext, Classical.choice, Quot.sound}; translator; correspondence harness; floats within 1e-9 relative; "
             "unit strings parsed by the package itself (C18).",
        technique="Lean 4 proof over translator-generated formulas + differential correspondence",
        design="§6 C13"),
    "C15": dict(
        text="Lean theorems for all w,h,d>=1 and all 8 boundary settings: index<->coordinates bijection (index = z*w*h+y*w+x), rejection "
             "iff the position names no cell (three position forms), are_neighbors symmetric and equal to face adjacency of distinct "
             "cells per reflecting/periodic axis, engine neighbour table = per-axis step, involutive through opposed_direction, every entry "
             "a face neighbour; generated rules of get_neighbors / kinetics loop / grid_to_graph tied to the face rules; grid_to_graph "
             "geometry (S=a^2, d=a, volumes, environments); get_edge symmetric. Tie: translator IndexPy/GeomPy/EngineCpp + exhaustive "
             "correspondence over all small grids (every cell, pair, position) incl. the real engine's neighbour set observed through "
             "Euler steps and the kinetics functions' through derivatives + oracle; grid vs grid_to_graph trajectories / rate law on the real code.",
        note="Lean kernel + {propext, Classical.choice, Quot.sound}; translator; correspondence harness. Partial: get_neighbors_iff / "
             "kinetics_enum_iff / engine_nbr_iff (converse directions) and the grid_to_graph edge-multiset theorem are not proved for all "
             "sizes (exhaustively checked for w,h,d<=3 quick / <=5 thorough); graph_rate_eq_grid_rate needs C01's engine model.",
        technique="Lean 4 proof over translator-generated formulas + exhaustive differential correspondence",
        design="§6 C15"),
}

ALL = ["C%02d" % i for i in range(1, 21)]


def main():
    checks = []
    for pid in ALL:
        if pid not in CHECKS:
            continue
        c = CHECKS[pid]
        checks.append({
            "property_id": pid,
            "quick_cmd": "./check %s --tier quick" % pid,
            "thorough_cmd": "./check %s --tier thorough" % pid,
            "evidence_file": "evidence/%s.json" % pid,
            "replay_cmd_template": "./check %s --replay {path}" % pid,
            "engine": "lean4-proof",
            "level_claimed": {"category": "proof", "text": c["text"], "design_ref": c["design"]},
            "level_note": c["note"],
            "technique": c["technique"],
        })
    man = {
        "version": 1,
        "setup_cmd": "./setup.sh",
        "hooks": {
            "guard": "THIBAULTFILLION_STRENGTHS_VERIF",
            "enable": "no source hooks: the checks rebuild the engine from /repo's working tree with a compile-time <random> shim (harness/shim) and import the Python package from /repo/src",
            "baseline_off_cmd": "cd /repo && env -u THIBAULTFILLION_STRENGTHS_VERIF /venv/bin/python -m pytest -ra -q -p no:cacheprovider --timeout=900 --continue-on-collection-errors",
            "source_commits": [],
            "add_only": True,
        },
        "engines": [{
            "name": "lean4-proof", "path": "lean/",
            "serves_properties": [c["property_id"] for c in checks],
            "kind_free_text": "Lean 4.33 model + theorems (lean/Strengths), translator tools/translate.py, JSON-lines correspondence driver lean/Driver.lean, harness/"}],
        "checks": checks,
        "notes": "Every check: regenerate Gen/*.lean from /repo -> lake build the property's theorems -> axiom audit -> correspondence "
                 "model vs implementation + property oracle on the real code -> decide (DESIGN.md §3).",
        "not_applicable": [{"property_id": p, "reason": "check not built yet at this commit (work in progress; planned per DESIGN.md §6)"}
                           for p in ALL if p not in CHECKS],
    }
    with open(os.path.join(ROOT, "MANIFEST.json"), "w") as f:
        json.dump(man, f, indent=1)
        f.write("\n")


if __name__ == "__main__":
    main()
