#!/usr/bin/env python3
"""writes MANIFEST.json from the table below (kept in one place so it stays valid)."""
import json, os
HERE = os.path.dirname(os.path.abspath(__file__))
ROOT = os.path.dirname(HERE)

CHECKS = {
    "C06": dict(
        text="Lean theorems: generated unit tables (regenerated from units.py on every run) have their SI meaning "
             "(whole-table kernel evaluation); conversion factor = ratio of SI values; identity, composition, inverse, "
             "dimension preservation, other-dimension rejection for every target form, for all valid systems and all "
             "integer dimension vectors. Tie: translator G1/G2 + correspondence (exhaustive per-base pairs x exponents, "
             "random conversions over five target forms, scalar/array) + SI oracle on the real code.",
        note="Lean kernel + {propext, Classical.choice, Quot.sound}; translator; correspondence harness; float rounding "
             "assumed within 1e-12 relative (checked on every sampled case, not proved).",
        technique="Lean 4 proof over translator-generated tables + differential correspondence",
        design="§6 C06"),
    "C16": dict(
        text="Lean theorems on the hand-written model of coarsegrain.py (validity tests, aggregation / spreading subscripts and "
             "statement inventory regenerated from the source): documented validity rules <-> accepted; volume, species totals, "
             "environments, chemostat flags of every group; coarse edge <-> groups sharing a face, surface = shared faces x h^2, "
             "distance^2 = centroid distance^2, no self-loops / duplicates; un-coarse-graining spreads evenly, preserves group "
             "totals, zero on dropped cells; identity map = grid_to_graph (all proved for all inputs). Tie: translator "
             "CoarsePy/IndexPy + correspondence (ops coarsegrain, cg_check, uncoarsegrain) + brute-force aggregation oracle on "
             "the real code (face-sharing pairs, shared-face counts, centroid distances from cell coordinates), identity map "
             "versus plain simulation on the three rebuilt engines.",
        note="Lean kernel + {propext, Classical.choice, Quot.sound}; translator; cube / square roots compared to the exact model "
             "within 1e-9 (distances squared); valid_iff assumes environment indices != -2 (the code's unset marker), cg_chem_any "
             "assumes flags >= 0; identity map on the stochastic engines: identical for equal draws (same seed only when "
             "nothing diffuses, the grid and graph engines enumerate neighbours in different orders).",
        technique="Lean 4 proof over translator-generated formulas + differential correspondence",
        design="§6 C16"),
    "C17": dict(
        text="Lean theorems: point accessor = flat index sample*nspecies*ncells + species*ncells + cell (generated formula); "
             "per-sample state, per-cell trajectory, whole-state block and merged trajectory of the model (numpy C-order reshape as "
             "stated model) read the same element / block / sum, with the data's units; species by label / index / object and "
             "cells by index / coordinates resolve to the same entry; the three sample-index lookups (guards, loop tests and "
             "returned indices regenerated from rdoutput.py) meet their declarative specs for every non-decreasing time list "
             "and every query (None exactly when no such sample exists; ties to the earlier for strictly increasing times), "
             "and comparisons in any time unit are comparisons of SI values. Tie: translator IndexPy/TrajPy + correspondence "
             "(op traj on directly constructed and simulated trajectories, grid and graph) + brute-force oracle on the real code.",
        note="Lean kernel + {propext, Classical.choice, Quot.sound}; translator; numpy reshape/negative-index semantics are a "
             "stated model; for repeated sample times closest/supeq return a later sample of equal time (known finding; "
             "time-wise partial theorems proved instead).",
        technique="Lean 4 proof over translator-generated formulas + differential correspondence",
        design="§6 C17"),
}

ALL = ["C%02d" % i for i in range(1, 21)]


def main():
    checks = []
    for pid in ALL:
        if pid not in CHECKS:
            continue
        c = CHECKS[pid]
        checks.append({
            "property_id": pid,
            "quick_cmd": "./check %s --tier quick" % pid,
            "thorough_cmd": "./check %s --tier thorough" % pid,
            "evidence_file": "evidence/%s.json" % pid,
            "replay_cmd_template": "./check %s --replay {path}" % pid,
            "engine": "lean4-proof",
            "level_claimed": {"category": "proof", "text": c["text"], "design_ref": c["design"]},
            "level_note": c["note"],
            "technique": c["technique"],
        })
    man = {
        "version": 1,
        "setup_cmd": "./setup.sh",
        "hooks": {
            "guard": "THIBAULTFILLION_STRENGTHS_VERIF",
            "enable": "no source hooks: the checks rebuild the engine from /repo's working tree with a compile-time <random> shim (harness/shim) and import the Python package from /repo/src",
            "baseline_off_cmd": "cd /repo && env -u THIBAULTFILLION_STRENGTHS_VERIF /venv/bin/python -m pytest -ra -q -p no:cacheprovider --timeout=900 --continue-on-collection-errors",
            "source_commits": [],
            "add_only": True,
        },
        "engines": [{
            "name": "lean4-proof", "path": "lean/",
            "serves_properties": [c["property_id"] for c in checks],
            "kind_free_text": "Lean 4.33 model + theorems (lean/Strengths), translator tools/translate.py, JSON-lines correspondence driver lean/Driver.lean, harness/"}],
        "checks": checks,
        "notes": "Every check: regenerate Gen/*.lean from /repo -> lake build the property's theorems -> axiom audit -> correspondence "
                 "model vs implementation + property oracle on the real code -> decide (DESIGN.md §3).",
        "not_applicable": [{"property_id": p, "reason": "check not built yet at this commit (work in progress; planned per DESIGN.md §6)"}
                           for p in ALL if p not in CHECKS],
    }
    with open(os.path.join(ROOT, "MANIFEST.json"), "w") as f:
        json.dump(man, f, indent=1)
        f.write("\n")


if __name__ == "__main__":
    main()
