#!/usr/bin/env python3
"""writes MANIFEST.json from the table below (kept in one place so it stays valid)."""
import json, os
HERE = os.path.dirname(os.path.abspath(__file__))
ROOT = os.path.dirname(HERE)

CHECKS = {
    "C06": dict(
        text="Lean theorems: generated unit tables (regenerated from units.py on every run) have their SI meaning "
             "(whole-table kernel evaluation); conversion factor = ratio of SI values; identity, composition, inverse, "
             "dimension preservation, other-dimension rejection for every target form, for all valid systems and all "
             "integer dimension vectors. Tie: translator G1/G2 + correspondence (exhaustive per-base pairs x exponents, "
             "random conversions over five target forms, scalar/array) + SI oracle on the real code.",
        note="Lean kernel + {propext, Classical.choice, Quot.sound}; translator; correspondence harness; float rounding "
             "assumed within 1e-12 relative (checked on every sampled case, not proved).",
        technique="Lean 4 proof over translator-generated tables + differential correspondence",
        design="§6 C06"),
    "C02": dict(
        text="Lean theorems, for all networks / topologies / states / draws / count vectors / time steps and any number of "
             "steps, for every rational (hence every integer) vector c in the left null space of the stoichiometric matrix "
             "with no chemostated entry in its support: a reaction firing and a diffusion jump leave total c unchanged; one "
             "Gillespie Iterate conserves (every pair of draws); one tau-leap Apply_nevt conserves for EVERY count vector; "
             "lifted by induction to runs; Euler: exact identity over Q for every topology with a half-edge pairing "
             "(sum over half-edges of an antisymmetric flux via an involution), grid pairing from the neighbour involution, "
             "graph kd symmetry; species in no reaction / diffusion-only are special cases. Tie: statement lists of all "
             "apply / derivative functions pinned against the modelled snapshot + replay correspondence of recorded steps of "
             "all three engines + oracle: exact integer left null space, totals on every recorded sample of real trajectories.",
        note="euler_conserves is partial: proved for any paired topology; the graphTopo pairing instance is missing and the "
             "gridTopo instance assumes the neighbour-involution lemma of C15. Float drift of Euler bounded by 1e-9 relative "
             "per step (checked, not proved).",
        technique="Lean 4 proof (induction + Finset involution) + differential correspondence + null-space oracle",
        design="§6 C02"),
    "C07": dict(
        text="Lean theorems about the engine model (one model for grid and graph algorithms), for all networks, topologies, "
             "states and draws: reaction propensity = k_env * V^(1-n) * prod_s x_s(x_s-1)...(x_s-nu_s+1) when enough reactants, "
             "else 0 (= nu! * C(x,nu) for integer amounts); positive iff constant non-zero and enough reactants; diffusion "
             "propensity = amount x rate-law constant (grid D/h^2, graph D*S/(V*d), zero interface diffusivity => 0); the "
             "engine's two-level cumulative search equals one flat scan over the channel list; channel k is selected exactly on "
             "an interval of length a_k (so with probability a_k/a0 under a uniform draw) and has a_k>0; every Gillespie step "
             "applies exactly one legal event (effect masked by chemostats, propensity not), keeps the state a non-negative "
             "integer state, advances time by L/a0>0; by induction all recorded states/times of any trajectory; dt=log(1/u)/a0 "
             "is the inverse CDF of Exp(a0) (Mathlib real analysis); tau-leap Poisson means are propensity*dt in call order, "
             "mean<=0 draws nothing. Tie: statement lists of all step functions pinned against the modelled snapshot "
             "(translator group Stoch) + per-step draw-replay correspondence + independent CME oracle on every recorded step.",
        note="Distributions of std::uniform_real_distribution / poisson_distribution / mt19937 are trusted (partial by design); "
             "no statistical test; float edge cases of the selection (margin < 1e-9 a0) skipped and counted.",
        technique="Lean 4 proof over a draw-stream model + draw-replay differential correspondence",
        design="§6 C07"),
    "C14": dict(
        text="Lean theorems about the model of engine.cpp's initial-state processing as a function of the primitive draw "
             "stream, for all states / sizes / draw streams: mode selection (auto = redist for stochastic engines, none for "
             "Euler; script-accepted modes all processed, others rejected), species-major <-> cell-major layout round trip "
             "(generated index formulas), 'none' is the identity, redistribution yields non-negative integers with per-species "
             "total = floor of the real total and support inside the support of the input, Poisson-mode layout (k-th draw has "
             "the k-th positive amount as mean and is stored at that entry; zero stays zero); progress interval for the "
             "correction loop (termination w.p.1 is partial: no measure theory). Tie: translator group Stoch (statement lists "
             "of GenerateStochasticDistribution and of the dispatch pinned against the modelled snapshot, switch constant, "
             "Python accepted modes/default) + draw-replay correspondence on the rebuilt, draw-logging engine + independent "
             "oracle on sample 0 (sandboxed with time-out).",
        note="Lean kernel + {propext, Classical.choice, Quot.sound}; translator; shimmed <random>; distributions of the std "
             "primitives and mt19937 trusted; termination only as a progress-interval theorem.",
        technique="Lean 4 proof over a draw-stream model + draw-replay differential correspondence",
        design="§6 C14"),
}

ALL = ["C%02d" % i for i in range(1, 21)]


def main():
    checks = []
    for pid in ALL:
        if pid not in CHECKS:
            continue
        c = CHECKS[pid]
        checks.append({
            "property_id": pid,
            "quick_cmd": "./check %s --tier quick" % pid,
            "thorough_cmd": "./check %s --tier thorough" % pid,
            "evidence_file": "evidence/%s.json" % pid,
            "replay_cmd_template": "./check %s --replay {path}" % pid,
            "engine": "lean4-proof",
            "level_claimed": {"category": "proof", "text": c["text"], "design_ref": c["design"]},
            "level_note": c["note"],
            "technique": c["technique"],
        })
    man = {
        "version": 1,
        "setup_cmd": "./setup.sh",
        "hooks": {
            "guard": "THIBAULTFILLION_STRENGTHS_VERIF",
            "enable": "no source hooks: the checks rebuild the engine from /repo's working tree with a compile-time <random> shim (harness/shim) and import the Python package from /repo/src",
            "baseline_off_cmd": "cd /repo && env -u THIBAULTFILLION_STRENGTHS_VERIF /venv/bin/python -m pytest -ra -q -p no:cacheprovider --timeout=900 --continue-on-collection-errors",
            "source_commits": [],
            "add_only": True,
        },
        "engines": [{
            "name": "lean4-proof", "path": "lean/",
            "serves_properties": [c["property_id"] for c in checks],
            "kind_free_text": "Lean 4.33 model + theorems (lean/Strengths), translator tools/translate.py, JSON-lines correspondence driver lean/Driver.lean, harness/"}],
        "checks": checks,
        "notes": "Every check: regenerate Gen/*.lean from /repo -> lake build the property's theorems -> axiom audit -> correspondence "
                 "model vs implementation + property oracle on the real code -> decide (DESIGN.md §3).",
        "not_applicable": [{"property_id": p, "reason": "check not built yet at this commit (work in progress; planned per DESIGN.md §6)"}
                           for p in ALL if p not in CHECKS],
    }
    with open(os.path.join(ROOT, "MANIFEST.json"), "w") as f:
        json.dump(man, f, indent=1)
        f.write("\n")


if __name__ == "__main__":
    main()
