#!/bin/sh
# MANIFEST.setup_cmd: regenerate Gen/*.lean from /repo and build every Lean module (offline).
cd "$(dirname "$0")" || exit 2
python3 tools/translate.py >/dev/null || exit 2
cd lean && lake build 2>&1 | tail -5
