"""Helpers shared by the engine-related checks: building systems with rational cell edges, marshalling a
script into the driver's "eng" object exactly as LibRDEngine._setup_grid/_setup_graph marshal it for the
native engine, running the real engine step by step, reading recorded states.

The marshalling below calls the repository's OWN build_*_matrix functions (they are code under test for
C01/C19; their model is separate).  Doubles are sent as exact rationals.
"""
from fractions import Fraction
import numpy as np
import common
from common import rstr, frac


def system_arrays(script, engine_units_quantity_molecule):
    """the arrays LibRDEngine hands to engineexport_initialize_*, as Python lists"""
    import strengths.librdengine as lre
    from strengths.rdspace import RDGridSpace
    us = script.units_system.copy()
    if engine_units_quantity_molecule:
        us.quantity = "molecule"
    system = script.system
    species = system.network.species
    reactions = []
    for r in system.network.reactions:
        rf, rr = r.split()
        reactions += [rf, rr]
    envs = system.network.environments
    out = {
        "us": us,
        "ns": len(species), "nr": len(reactions), "nenv": len(envs),
        "state": [float(v) for v in system.state.convert(us).value],
        "chem": [int(v) for v in system.chemostats],
        "k": [float(v) for v in lre.build_reaction_rate_constant_matrix(reactions, envs, us)],
        "sub": [int(v) for v in lre.build_substrate_stoechiometric_matrix(species, reactions)],
        "sto": [int(v) for v in lre.build_stoechiometric_difference_matrix(species, reactions)],
        "D": [float(v) for v in lre.build_diff_coef_environment_matrix(species, envs, us)],
    }
    sp = system.space
    if type(sp) == RDGridSpace:
        out["env"] = [int(v) for v in sp.cell_env]
        out["vol"] = float(sp.cell_vol.convert(us).value)
        bc = sp.get_boundary_conditions()
        out["space"] = {"kind": "grid", "w": sp.w, "h": sp.h, "d": sp.d,
                        "px": bc["x"] == "periodical", "py": bc["y"] == "periodical", "pz": bc["z"] == "periodical"}
    else:
        from strengths.units import UnitArray, Units, surface_units_dimensions, space_units_dimensions
        out["env"] = [int(v) for v in sp.get_cell_env_array()]
        out["vol"] = [float(v) for v in sp.get_cell_vol_array().convert(us).value]
        sfc = UnitArray([e.surface for e in sp.edges], Units(sys=us, dim=surface_units_dimensions())).value
        dst = UnitArray([e.distance for e in sp.edges], Units(sys=us, dim=space_units_dimensions())).value
        out["space"] = {"kind": "graph", "n": len(sp.nodes),
                        "edges": [[int(e.i), int(e.j), float(s), float(d)] for e, s, d in zip(sp.edges, sfc, dst)]}
    return out


def exact_cuberoot(v):
    """the rational h with h³ = v if the double v is (the double nearest to) a rational cube of a
    'nice' number; otherwise a rational within 1e-15 relative of the real cube root (then the model's
    h³ differs from V by rounding only; used with tolerance)"""
    f = frac(v)
    h = round(float(v) ** (1.0 / 3.0) * 2 ** 20) / 2 ** 20
    hf = Fraction(h)
    if abs(float(hf ** 3) - float(v)) <= 1e-15 * abs(float(v)):
        return hf
    return Fraction(float(v) ** (1.0 / 3.0))


def eng_json(arr, edge=None):
    """the driver's "eng" object from system_arrays(); `edge`: rational cell edge(s) (grid: one value,
    graph: list) — defaults to the (near-)exact cube roots of the volumes"""
    sp = dict(arr["space"])
    if sp["kind"] == "grid":
        h = edge if edge is not None else exact_cuberoot(arr["vol"])
        sp["edge"] = rstr(h)
        vol = rstr(arr["vol"])
    else:
        hs = edge if edge is not None else [exact_cuberoot(v) for v in arr["vol"]]
        sp["edge"] = [rstr(h) for h in hs]
        sp["edges"] = [[e[0], e[1], rstr(e[2]), rstr(e[3])] for e in sp["edges"]]
        vol = [rstr(v) for v in arr["vol"]]
    return {"space": sp, "ns": arr["ns"], "nr": arr["nr"], "nenv": arr["nenv"], "env": arr["env"], "chem": arr["chem"],
            "vol": vol, "k": [rstr(v) for v in arr["k"]], "sub": arr["sub"], "sto": arr["sto"], "D": [rstr(v) for v in arr["D"]]}


def run_recorded(script, option, kind="plain", max_iter=100000, with_draws=False):
    """run `script` on a freshly loaded engine with on-iteration bookkeeping left to the script's own
    sampling policy; returns (trajectory, draws or None, lib)"""
    import strengths as st
    eng = common.load_engine(option, kind)
    if with_draws:
        common.draws_clear(eng._lib)
    eng.setup(script)
    n = 0
    while eng.iterate() and n < max_iter:
        n += 1
    out = eng.get_output()
    draws = common.draws_get(eng._lib) if with_draws else None
    eng.finalize()
    return out, draws, eng


def samples(traj):
    """list of (t, state as species-major list of floats) in the ENGINE's units as recorded (trajectory units)"""
    ns, nc = traj.nspecies(), traj.ncells()
    data = np.asarray(traj.data.value, dtype=float).reshape((traj.nsamples(), ns * nc))
    return [(float(traj.t.value[k]), [float(v) for v in data[k]]) for k in range(traj.nsamples())]
