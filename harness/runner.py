#!/venv/bin/python
"""./check <ID> [--tier quick|thorough] [--replay file]   — the procedure of DESIGN.md §3.

exit 0  property held on everything explored (KNOWN-FINDING lines for listed findings)
exit 1  `VIOLATION property=<id> replay=<path>` (… `no-failing-input-found` when only a proof
        obligation / the correspondence broke and no failing input exists in what was searched)
exit 2  the check itself could not run (tooling failure, timeout); never a violation
"""
import argparse, importlib, json, os, sys, time, traceback

HERE = os.path.dirname(os.path.abspath(__file__))
sys.path.insert(0, HERE)
import common  # noqa: E402
from common import Ctx, CheckBroken  # noqa: E402


def write_json(path, obj):
    os.makedirs(os.path.dirname(path), exist_ok=True)
    tmp = path + ".tmp%d" % os.getpid()
    with open(tmp, "w", encoding="utf-8") as f:
        json.dump(common.jsonable(obj), f, indent=1, ensure_ascii=False)
    os.replace(tmp, path)


def main():
    ap = argparse.ArgumentParser()
    ap.add_argument("prop")
    ap.add_argument("--tier", default=os.environ.get("VERIF_TIER") or "quick", choices=["quick", "thorough"])
    ap.add_argument("--replay", default=None)
    args = ap.parse_args()
    prop = args.prop.upper()
    try:
        seed = int(os.environ.get("VERIF_SEED", "0") or 0)
    except ValueError:
        seed = 0
    mod = importlib.import_module("props.%s" % prop.lower())
    import shared_props
    shared_props.extend(mod, prop)
    ctx = Ctx(prop, args.tier, seed)

    if args.replay:
        case = json.load(open(args.replay, encoding="utf-8"))
        common.use_repo_package()
        ok, detail = mod.replay(ctx, case)
        print(json.dumps(common.jsonable(detail), indent=1, ensure_ascii=False))
        print("REPLAY %s" % ("holds" if ok else "FAILS"))
        return 0 if ok else 1

    out_root = os.environ.get("VERIF_OUT_DIR") or common.VERIF   # (mutation runs redirect evidence/replays elsewhere)
    evidence_path = os.path.join(out_root, "evidence", "%s.json" % prop)
    obligations = []      # (name, discharged?)
    leanchecker = None
    axioms = {}
    build_log = ""
    try:
        # ---- A. regenerate, B. prove, audit
        with common.lean_lock():
            status = common.regenerate()
            groups = getattr(mod, "GEN_GROUPS", None)
            for lost in status.get("lost", []):
                if groups is None or lost["group"] in groups:
                    ctx.broken.append({"kind": "anchor", "name": "gen:%s:%s" % (lost["group"], lost["anchor"])})
            for g in (groups or []):
                obligations.append(("gen:" + g, not any(l["group"] == g for l in status.get("lost", []))))
            ok_model, log_model = common.lake_build(["Strengths.Driver.All"])
            ok_props, build_log = common.lake_build(list(mod.LEAN_TARGETS))
            theorems = common.props_theorems(mod.PROP_FILES)
            if ok_props:
                axioms = common.audit_axioms(mod.LEAN_TARGETS, theorems)
            forbidden = common.grep_forbidden(common.lean_sources())
            leanchecker = None
            if ok_props and args.tier == "thorough":
                # independent re-check of the compiled property modules by the toolchain's olean re-checker
                rc_lc, out_lc = common.run(["lake", "env", "leanchecker"] + list(mod.LEAN_TARGETS), cwd=common.LEAN_DIR, timeout=1500)
                leanchecker = "ok" if rc_lc == 0 else "FAILED: " + out_lc[-500:]
                if rc_lc != 0:
                    raise CheckBroken("leanchecker rejected %s: %s" % (mod.LEAN_TARGETS, out_lc[-800:]))
        if forbidden:
            raise CheckBroken("forbidden constructs in the Lean sources: %s" % forbidden[:5])
        bad_ax = {t: a for t, a in axioms.items() if not set(a) <= common.STD_AXIOMS}
        if bad_ax:
            raise CheckBroken("non-standard axioms: %s" % bad_ax)
        if ok_props:
            obligations += [(t, True) for t in theorems]
        else:
            failing = common.failing_decls(build_log)
            for f in failing or ["<build of %s>" % ",".join(mod.LEAN_TARGETS)]:
                ctx.broken.append({"kind": "theorem", "name": f})
            failing_names = {f.split(" ")[0] for f in failing}
            obligations += [(t, t.split(".")[-1] not in failing_names and False) for t in theorems]
        ctx.model.available = ok_model
        if not ok_model:
            ctx.notes.append("model driver does not build on this tree; correspondence skipped, oracle only")
            if ok_props:
                ctx.broken.append({"kind": "theorem", "name": "<build of Strengths.Driver.All>",
                                   "log": log_model[-1500:]})

        # ---- C/D/E. rebuild, correspond, witnesses (inside the property module)
        common.use_repo_package()
        ctx.t0 = time.time()   # the time budgets of the modules start after the Lean phase (cold builds are slow)
        known_keys = set(common.known_findings(prop)[0])

        def unlisted_now():
            return [v for v in ctx.violations if v["key"] not in known_keys]
        try:
            mod.run(ctx)
        except (CheckBroken, common.EngineBuildError):
            raise
        except Exception as ex:
            # a crash of the harness after the real code already failed the property must not hide the failure
            msg = str(ex)
            if unlisted_now():
                ctx.notes.append("harness raised after recording a failing input: " + traceback.format_exc()[-600:])
            elif isinstance(ex, (ValueError, OverflowError)) and any(w in msg for w in ("NaN", "nan", "Infinity", "infinity")):
                # the real code handed back a non-finite number where the model has a rational: the correspondence cannot be
                # evaluated on this tree (never happens on a tree where the property holds: all generated systems are finite)
                ctx.broken.append({"kind": "correspondence", "name": "non-finite value returned by the implementation",
                                   "log": traceback.format_exc()[-800:]})
            else:
                raise
        # ---- failing-input search when something is broken but no failing input is known yet
        if ctx.broken and not unlisted_now() and hasattr(mod, "search"):
            mod.search(ctx)
        # generic widening of that search: an obligation no longer checks and no input failed yet -> the same generators
        # again under further seeds (bounded in time); never reached on a tree where everything checks
        if ctx.broken and not unlisted_now():
            import random
            t_end = time.time() + (150 if args.tier == "quick" else 900)
            extra = 0
            while not unlisted_now() and time.time() < t_end and extra < 8:
                extra += 1
                ctx.seed = seed * 1000 + 7919 * extra
                ctx.rng = random.Random((ctx.seed * 1000003) ^ common.hash_str(prop))
                ctx.t0 = time.time()
                try:
                    mod.run(ctx)
                except (CheckBroken, common.EngineBuildError):
                    raise
                except Exception:
                    if not unlisted_now():
                        ctx.notes.append("widened search (seed %d) raised: %s" % (ctx.seed, traceback.format_exc()[-400:]))
                        break
            ctx.extra["widened_search_runs"] = extra
            ctx.seed = seed
    except CheckBroken as e:
        print("CHECK-BROKEN property=%s %s" % (prop, str(e)[:3000]))
        return 2
    except common.EngineBuildError as e:
        # the working tree's engine does not compile: not a semantic violation
        print("CHECK-BROKEN property=%s engine sources do not compile: %s" % (prop, str(e)[-1500:]))
        return 2
    except Exception:
        print("CHECK-BROKEN property=%s internal error\n%s" % (prop, traceback.format_exc()[-3000:]))
        return 2

    # ---- F. decide
    known, fixed = common.known_findings(prop)
    listed, unlisted = [], []
    for v in ctx.violations:
        (listed if v["key"] in known else unlisted).append(v)
    seen = set()
    for v in listed:
        if v["key"] not in seen:
            seen.add(v["key"])
            print("KNOWN-FINDING: property=%s %s (%s)" % (prop, known[v["key"]], v["key"]))

    rc = 0
    replay_path = None
    tag = "%s_%s_seed%d" % (prop, args.tier, seed)
    if unlisted:
        v = unlisted[0]
        replay_path = os.path.join(out_root, "replays", tag + ".json")
        write_json(replay_path, {"property": prop, "kind": "failing-input", "key": v["key"], "what": v["what"],
                                 "case": v["case"], "impl": v["impl"], "expected": v["expected"],
                                 "replay_cmd": "./check %s --replay %s" % (prop, os.path.relpath(replay_path, common.VERIF)),
                                 "broken": ctx.broken[:5], "other_failures": [u["key"] for u in unlisted[1:10]]})
        print("FAILING-INPUT %s: %s" % (v["key"], v["what"]))
        print("VIOLATION property=%s replay=%s" % (prop, replay_path))
        rc = 1
    elif ctx.broken:
        replay_path = os.path.join(out_root, "replays", tag + ".json")
        write_json(replay_path, {"property": prop, "kind": "no-failing-input-found",
                                 "broken": ctx.broken[:10],
                                 "note": "the named theorem / anchor / correspondence no longer checks on this tree; "
                                         "the failing-input search found no input on which the real code violates the property"
                                         + ("" if not listed else " beyond the listed known findings"),
                                 "build_log_tail": build_log[-3000:] if build_log and not all(d for _, d in obligations) else ""})
        for b in ctx.broken[:5]:
            print("BROKEN %s %s" % (b["kind"], b["name"]))
        print("VIOLATION property=%s replay=%s no-failing-input-found" % (prop, replay_path))
        rc = 1

    # ---- evidence
    n_obl = len(obligations)
    n_dis = sum(1 for _, d in obligations if d)
    ax_used = sorted({a for al in axioms.values() for a in al})
    cov = {
        "obligations": n_obl,
        "discharged": n_dis,
        "checker_cmd": "cd lean && lake build %s  (+ `#print axioms` on every theorem of %s)" % (" ".join(mod.LEAN_TARGETS), ", ".join(mod.PROP_FILES)),
        "trusted_base": [
            "Lean 4.33.0 kernel; axioms used by the theorems of this property: %s" % (ax_used or ["none"]),
            "tools/translate.py (syntactic translator, regenerated Gen/*.lean on this run)",
            "harness correspondence check (generators, tolerance policy, oracle) in harness/props/%s.py" % prop.lower(),
        ] + list(getattr(mod, "TRUSTED", [])),
        "theorems": [t for t, _ in obligations],
        "axioms_per_theorem": axioms,
        "evaluations": ctx.evaluations,
        "distinct_nontrivial": len(ctx.nontrivial),
        "rule": getattr(mod, "RULE", ""),
        "samples": ctx.samples or [{"note": "no correspondence cases were run"}],
        "distribution": ctx.stats,
        "model_lines": ctx.model.lines,
        "broken": ctx.broken[:10],
        "known_findings_reproduced": sorted(seen),
        "notes": ctx.notes,
        "leanchecker": leanchecker if args.tier == "thorough" else "not run in quick tier",
    }
    cov.update(ctx.extra)
    write_json(evidence_path, {
        "property_id": prop, "tier": args.tier, "seed": seed, "level": "proof", "coverage": cov,
        "assumptions": list(getattr(mod, "ASSUMPTIONS", [])) + ctx.assumptions,
        "wall_s": round(time.time() - ctx.t_start, 2), "violations": len(unlisted) + (1 if (ctx.broken and not unlisted) else 0),
    })
    if rc == 0:
        print("OK property=%s tier=%s seed=%d theorems=%d evaluations=%d nontrivial=%d wall=%.1fs" % (
            prop, args.tier, seed, n_dis, ctx.evaluations, len(ctx.nontrivial), time.time() - ctx.t_start))
    return rc


if __name__ == "__main__":
    sys.exit(main())
