"""Shared machinery of every check (DESIGN.md §3): regenerate -> prove -> audit -> rebuild engine ->
correspond -> witnesses -> decide; evidence and replay writers.

Runs under /venv/bin/python (numpy + the repository package importable from REPO/src).
"""
import atexit, contextlib, fcntl, glob, json, math, os, random, re, shutil, subprocess, sys, tempfile, time
from fractions import Fraction

VERIF = os.path.dirname(os.path.dirname(os.path.abspath(__file__)))
REPO = os.environ.get("VERIF_REPO", "/repo")
LEAN_DIR = os.environ.get("VERIF_LEAN_DIR", os.path.join(VERIF, "lean"))
GEN_DIR = os.path.join(LEAN_DIR, "Strengths", "Gen")
ENGINE_SRC = os.path.join(REPO, "src", "strengths", "engines", "strengths_engine", "src")
GUARD = "THIBAULTFILLION_STRENGTHS_VERIF"
os.environ.setdefault(GUARD, "1")

STD_AXIOMS = {"propext", "Classical.choice", "Quot.sound"}
FORBIDDEN = re.compile(r"\b(sorry|admit|native_decide|bv_decide|implemented_by|unsafe)\b|^\s*axiom\s|maxHeartbeats\s+0\b", re.M)


class CheckBroken(Exception):
    """the check itself cannot run (tooling failure): exit 2, never a violation"""


def use_repo_package():
    """make `import strengths` resolve to REPO/src (the working tree under test)"""
    src = os.path.join(REPO, "src")
    if src not in sys.path:
        sys.path.insert(0, src)
    import warnings
    warnings.filterwarnings("ignore", category=SyntaxWarning)
    import strengths  # noqa
    got = os.path.realpath(os.path.dirname(strengths.__file__))
    want = os.path.realpath(os.path.join(src, "strengths"))
    if got != want:
        raise CheckBroken("strengths imported from %s, expected %s" % (got, want))
    return strengths


# ---------------------------------------------------------------------------------------------
# numbers
# ---------------------------------------------------------------------------------------------
def frac(x):
    """exact rational of a Python number (float -> exact binary value)"""
    if isinstance(x, Fraction):
        return x
    if isinstance(x, bool):
        return Fraction(int(x))
    if isinstance(x, int):
        return Fraction(x)
    try:
        import numpy as np
        if isinstance(x, np.integer):
            return Fraction(int(x))
        if isinstance(x, np.floating):
            x = float(x)
    except ImportError:
        pass
    if isinstance(x, float):
        if math.isnan(x) or math.isinf(x):
            raise ValueError("non-finite float")
        return Fraction(x)
    if isinstance(x, str):
        return Fraction(x)
    raise TypeError("frac(%r)" % (x,))


def rstr(x):
    """wire form of a rational: "p/q" (or "p")"""
    f = frac(x)
    return str(f.numerator) if f.denominator == 1 else "%d/%d" % (f.numerator, f.denominator)


def fstr(q):
    """short human-readable form of a rational that never overflows (for messages)"""
    try:
        return "%.9g" % float(frac(q))
    except (OverflowError, ValueError):
        t = rstr(q)
        return t if len(t) < 60 else t[:28] + "…" + t[-28:]


def rparse(s):
    if isinstance(s, (int, float)):
        return frac(s)
    return Fraction(s)


def close(v, q, mag=None, rel=1e-9, abs_floor=0.0):
    """does the implementation double `v` match the exact model value `q`?
    |v - q| <= rel * max(|q|, mag) (+ abs_floor).  `mag` is the magnitude of the terms that were
    added/subtracted to obtain q (cancellation-safe, DESIGN §4)."""
    q = frac(q)
    try:
        fv = frac(v)
    except (ValueError, TypeError, OverflowError):      # NaN / infinity / not a number at all: never a match
        return False
    m = abs(q)
    if mag is not None:
        m = max(m, abs(frac(mag)))
    return abs(fv - q) <= Fraction(rel) * m + Fraction(abs_floor)


# ---------------------------------------------------------------------------------------------
# Lean side
# ---------------------------------------------------------------------------------------------
@contextlib.contextmanager
def lean_lock(shared=False):
    os.makedirs(LEAN_DIR, exist_ok=True)
    f = open(os.path.join(LEAN_DIR, ".verif.lock"), "w")
    try:
        fcntl.flock(f, fcntl.LOCK_SH if shared else fcntl.LOCK_EX)
        yield
    finally:
        fcntl.flock(f, fcntl.LOCK_UN)
        f.close()


def run(cmd, cwd=None, timeout=None, env=None, input=None):
    p = subprocess.run(cmd, cwd=cwd, timeout=timeout, env=env, input=input, stdout=subprocess.PIPE,
                       stderr=subprocess.STDOUT, text=True)
    return p.returncode, p.stdout


def regenerate():
    """step A: tools/translate.py REPO -> Gen/*.lean ; returns the status dict"""
    rc, out = run([sys.executable, os.path.join(VERIF, "tools", "translate.py"), "--repo", REPO, "--out", GEN_DIR])
    if rc != 0:
        raise CheckBroken("translator crashed:\n" + out[-2000:])
    return json.loads(out.strip().splitlines()[-1])


def lake_build(targets, timeout=1500):
    """step B: returns (ok, log).  A failure lists the theorems / files that no longer check."""
    rc, out = run(["lake", "build"] + list(targets), cwd=LEAN_DIR, timeout=timeout)
    return rc == 0, out


def failing_decls(log):
    """names of the declarations at the error positions of a lake build log"""
    out = []
    for m in re.finditer(r"error: (\S+?\.lean):(\d+):(\d+):", log):
        path, line = m.group(1), int(m.group(2))
        full = path if os.path.isabs(path) else os.path.join(LEAN_DIR, path)
        name = "%s:%d" % (path, line)
        try:
            lines = open(full, encoding="utf-8").read().splitlines()
            for i in range(min(line, len(lines)) - 1, -1, -1):
                mm = re.match(r"\s*(?:private\s+|protected\s+)?(theorem|lemma|def|example|instance|abbrev)\s+(\S+)?", lines[i])
                if mm:
                    name = "%s (%s:%d)" % (mm.group(2) or mm.group(1), path, line)
                    break
        except OSError:
            pass
        if name not in out:
            out.append(name)
    return out


def props_theorems(prop_files):
    """(module, fully qualified name) of every theorem in the given Props files"""
    res = []
    for rel in prop_files:
        txt = open(os.path.join(LEAN_DIR, rel), encoding="utf-8").read()
        # strip comments
        txt_nc = re.sub(r"/-.*?-/", "", txt, flags=re.S)
        txt_nc = re.sub(r"--[^\n]*", "", txt_nc)
        ns = []
        for line in txt_nc.splitlines():
            m = re.match(r"\s*namespace\s+(\S+)", line)
            if m:
                ns.append(m.group(1))
                continue
            m = re.match(r"\s*end\s+(\S+)\s*$", line)
            if m and ns and ns[-1] == m.group(1):
                ns.pop()
                continue
            m = re.match(r"\s*(?:protected\s+)?theorem\s+(\S+)", line)
            if m:
                nm = m.group(1)
                if nm.startswith("_root_."):
                    res.append(nm[len("_root_."):])
                else:
                    res.append(".".join(ns + [nm]))
    return res


def audit_axioms(modules, theorems):
    """`#print axioms` for every theorem; returns {theorem: [axioms]}"""
    if not theorems:
        return {}
    src = "".join("import %s\n" % m for m in modules) + "".join("#print axioms %s\n" % t for t in theorems)
    d = tempfile.mkdtemp(prefix="verif_audit_")
    try:
        path = os.path.join(d, "Audit.lean")
        open(path, "w").write(src)
        rc, out = run(["lake", "env", "lean", path], cwd=LEAN_DIR, timeout=900)
    finally:
        shutil.rmtree(d, ignore_errors=True)
    res = {}
    for m in re.finditer(r"'([^']+)' depends on axioms: \[([^\]]*)\]", out):
        res[m.group(1)] = [a.strip() for a in m.group(2).replace("\n", " ").split(",") if a.strip()]
    for m in re.finditer(r"'([^']+)' does not depend on any axioms", out):
        res[m.group(1)] = []
    missing = [t for t in theorems if t not in res]
    if rc != 0 or missing:
        raise CheckBroken("axiom audit failed (rc=%d, missing=%s):\n%s" % (rc, missing[:5], out[-1500:]))
    return res


def grep_forbidden(files):
    hits = []
    for rel in files:
        full = os.path.join(LEAN_DIR, rel)
        txt = open(full, encoding="utf-8").read()
        txt = re.sub(r"/-.*?-/", lambda m: "\n" * m.group(0).count("\n"), txt, flags=re.S)
        txt = re.sub(r"--[^\n]*", "", txt)
        for m in FORBIDDEN.finditer(txt):
            hits.append("%s:%d:%s" % (rel, txt.count("\n", 0, m.start()) + 1, m.group(0).strip()))
    return hits


def lean_sources():
    out = []
    for root, _, files in os.walk(os.path.join(LEAN_DIR, "Strengths")):
        for f in files:
            if f.endswith(".lean"):
                out.append(os.path.relpath(os.path.join(root, f), LEAN_DIR))
    out.append("Driver.lean")
    return sorted(out)


class Model:
    """the executable Lean model behind the JSON-lines driver (batch mode)"""

    def __init__(self):
        self.calls = 0
        self.lines = 0
        self.available = True

    def run(self, ops, timeout=300):
        """one answer per op; `None` answers when the model does not build on this tree"""
        if not ops:
            return []
        if not self.available:
            return [None] * len(ops)
        self.calls += 1
        self.lines += len(ops)
        data = "".join(json.dumps(o, ensure_ascii=False) + "\n" for o in ops)
        with lean_lock(shared=True):
            # own session so that a time-out kills `lake` AND the `lean` it spawned
            proc = subprocess.Popen(["lake", "env", "lean", "--run", "Driver.lean"], cwd=LEAN_DIR, stdin=subprocess.PIPE,
                                    stdout=subprocess.PIPE, stderr=subprocess.PIPE, text=True, start_new_session=True)
            try:
                out, err = proc.communicate(data, timeout=timeout)
            except subprocess.TimeoutExpired:
                import signal
                try:
                    os.killpg(proc.pid, signal.SIGKILL)
                except OSError:
                    pass
                proc.wait()
                raise CheckBroken("model driver timed out after %ds on %d ops (first: %s)" % (timeout, len(ops), json.dumps(ops[0])[:200]))

        class _P:
            pass
        p = _P()
        p.returncode, p.stdout, p.stderr = proc.returncode, out, err
        if p.returncode != 0:
            raise CheckBroken("model driver failed rc=%d: %s" % (p.returncode, (p.stderr or p.stdout)[-1500:]))
        lines = [l for l in p.stdout.splitlines() if l.strip()]
        if len(lines) != len(ops):
            raise CheckBroken("model driver answered %d lines for %d ops; stderr=%s" % (len(lines), len(ops), p.stderr[-800:]))
        res = [json.loads(l) for l in lines]
        for o, r in zip(ops, res):
            if "fail" in r:
                raise CheckBroken("model driver could not read op %s: %s" % (json.dumps(o)[:300], r["fail"]))
        return res


# ---------------------------------------------------------------------------------------------
# engine rebuild (DESIGN §5.3)
# ---------------------------------------------------------------------------------------------
_SCRATCH = []


def scratch_dir(prefix="verif_"):
    d = tempfile.mkdtemp(prefix=prefix)
    _SCRATCH.append(d)
    return d


@atexit.register
def _cleanup():
    for d in _SCRATCH:
        shutil.rmtree(d, ignore_errors=True)


_ENGINE_CACHE = {}


def build_engine(kind="plain"):
    """compile engine.cpp of the working tree; kind: plain | shim (draw logging) | hard (assertions)"""
    if kind in _ENGINE_CACHE:
        return _ENGINE_CACHE[kind]
    d = scratch_dir("verif_engine_")
    out = os.path.join(d, "engine_%s.so" % kind)
    cmd = ["g++", "-std=c++11", "-O1", "-fPIC", "-shared", "-ffp-contract=off"]
    src = os.path.join(ENGINE_SRC, "engine.cpp")
    if kind == "shim":
        cmd += ["-I", os.path.join(VERIF, "harness", "shim"), "-I", ENGINE_SRC,
                "-DVERIF_ENGINE_CPP=\"%s\"" % src]
        src = os.path.join(VERIF, "harness", "shim", "engine_shim.cpp")
    elif kind == "hard":
        cmd += ["-D_GLIBCXX_ASSERTIONS", "-g"]
    elif kind == "asan":
        cmd += ["-D_GLIBCXX_ASSERTIONS", "-g", "-fsanitize=address,undefined,float-cast-overflow", "-fno-omit-frame-pointer"]     # (float-cast-overflow is not part of `undefined` in GCC)
    cmd += ["-I", ENGINE_SRC, src, "-o", out]
    rc, log = run(cmd, timeout=300)
    if rc != 0:
        raise EngineBuildError(log[-3000:])
    _ENGINE_CACHE[kind] = out
    return out


class EngineBuildError(Exception):
    pass


def load_engine(option, kind="plain"):
    """a fresh LibRDEngine on the rebuilt library, as engine_collection does"""
    import ctypes
    use_repo_package()
    from strengths.librdengine import LibRDEngine
    lib = ctypes.CDLL(build_engine(kind))
    return LibRDEngine(lib, option=option, requires_molecules=(option != "euler"))


# ---------------------------------------------------------------------------------------------
# known findings
# ---------------------------------------------------------------------------------------------
def known_findings(prop):
    path = os.path.join(VERIF, "known_findings.txt")
    known, fixed = {}, []
    if os.path.exists(path):
        for line in open(path, encoding="utf-8"):
            line = line.strip()
            if not line or line.startswith("#"):
                continue
            m = re.match(r"known:\s+property=(\S+)\s+key=(\S+)\s+(.*)", line)
            if m and m.group(1) == prop:
                known[m.group(2)] = m.group(3)
            m = re.match(r"fixed:\s+property=(\S+)\s+(.*)", line)
            if m and m.group(1) == prop:
                fixed.append(m.group(2))
    return known, fixed


# ---------------------------------------------------------------------------------------------
# the check context
# ---------------------------------------------------------------------------------------------
class Ctx:
    def __init__(self, prop, tier, seed):
        self.prop = prop
        self.tier = tier
        self.seed = seed
        self.rng = random.Random((seed * 1000003) ^ hash_str(prop))
        self.model = Model()
        self.t0 = time.time()        # reset by the runner when the correspondence starts (budget clock)
        self.t_start = self.t0       # creation time (wall clock of the whole check)
        self.evaluations = 0
        self.nontrivial = set()
        self.samples = []
        self.stats = {}
        self.broken = []          # obligations / correspondences that no longer check
        self.violations = []      # property failures shown on the real code: dict(key, what, replay)
        self.assumptions = []
        self.notes = []
        self.extra = {}
        self.budget_s = float(os.environ.get("VERIF_BUDGET_S", "0")) or (75 if tier == "quick" else 1500)

    # --- sizing
    def n(self, quick, thorough):
        return quick if self.tier == "quick" else thorough

    def time_left(self):
        return self.budget_s - (time.time() - self.t0)

    # --- bookkeeping
    def count(self, key, k=1):
        self.stats[key] = self.stats.get(key, 0) + k

    def case(self, fingerprint, nontrivial=True, sample=None):
        """register one evaluated case; `fingerprint` identifies distinct cases"""
        self.evaluations += 1
        if nontrivial:
            self.nontrivial.add(fingerprint if isinstance(fingerprint, (str, int, tuple)) else json.dumps(fingerprint, sort_keys=True, default=str))
        if sample is not None and len(self.samples) < 6:
            self.samples.append(sample)

    def disagree(self, op, case, impl, model, note=""):
        """model and implementation differ on `case` (correspondence broken; not yet a violation)"""
        self.count("disagreements")
        if len([b for b in self.broken if b["kind"] == "correspondence" and b["name"] == op]) < 5:
            self.broken.append({"kind": "correspondence", "name": op, "case": case, "impl": impl, "model": model, "note": note})

    def violation(self, key, what, case, impl=None, expected=None, replay_cmd=None):
        """the property's own predicate fails on the REAL code for `case`"""
        self.count("oracle_failures")
        # keep at most 3 per key (so a recurring known finding cannot crowd other failures out), 200 in all
        if sum(1 for v in self.violations if v["key"] == key) < 3 and len(self.violations) < 200:
            self.violations.append({"key": key, "what": what, "case": case, "impl": impl, "expected": expected,
                                    "replay_cmd": replay_cmd})


def hash_str(s):
    h = 0
    for ch in s:
        h = (h * 131 + ord(ch)) & 0xFFFFFFFF
    return h


def jsonable(x):
    if isinstance(x, Fraction):
        return rstr(x)
    if isinstance(x, (list, tuple)):
        return [jsonable(v) for v in x]
    if isinstance(x, dict):
        return {str(k): jsonable(v) for k, v in x.items()}
    if isinstance(x, (str, int, float, bool)) or x is None:
        return x
    try:
        import numpy as np
        if isinstance(x, np.ndarray):
            return [jsonable(v) for v in x.tolist()]
        if isinstance(x, (np.integer,)):
            return int(x)
        if isinstance(x, (np.floating,)):
            return float(x)
    except ImportError:
        pass
    return repr(x)


# ---------------------------------------------------------------------------------------------
# draw log of the shimmed engine build (DESIGN §5.3)
# ---------------------------------------------------------------------------------------------
def draws_clear(lib):
    lib.verif_draw_clear()


def draws_get(lib):
    """[(kind, a, b, r)] — kind 'unif'(a,b) | 'pois'(mean=a) | 'norm'(mean=a, sd=b); r = the value drawn"""
    import ctypes
    n = lib.verif_draw_count()
    k, a, b, r = ctypes.c_int(), ctypes.c_double(), ctypes.c_double(), ctypes.c_double()
    out = []
    names = {0: "unif", 1: "pois", 2: "norm"}
    for i in range(n):
        lib.verif_draw_get(i, ctypes.byref(k), ctypes.byref(a), ctypes.byref(b), ctypes.byref(r))
        out.append((names[k.value], a.value, b.value, r.value))
    return out


def run_child(code, timeout=60, kind_env=None):
    """run a Python snippet in a sandboxed child (/venv python, REPO/src on the path); returns
    (status, stdout) with status in ok | crash:<signal or rc> | timeout.  Used for calls that may
    hang or kill the process (lifecycle histories, sub-molecule redistribution)."""
    env = dict(os.environ)
    env["PYTHONPATH"] = os.path.join(REPO, "src") + os.pathsep + os.path.join(VERIF, "harness")
    if kind_env:
        env.update(kind_env)
    try:
        p = subprocess.run([sys.executable, "-c", code], stdout=subprocess.PIPE, stderr=subprocess.PIPE, text=True,
                           timeout=timeout, env=env)
    except subprocess.TimeoutExpired as e:
        return "timeout", (e.stdout or b"").decode() if isinstance(e.stdout, bytes) else (e.stdout or "")
    if p.returncode == 0:
        return "ok", p.stdout
    return "crash:%d" % p.returncode, p.stdout + "\n" + p.stderr[-1500:]
